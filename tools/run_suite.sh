#!/bin/bash
# Runs the pinned test suite of /repo (or $1 = alternative repo root) with xdist and
# reports baseline tests (BASELINE.json stable_pass) that did not pass.
ROOT="${1:-/repo}"
OUT="${2:-/tmp/suite.$$}"
mkdir -p "$OUT"
cd "$ROOT" || exit 2
env -u COGENT3_VERIF PYTHONPATH="$ROOT/src" /venv/bin/python -m pytest -q -p no:cacheprovider --timeout=900 \
  --continue-on-collection-errors -n 14 --junitxml="$OUT/junit.xml" -q >"$OUT/log" 2>&1
SUITE_ROOT="$ROOT" /venv/bin/python - "$OUT/junit.xml" <<'PY'
import json, os, sys, xml.etree.ElementTree as ET
ROOT = os.environ.get("SUITE_ROOT", "/repo")
base = set(json.load(open('/root/.vp/BASELINE.json'))['stable_pass'])
root = ET.parse(sys.argv[1]).getroot()
passed = set()
for tc in root.iter('testcase'):
    bad = any(ch.tag in ('failure', 'error', 'skipped') for ch in tc)
    name = f"{tc.get('classname')}::{tc.get('name')}".replace(ROOT + "/", "/repo/")
    if not bad:
        passed.add(name)
missing = sorted(base - passed)
print(f"baseline={len(base)} passed_now={len(passed)} baseline_not_passing={len(missing)}")
for m in missing[:40]:
    print("  NOT PASSING:", m)
sys.exit(1 if missing else 0)
PY
rc=$?
tail -3 "$OUT/log"
rm -rf "$OUT"
exit $rc
