#!/bin/bash
# tools/multiseed.sh "<ids>" "<seeds>" [extra args]: runs the quick tier of each check at each seed
# (no evidence written) and prints one line per run; used to look for alarms on the unchanged tree.
IDS="$1"; SEEDS="$2"; shift 2
cd "$(dirname "$0")/.."
for id in $IDS; do
  for s in $SEEDS; do
    out=$(VERIF_SEED=$s ./check "$id" --no-evidence "$@" 2>&1)
    rc=$?
    echo "$id seed=$s rc=$rc $(echo "$out" | grep "^$id tier" | cut -c1-160)"
    if [ $rc -ne 0 ]; then echo "$out" | grep "failure\|HARNESS" | cut -c1-300; fi
  done
done
