#!/venv/bin/python
"""Regenerates the data-driven tables of DESIGN.md section 3 (between the
<!-- BEGIN:name --> / <!-- END:name --> markers) from MANIFEST.json, evidence/*.json,
known_findings.json, seeded/RESULTS.json + seeded/*/meta.json and selftest/RESULTS.json.
Development-time tool.  usage: tools/design_report.py"""
import glob, json, os, re

ROOT = os.path.realpath(os.path.join(os.path.dirname(__file__), ".."))


def load(p, default=None):
    p = os.path.join(ROOT, p)
    return json.load(open(p)) if os.path.exists(p) else default


def esc(s):
    return str(s).replace("|", "\\|").replace("\n", " ")


def _short(subs):
    return ', '.join(subs) if len(subs) <= 8 else ', '.join(subs[:7]) + f', ... ({len(subs)} sub-checks)'


def status_table():
    man = load("MANIFEST.json")
    kf = load("known_findings.json")["findings"]
    rows = ["| id | level | quick: cases / evaluations / non-trivial | sub-checks | known excluded | fixed replays | wall (s) |", "|---|---|---|---|---|---|---|"]
    for c in sorted(man["checks"], key=lambda c: c["property_id"]):
        pid = c["property_id"]
        ev = load(f"evidence/{pid}.json", {})
        cov = ev.get("coverage", {})
        nfixed = sum(1 for f in kf if f["property"] == pid and f["status"] == "fixed")
        excl = sum(cov.get("excluded_known", {}).values()) if isinstance(cov.get("excluded_known"), dict) else 0
        rows.append(f"| {pid} | {(c.get('level_claimed') or {}).get('category', '')} | {cov.get('cases', '?')} / {cov.get('evaluations', '?')} / {cov.get('distinct_nontrivial', '?')} | {esc(_short(cov.get('subchecks', [])))} | {excl} | {nfixed} | {ev.get('wall_s', '?')} |")
    return "\n".join(rows)


def fixed_table():
    kf = load("known_findings.json")["findings"]
    by_commit = {}
    for f in kf:
        if f["status"] != "fixed":
            continue
        by_commit.setdefault((f["property"], f["commit"]), []).append(f)
    rows = ["| property | fix commit | what failed (first recorded replay) | replays |", "|---|---|---|---|"]
    for (pid, commit), fs in sorted(by_commit.items()):
        what = re.sub(r"^fixed: property=\S+ \S+ ", "", fs[0]["line"])
        rows.append(f"| {pid} | `{commit}` | {esc(what)} | {len(fs)} |")
    ncommits = len({c for _, c in by_commit})
    return "\n".join(rows) + f"\n\n{ncommits} distinct fix commits ({len(by_commit)} rows: a commit that repairs a cause seen under two properties is listed under both), {sum(len(v) for v in by_commit.values())} committed regression replays."


def known_table():
    kf = load("known_findings.json")["findings"]
    rows = ["| id | signature (glob) + predicate | what fails | why recorded, not repaired |", "|---|---|---|---|"]
    for f in kf:
        if f["status"] != "known":
            continue
        sig = f"`{f['signature']}`" + (f" + `{f['predicate']}`" if f.get("predicate") else "")
        rows.append(f"| {f['id']} | {esc(sig)} | {esc(f['what'])} | {esc(f.get('why_not_fixed', ''))} |")
    return "\n".join(rows)


def seeds_table():
    res = load("seeded/RESULTS.json", {})
    rows = ["| seeded change | files | needs, to manifest | quick check result | first signatures |", "|---|---|---|---|---|"]
    caught = total = 0
    for name in sorted(d for d in os.listdir(os.path.join(ROOT, "seeded")) if re.match(r"C\d\d-[A-Z]$", d)):
        meta = load(f"seeded/{name}/meta.json", {})
        r = res.get(name, meta.get("check_result", {}))
        total += 1
        caught += r.get("result") == "CAUGHT"
        files = ", ".join(os.path.basename(f) for f in meta.get("files", []))
        rows.append(f"| {name} | {esc(files)} | {esc(meta.get('needs_to_manifest', ''))[:260]} | {r.get('result', 'not run')} | {esc(', '.join(r.get('violation_signatures', [])[:2]))[:200]} |")
    return "\n".join(rows) + f"\n\n{caught} of {total} seeded changes are caught by the quick tier of their property's check."


def mutants_table():
    res = load("selftest/RESULTS.json", {})
    per = {}
    for k, v in res.items():
        pid = k.split("/")[0]
        per.setdefault(pid, []).append((k.split("/", 1)[1], v))
    rows = ["| id | mutants | caught | not caught / stale |", "|---|---|---|---|"]
    for pid in sorted(per):
        ms = per[pid]
        bad = [f"{n} ({v['result']})" for n, v in ms if v["result"] != "CAUGHT"]
        rows.append(f"| {pid} | {len(ms)} | {sum(v['result'] == 'CAUGHT' for _, v in ms)} | {esc(', '.join(bad))} |")
    return "\n".join(rows)


def main():
    p = os.path.join(ROOT, "DESIGN.md")
    s = open(p).read()
    for name, fn in [("status", status_table), ("fixed", fixed_table), ("known", known_table), ("seeds", seeds_table), ("mutants", mutants_table)]:
        pat = re.compile(rf"(<!-- BEGIN:{name} -->\n).*?(<!-- END:{name} -->)", re.S)
        if not pat.search(s):
            print("marker missing:", name)
            continue
        s = pat.sub(lambda m: m.group(1) + fn() + "\n" + m.group(2), s)
    open(p, "w").write(s)
    print("DESIGN.md tables regenerated")


main()
