#!/bin/bash
# tools/verify_seed.sh <ID> <A|B> : confirm a seeded change from seeded/_incoming/<ID>/<X>:
#  patch applies to a scratch worktree of /repo HEAD; demo fails with it and passes without;
#  the pinned suite still passes with it. On success installs seeded/<ID>-<X>/ with meta.json.
ID=$1; X=$2
SRC=/verif/seeded/_incoming/$ID/$X
WT=/tmp/vs_${ID}_$X
LOG=/verif/.scratch/verify_${ID}_$X.log
mkdir -p /verif/.scratch
{
git -C /repo worktree add -q --detach $WT HEAD || exit 2
cd $WT
if ! git apply $SRC/patch.diff 2>/dev/null; then
  # context moved because of later fix: commits in /repo; rebase the patch with fuzz and re-save it
  if patch -p1 -F3 -s --no-backup-if-mismatch < $SRC/patch.diff; then
    find . -name "*.orig" -delete; git diff -- src > $SRC/patch.diff; echo "patch rebased onto current HEAD with patch -F3"
  else
    echo "RESULT $ID-$X patch-does-not-apply"; cd /; git -C /repo worktree remove --force $WT; exit 1
  fi
fi
PYTHONPATH=$WT/src NUMBA_CACHE_DIR=$WT/.numba timeout 900 /venv/bin/python $SRC/demo.py >/dev/null 2>&1; with=$?
sed -e "s|-n 14|-n ${VS_N:-8}|" /verif/tools/run_suite.sh > $WT/run_suite.sh; chmod +x $WT/run_suite.sh
NUMBA_CACHE_DIR=$WT/.numba $WT/run_suite.sh $WT /tmp/vs_suite_${ID}_$X | grep -v "^FAILED" ; suite=${PIPESTATUS[0]}
rm -f $WT/run_suite.sh
git apply -R $SRC/patch.diff
PYTHONPATH=$WT/src NUMBA_CACHE_DIR=$WT/.numba timeout 900 /venv/bin/python $SRC/demo.py >/dev/null 2>&1; without=$?
cd /; git -C /repo worktree remove --force $WT
echo "RESULT $ID-$X demo_with_change=$with demo_without=$without suite_rc=$suite"
if [ $with -ne 0 ] && [ $without -eq 0 ] && [ $suite -eq 0 ]; then
  D=/verif/seeded/$ID-$X; mkdir -p $D; cp $SRC/patch.diff $SRC/demo.py $D/; cp $SRC/notes.md $D/notes.md
  /venv/bin/python - "$ID" "$X" "$D" <<'PY'
import json,sys,subprocess
pid,x,d=sys.argv[1:]
head=subprocess.run(["git","-C","/repo","rev-parse","--short","HEAD"],capture_output=True,text=True).stdout.strip()
notes=open(d+"/notes.md").read()
json.dump({"property":pid[:3],"name":f"{pid}-{x}","source":"independent sub-agent given only the property text and a scratch worktree",
 "needs_to_manifest":"see notes.md","verified":{"repo_head":head,"patch_applies":True,"demo_exit_with_change":"non-zero","demo_exit_without_change":0,
 "pinned_suite_with_change":"all BASELINE stable_pass tests pass (tools/run_suite.sh)"},"ran":["git apply patch.diff in scratch worktree","python demo.py (with/without)","tools/run_suite.sh <worktree>"]},open(d+"/meta.json","w"),indent=1)
PY
  echo "INSTALLED $D"
fi
} > $LOG 2>&1
tail -3 $LOG
