#!/venv/bin/python
"""Sensitivity self-test: apply each hand-written mutant (selftest/mutants/<ID>.json)
or seeded patch (seeded/<name>/patch.diff) to a scratch copy of /repo/src, run the
quick check against the copy and report whether it raised a VIOLATION.

usage: tools/selftest.py C08 [mutant-name ...]      (hand-written mutants)
       tools/selftest.py --seeded <dir> [ID ...]    (a seeded change; IDs default to meta.json's property)
Development-time tool; never writes evidence, never touches /repo.
"""
import json, os, shutil, subprocess, sys, tempfile, time

ROOT = os.path.realpath(os.path.join(os.path.dirname(__file__), ".."))


def run_check(pid, src, extra=()):
    env = dict(os.environ, VERIF_REPO_SRC=src, NUMBA_CACHE_DIR=os.path.join(os.path.dirname(src), "numba"))
    t0 = time.time()
    p = subprocess.run([os.path.join(ROOT, "check"), pid, "--no-evidence", *extra], env=env, capture_output=True, text=True)
    lines = [l for l in p.stdout.splitlines() if l.startswith(("VIOLATION", "  failure", "HARNESS"))]
    return p.returncode, lines, time.time() - t0


def scratch():
    d = tempfile.mkdtemp(prefix="c3mut.", dir="/tmp")
    shutil.copytree("/repo/src", os.path.join(d, "src"), ignore=shutil.ignore_patterns("__pycache__", "*.egg-info"))
    return d


def record(pid, m, result, lines, wall):
    """selftest/RESULTS.json: last outcome per mutant (development record, quoted in DESIGN.md)"""
    import re

    rp = os.path.join(ROOT, "selftest", "RESULTS.json")
    res = json.load(open(rp)) if os.path.exists(rp) else {}
    sigs = sorted({mm.group(1) for l in lines for mm in [re.match(r"  failure \[\d+x\] (\S+?):", l)] if mm})
    res[f"{pid}/{m['name']}"] = {"file": m["file"], "result": result, "signatures": sigs[:6], "wall_s": round(wall)}
    json.dump(res, open(rp, "w"), indent=1, sort_keys=True)


def main():
    args = sys.argv[1:]
    if args and args[0] == "--seeded":
        sdir = os.path.realpath(args[1])
        meta = json.load(open(os.path.join(sdir, "meta.json")))
        pids = args[2:] or [meta["property"]]
        d = scratch()
        try:
            p = subprocess.run(["patch", "-p1", "-s", "-d", d, "-i", os.path.join(sdir, "patch.diff")], capture_output=True, text=True)
            if p.returncode:
                print("PATCH FAILED", p.stdout, p.stderr)
                return 2
            for pid in pids:
                rc, lines, wall = run_check(pid, os.path.join(d, "src"))
                print(f"{os.path.basename(sdir)} vs {pid}: {'CAUGHT' if rc == 1 else 'MISSED rc=%d' % rc} ({wall:.0f}s)")
                for l in lines[:6]:
                    print("    " + l[:300])
        finally:
            shutil.rmtree(d, ignore_errors=True)
        return 0
    pid = args[0].upper()
    muts = json.load(open(os.path.join(ROOT, "selftest", "mutants", f"{pid}.json")))
    names = args[1:]
    missed = 0
    for m in muts:
        if names and m["name"] not in names:
            continue
        d = scratch()
        try:
            path = os.path.join(d, "src", m["file"])
            s = open(path).read()
            if s.count(m["old"]) != 1:
                print(f"{pid} {m['name']}: pattern matches {s.count(m['old'])} times — mutant stale")
                missed += 1
                record(pid, m, "STALE", [], 0)
                continue
            open(path, "w").write(s.replace(m["old"], m["new"]))
            rc, lines, wall = run_check(pid, os.path.join(d, "src"), m.get("extra", []))
            ok = rc == 1
            missed += not ok
            print(f"{pid} {m['name']}: {'CAUGHT' if ok else 'MISSED rc=%d' % rc} ({wall:.0f}s)")
            record(pid, m, "CAUGHT" if ok else f"MISSED(rc={rc})", lines, wall)
            for l in lines[:4]:
                print("    " + l[:260])
        finally:
            shutil.rmtree(d, ignore_errors=True)
    return 1 if missed else 0


sys.exit(main())
