#!/bin/bash
# Offline, idempotent: make sure hypothesis is importable in /venv; prepare scratch dirs.
cd "$(dirname "$0")/.." || exit 2
if ! /venv/bin/python -c "import hypothesis" 2>/dev/null; then
  PIP_NO_INDEX=1 /venv/bin/pip install --no-index --find-links /opt/veriftools/wheels hypothesis || exit 2
fi
mkdir -p .cache/numba .scratch evidence
/venv/bin/python -c "import hypothesis, cogent3; print('setup ok: hypothesis', hypothesis.__version__, 'cogent3', cogent3.__version__)"
# atheris (coverage-guided campaigns of the thorough tier) goes beside the checks, not into /venv
if ! PYTHONPATH=.deps /venv/bin/python -c "import atheris" 2>/dev/null; then
  PIP_NO_INDEX=1 /venv/bin/pip install -q --no-index --find-links /opt/veriftools/wheels atheris --target .deps || echo "setup: atheris not installed (thorough tier runs without coverage-guided campaigns)"
fi
