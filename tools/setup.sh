#!/bin/bash
# Offline, idempotent: make sure hypothesis is importable in /venv; prepare scratch dirs.
cd "$(dirname "$0")/.." || exit 2
if ! /venv/bin/python -c "import hypothesis" 2>/dev/null; then
  PIP_NO_INDEX=1 /venv/bin/pip install --no-index --find-links /opt/veriftools/wheels hypothesis || exit 2
fi
mkdir -p .cache/numba .scratch evidence
/venv/bin/python -c "import hypothesis, cogent3; print('setup ok: hypothesis', hypothesis.__version__, 'cogent3', cogent3.__version__)"
