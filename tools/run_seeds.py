#!/venv/bin/python
"""Runs every installed seeded change (seeded/<ID>-<X>/patch.diff) against the quick check of its
property (scratch copy of /repo/src, never /repo itself) and records the outcome in the seed's
meta.json (key "check_result") and in seeded/RESULTS.json.  usage: tools/run_seeds.py [name ...]"""
import json, os, re, shutil, subprocess, sys, tempfile, time

ROOT = os.path.realpath(os.path.join(os.path.dirname(__file__), ".."))


def main():
    names = sys.argv[1:] or sorted(d for d in os.listdir(os.path.join(ROOT, "seeded")) if re.match(r"C\d\d-[A-Z]$", d))
    results = {}
    rp = os.path.join(ROOT, "seeded", "RESULTS.json")
    if os.path.exists(rp):
        results = json.load(open(rp))
    for name in names:
        sdir = os.path.join(ROOT, "seeded", name)
        meta = json.load(open(os.path.join(sdir, "meta.json")))
        pid = name[:3]
        if meta.get("check_result", {}).get("pinned"):
            # result recorded by hand against the tree the change was verified on (see its note)
            results[name] = meta["check_result"]
            json.dump(results, open(rp, "w"), indent=1, sort_keys=True)
            print(name, "PINNED", meta["check_result"]["result"], flush=True)
            continue
        d = tempfile.mkdtemp(prefix="c3seed.", dir="/tmp")
        try:
            shutil.copytree("/repo/src", os.path.join(d, "src"), ignore=shutil.ignore_patterns("__pycache__", "*.egg-info"))
            p = subprocess.run(["patch", "-p1", "-s", "-d", d, "-i", os.path.join(sdir, "patch.diff")], capture_output=True, text=True)
            if p.returncode:
                res = {"result": "PATCH-FAILED", "detail": (p.stdout + p.stderr)[-300:]}
            else:
                env = dict(os.environ, VERIF_REPO_SRC=os.path.join(d, "src"), NUMBA_CACHE_DIR=os.path.join(d, "numba"))
                t0 = time.time()
                q = subprocess.run([os.path.join(ROOT, "check"), pid, "--no-evidence"], env=env, capture_output=True, text=True)
                sigs = sorted({m.group(1) for m in re.finditer(r"^  failure \[\d+x\] (\S+?):", q.stdout, re.M)})
                res = {"check": pid, "result": "CAUGHT" if q.returncode == 1 else f"MISSED(rc={q.returncode})", "violation_signatures": sigs[:12], "wall_s": round(time.time() - t0)}
        finally:
            shutil.rmtree(d, ignore_errors=True)
        for f in os.listdir(os.path.join(ROOT, "replays", pid)) if os.path.isdir(os.path.join(ROOT, "replays", pid)) else []:
            if f.startswith("new-"):
                os.remove(os.path.join(ROOT, "replays", pid, f))
        meta["check_result"] = res
        json.dump(meta, open(os.path.join(sdir, "meta.json"), "w"), indent=1)
        results[name] = res
        json.dump(results, open(rp, "w"), indent=1, sort_keys=True)
        print(name, res["result"], res.get("violation_signatures", [])[:3], flush=True)


main()
