"""Core data types shared by all checks.

A *case* is a JSON-serialisable value produced by a generator (Hypothesis
strategy or finite enumeration).  ``execute(case)`` is a pure function of the
case and of the code under test; it returns an :class:`Outcome` holding the
soft-assertion failures, coverage classes and non-triviality of that case.
Because execution never depends on the generator, a replay file is simply the
case written out as JSON.
"""

from __future__ import annotations

import dataclasses
import hashlib
import json
import os
import sys
import traceback
from typing import Any, Callable, Iterable

REPO_SRC = os.environ.get("VERIF_REPO_SRC", "/repo/src")


def canon(case: Any) -> str:
    return json.dumps(case, sort_keys=True, default=repr, separators=(",", ":"))


def case_hash(case: Any) -> str:
    return hashlib.blake2b(canon(case).encode(), digest_size=8).hexdigest()


@dataclasses.dataclass
class Failure:
    signature: str
    message: str


class HarnessError(Exception):
    """raised for defects of the checking machinery itself (exit status 2)"""


def innermost_frame_info(exc: BaseException):
    tb = traceback.extract_tb(exc.__traceback__)
    if not tb:
        return None
    return tb[-1]


def _is_repo_file(filename: str) -> bool:
    fn = os.path.realpath(filename)
    return fn.startswith(os.path.realpath(REPO_SRC))


def exception_site(exc: BaseException) -> str:
    """<module>:<func> of the innermost frame that lies inside the code under
    test, or '' if no frame of the traceback lies there."""
    tb = traceback.extract_tb(exc.__traceback__)
    for fr in reversed(tb):
        if _is_repo_file(fr.filename):
            rel = os.path.relpath(os.path.realpath(fr.filename), os.path.realpath(REPO_SRC))
            return f"{rel}:{fr.name}"
    return ""


def raised_in_repo(exc: BaseException) -> bool:
    """True when the innermost frame is inside the code under test or inside a
    third party library called from it (numpy etc.), i.e. not in harness code."""
    tb = traceback.extract_tb(exc.__traceback__)
    if not tb:
        return False
    verif_root = os.path.realpath(os.path.join(os.path.dirname(__file__), ".."))
    # walk from the innermost frame outwards; the first frame that belongs
    # either to the harness or to the repo decides
    for fr in reversed(tb):
        if fr.filename.startswith("<"):
            continue  # code run by eval/exec (e.g. "<string>") belongs to whoever called it
        fn = os.path.realpath(fr.filename)
        if fn.startswith(os.path.realpath(REPO_SRC)):
            return True
        if fn.startswith(verif_root):
            return False
    return False


class Soft:
    """Soft assertions for one case: every clause is evaluated, failures are
    recorded with a root-cause signature instead of raising."""

    def __init__(self, prefix: str = ""):
        self.prefix = prefix
        self.failures: list[Failure] = []
        self.classes: list[str] = []
        self.nontrivial: bool = False
        self.evals: int = 1
        self.extra_nontrivial: list[str] = []  # keys of additional distinct non-trivial sub-cases
        self.notes: dict[str, Any] = {}

    # -- recording -------------------------------------------------------
    def fail(self, sig: str, msg: str = ""):
        sig = f"{self.prefix}{sig}"
        if len(msg) > 600:
            msg = msg[:600] + "…"
        # keep the first failure per signature for a case
        for f in self.failures:
            if f.signature == sig:
                return
        self.failures.append(Failure(sig, msg))

    def check(self, cond: bool, sig: str, msg: str = "") -> bool:
        if not cond:
            self.fail(sig, msg)
        return bool(cond)

    def eq(self, got, want, sig: str, what: str = "") -> bool:
        try:
            ok = got == want
            ok = bool(ok)
        except Exception:  # numpy arrays etc.
            ok = False
        if not ok:
            self.fail(sig, f"{what}: got {got!r} want {want!r}")
        return ok

    def close(self, got: float, want: float, sig: str, what: str = "", rtol=1e-9, atol=0.0) -> bool:
        import math

        try:
            g, w = float(got), float(want)
        except Exception:
            self.fail(sig, f"{what}: non-numeric got {got!r} want {want!r}")
            return False
        if math.isnan(g) or math.isnan(w):
            ok = math.isnan(g) and math.isnan(w)
        elif math.isinf(g) or math.isinf(w):
            ok = g == w
        else:
            ok = abs(g - w) <= atol + rtol * max(1.0, abs(w))
        if not ok:
            self.fail(sig, f"{what}: got {g!r} want {w!r} (diff {g - w:.3e}, rtol {rtol}, atol {atol})")
        return ok

    def call(self, sig: str, fn: Callable, *args, allowed: tuple = (), **kw):
        """Call code under test.  Returns (ok, value).  An exception of a type
        in ``allowed`` gives (False, exc) without a failure; any other
        exception is a failure of clause ``sig`` (the property says the call
        must succeed on this input)."""
        try:
            return True, fn(*args, **kw)
        except allowed as e:  # documented outcome
            return False, e
        except HarnessError:
            raise
        except Exception as e:  # noqa: BLE001
            if not raised_in_repo(e):
                raise
            site = exception_site(e)
            self.fail(f"{sig}/raises:{type(e).__name__}@{site}", f"{type(e).__name__}: {e}")
            return False, e

    def cls(self, *names: str):
        for n in names:
            if n not in self.classes:
                self.classes.append(n)


@dataclasses.dataclass
class Sub:
    """One sub-check of a property."""

    name: str
    execute: Callable[[Any], Soft]
    strategy: Any = None  # a Hypothesis strategy producing cases (callable tier -> strategy allowed)
    enumerate: Callable[[str], Iterable[Any]] | None = None  # tier -> finite list of cases
    quick: int = 1000  # examples in quick tier (generated subs)
    thorough: int = 20000  # examples in thorough tier (total over all shards)
    shards_quick: int = 8
    exhaustive: bool = False
    budget_quick_s: float = 240.0
    budget_thorough_s: float = 3600.0
    weight: float = 1.0  # relative cost hint, used to order jobs

    def get_strategy(self, tier: str):
        s = self.strategy
        if callable(s) and not hasattr(s, "example"):
            return s(tier)
        return s
