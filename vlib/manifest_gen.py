"""Regenerates MANIFEST.json from the META blocks of the check modules."""
import glob, importlib, json, os, sys

ROOT = os.path.realpath(os.path.join(os.path.dirname(__file__), ".."))
sys.path.insert(0, ROOT)
PENDING_REASON = "no check registered yet in this round (planned: see DESIGN.md section 1); not claimed until its check exists and is quiet on the unchanged tree"


def main():
    props = [json.loads(l) for l in open(os.path.join(ROOT, "properties.jsonl"))]
    checks, claimed = [], set()
    registered = {l.strip() for l in open(os.path.join(ROOT, "checks", "REGISTERED")) if l.strip()}
    for path in sorted(glob.glob(os.path.join(ROOT, "checks", "c[0-9][0-9]_*.py"))):
        name = os.path.splitext(os.path.basename(path))[0]
        if name[:3].upper() not in registered:
            continue  # work in progress: not claimed until quiet on the unchanged tree
        mod = importlib.import_module(f"checks.{name}")
        meta = getattr(mod, "META", None)
        if not meta or meta.get("disabled"):
            continue
        pid = mod.PROPERTY_ID
        claimed.add(pid)
        checks.append(
            {
                "property_id": pid,
                "quick_cmd": f"./check {pid} --tier quick",
                "thorough_cmd": f"./check {pid} --tier thorough",
                "evidence_file": f"evidence/{pid}.json",
                "replay_cmd_template": f"./check {pid} --replay {{path}}",
                "engine": "hypothesis-runner",
                "level_claimed": {"category": getattr(mod, "LEVEL", "exploration"), "text": meta["level_text"], "design_ref": meta.get("design_ref", "")},
                "level_note": meta["level_note"],
                "technique": meta["technique"],
            }
        )
    overrides = {}
    op = os.path.join(ROOT, "not_applicable.json")
    if os.path.exists(op):
        overrides = json.load(open(op))
    na = [{"property_id": p["id"], "reason": overrides.get(p["id"], PENDING_REASON)} for p in props if p["id"] not in claimed]
    man = {
        "version": 1,
        "setup_cmd": "bash tools/setup.sh",
        "hooks": {
            "guard": "COGENT3_VERIF",
            "enable": "no source hooks: all instrumentation is applied from the harness (monkey-patching, sys.setprofile); ./check exports COGENT3_VERIF=1 for completeness",
            "baseline_off_cmd": "cd /repo && env -u COGENT3_VERIF /venv/bin/python -m pytest -ra -q -p no:cacheprovider --timeout=900 --continue-on-collection-errors",
            "source_commits": [],
            "add_only": True,
        },
        "engines": [
            {"name": "hypothesis-runner", "path": "vlib/runner.py", "serves_properties": sorted(claimed), "kind_free_text": "Hypothesis strategies (seeded from VERIF_SEED, sharded over 16 processes) and finite enumeration feeding pure execute(case) oracles; soft assertions bucketed by root-cause signature; JSON replay files"}
        ],
        "checks": checks,
        "notes": "quick: ./check <ID> --tier quick; thorough: --tier thorough; replay: --replay <file>. Exit 0 held / 1 VIOLATION / 2 harness error. known_findings.json lists known (excluded, reported as KNOWN-FINDING) and fixed (regression replays) defects.",
        "not_applicable": na,
    }
    with open(os.path.join(ROOT, "MANIFEST.json"), "w") as f:
        json.dump(man, f, indent=1)
        f.write("\n")
    print(f"MANIFEST.json: {len(checks)} checks, {len(na)} not claimed")


main()
