"""NCBI genetic code tables (ncbieaa strings, TCAG order) pinned in the harness.

Snapshot taken at development time; it was identical in cogent3.core.genetic_code and
cogent3.core.new_genetic_code (two independently maintained copies), and tables 1 and 2 were
compared with the published NCBI strings written out by hand.
"""

CODES = {
    1: (
        'Standard',
        'FFLLSSSSYY**CC*WLLLLPPPPHHQQRRRRIIIMTTTTNNKKSSRRVVVVAAAADDEEGGGG',
        '---M---------------M---------------M----------------------------',
    ),
    2: (
        'Vertebrate Mitochondrial',
        'FFLLSSSSYY**CCWWLLLLPPPPHHQQRRRRIIMMTTTTNNKKSS**VVVVAAAADDEEGGGG',
        '--------------------------------MMMM---------------M------------',
    ),
    3: (
        'Yeast Mitochondrial',
        'FFLLSSSSYY**CCWWTTTTPPPPHHQQRRRRIIMMTTTTNNKKSSRRVVVVAAAADDEEGGGG',
        '----------------------------------MM---------------M------------',
    ),
    4: (
        'Mold Mitochondrial; Protozoan Mitochondrial; Coelenterate Mitochondrial; Mycoplasma; Spiroplasma',
        'FFLLSSSSYY**CCWWLLLLPPPPHHQQRRRRIIIMTTTTNNKKSSRRVVVVAAAADDEEGGGG',
        '--MM---------------M------------MMMM---------------M------------',
    ),
    5: (
        'Invertebrate Mitochondrial',
        'FFLLSSSSYY**CCWWLLLLPPPPHHQQRRRRIIMMTTTTNNKKSSSSVVVVAAAADDEEGGGG',
        '---M----------------------------MMMM---------------M------------',
    ),
    6: (
        'Ciliate Nuclear; Dasycladacean Nuclear; Hexamita Nuclear',
        'FFLLSSSSYYQQCC*WLLLLPPPPHHQQRRRRIIIMTTTTNNKKSSRRVVVVAAAADDEEGGGG',
        '-----------------------------------M----------------------------',
    ),
    9: (
        'Echinoderm Mitochondrial; Flatworm Mitochondrial',
        'FFLLSSSSYY**CCWWLLLLPPPPHHQQRRRRIIIMTTTTNNNKSSSSVVVVAAAADDEEGGGG',
        '-----------------------------------M---------------M------------',
    ),
    10: (
        'Euplotid Nuclear',
        'FFLLSSSSYY**CCCWLLLLPPPPHHQQRRRRIIIMTTTTNNKKSSRRVVVVAAAADDEEGGGG',
        '-----------------------------------M----------------------------',
    ),
    11: (
        'Bacterial, Archaeal and Plant Plastid',
        'FFLLSSSSYY**CC*WLLLLPPPPHHQQRRRRIIIMTTTTNNKKSSRRVVVVAAAADDEEGGGG',
        '---M---------------M------------MMMM---------------M------------',
    ),
    12: (
        'Alternative Yeast Nuclear',
        'FFLLSSSSYY**CC*WLLLSPPPPHHQQRRRRIIIMTTTTNNKKSSRRVVVVAAAADDEEGGGG',
        '-------------------M---------------M----------------------------',
    ),
    13: (
        'Ascidian Mitochondrial',
        'FFLLSSSSYY**CCWWLLLLPPPPHHQQRRRRIIMMTTTTNNKKSSGGVVVVAAAADDEEGGGG',
        '---M------------------------------MM---------------M------------',
    ),
    14: (
        'Alternative Flatworm Mitochondrial',
        'FFLLSSSSYYY*CCWWLLLLPPPPHHQQRRRRIIIMTTTTNNNKSSSSVVVVAAAADDEEGGGG',
        '-----------------------------------M----------------------------',
    ),
    15: (
        'Blepharisma Macronuclear',
        'FFLLSSSSYY*QCC*WLLLLPPPPHHQQRRRRIIIMTTTTNNKKSSRRVVVVAAAADDEEGGGG',
        '-----------------------------------M----------------------------',
    ),
    16: (
        'Chlorophycean Mitochondrial',
        'FFLLSSSSYY*LCC*WLLLLPPPPHHQQRRRRIIIMTTTTNNKKSSRRVVVVAAAADDEEGGGG',
        '-----------------------------------M----------------------------',
    ),
    21: (
        'Trematode Mitochondrial',
        'FFLLSSSSYY**CCWWLLLLPPPPHHQQRRRRIIMMTTTTNNNKSSSSVVVVAAAADDEEGGGG',
        '-----------------------------------M---------------M------------',
    ),
    22: (
        'Scenedesmus obliquus Mitochondrial',
        'FFLLSS*SYY*LCC*WLLLLPPPPHHQQRRRRIIIMTTTTNNKKSSRRVVVVAAAADDEEGGGG',
        '-----------------------------------M----------------------------',
    ),
    23: (
        'Thraustochytrium Mitochondrial',
        'FF*LSSSSYY**CC*WLLLLPPPPHHQQRRRRIIIMTTTTNNKKSSRRVVVVAAAADDEEGGGG',
        '--------------------------------M--M---------------M------------',
    ),
    24: (
        'Rhabdopleuridae Mitochondrial',
        'FFLLSSSSYY**CCWWLLLLPPPPHHQQRRRRIIIMTTTTNNKKSSSKVVVVAAAADDEEGGGG',
        '---M---------------M---------------M---------------M------------',
    ),
    25: (
        'Candidate Division SR1 and Gracilibacteria',
        'FFLLSSSSYY**CCGWLLLLPPPPHHQQRRRRIIIMTTTTNNKKSSRRVVVVAAAADDEEGGGG',
        '---M-------------------------------M---------------M------------',
    ),
    26: (
        'Pachysolen tannophilus Nuclear',
        'FFLLSSSSYY**CC*WLLLAPPPPHHQQRRRRIIIMTTTTNNKKSSRRVVVVAAAADDEEGGGG',
        '-------------------M---------------M----------------------------',
    ),
    27: (
        'Karyorelict Nuclear',
        'FFLLSSSSYYQQCCWWLLLLPPPPHHQQRRRRIIIMTTTTNNKKSSRRVVVVAAAADDEEGGGG',
        '-----------------------------------M----------------------------',
    ),
    28: (
        'Condylostoma Nuclear',
        'FFLLSSSSYYQQCCWWLLLLPPPPHHQQRRRRIIIMTTTTNNKKSSRRVVVVAAAADDEEGGGG',
        '-----------------------------------M----------------------------',
    ),
    29: (
        'Mesodinium Nuclear',
        'FFLLSSSSYYYYCC*WLLLLPPPPHHQQRRRRIIIMTTTTNNKKSSRRVVVVAAAADDEEGGGG',
        '-----------------------------------M----------------------------',
    ),
    30: (
        'Peritrich Nuclear',
        'FFLLSSSSYYEECC*WLLLLPPPPHHQQRRRRIIIMTTTTNNKKSSRRVVVVAAAADDEEGGGG',
        '-----------------------------------M----------------------------',
    ),
    31: (
        'Blastocrithidia Nuclear',
        'FFLLSSSSYYEECCWWLLLLPPPPHHQQRRRRIIIMTTTTNNKKSSRRVVVVAAAADDEEGGGG',
        '-----------------------------------M----------------------------',
    ),
    32: (
        'Balanophoraceae Plastid',
        'FFLLSSSSYY*WCC*WLLLLPPPPHHQQRRRRIIIMTTTTNNKKSSRRVVVVAAAADDEEGGGG',
        '---M---------------M------------MMMM---------------M------------',
    ),
    33: (
        'Cephalodiscidae Mitochondrial',
        'FFLLSSSSYYY*CCWWLLLLPPPPHHQQRRRRIIIMTTTTNNKKSSSKVVVVAAAADDEEGGGG',
        '---M---------------M---------------M---------------M------------',
    ),
}
