"""Tiered runner: regression replays, sharded generated exploration, finite
enumeration, root-cause bucketing, known-finding matching, evidence files.

usage: python -m vlib.runner <ID> [--tier quick|thorough] [--replay FILE]
                                [--sub NAME] [--jobs N] [--scale X] [--no-shrink]

Exit status: 0 property held on everything explored (known findings are
reported as KNOWN-FINDING lines); 1 a violation not listed in
known_findings.json was found (``VIOLATION property=<id> replay=<path>``);
2 harness error (never reported as a violation).
"""

from __future__ import annotations

import argparse
import collections
import concurrent.futures as cf
import fnmatch
import glob
import hashlib
import importlib
import json
import math
import multiprocessing
import os
import sys
import time
import traceback

ROOT = os.path.realpath(os.path.join(os.path.dirname(__file__), ".."))
sys.path.insert(0, ROOT)

from vlib.core import HarnessError, Soft, Sub, canon, case_hash, exception_site, raised_in_repo  # noqa: E402


class _Stop(BaseException):
    pass


def find_module(pid: str):
    pid = pid.upper()
    hits = glob.glob(os.path.join(ROOT, "checks", f"{pid.lower()}_*.py"))
    if len(hits) != 1:
        raise HarnessError(f"no unique check module for {pid}: {hits}")
    name = os.path.splitext(os.path.basename(hits[0]))[0]
    return importlib.import_module(f"checks.{name}")


def load_known(pid: str):
    path = os.path.join(ROOT, "known_findings.json")
    if not os.path.exists(path):
        return []
    with open(path) as f:
        data = json.load(f)
    return [e for e in data.get("findings", []) if e.get("property") == pid and e.get("status") == "known"]


def match_known(mod, known, sig, msg, case):
    for e in known:
        if not fnmatch.fnmatchcase(sig, e["signature"]):
            continue
        pred = e.get("predicate")
        if pred:
            fn = getattr(mod, "KNOWN_PREDICATES", {}).get(pred)
            if fn is None:
                raise HarnessError(f"known finding refers to unknown predicate {pred}")
            try:
                if not fn(case, sig, msg):
                    continue
            except Exception as ex:  # predicate failure must not hide a violation
                raise HarnessError(f"predicate {pred} raised {ex!r}")
        return e
    return None


class Recorder:
    def __init__(self, mod, pid):
        self.mod = mod
        self.pid = pid
        self.known = load_known(pid)
        self.evals = 0
        self.cases = 0
        self.nontrivial: set[str] = set()
        self.classes = collections.Counter()
        self.samples: dict[str, list] = collections.defaultdict(list)
        self.failures: dict[str, dict] = {}  # sig -> {msg, case, size, count, sub}
        self.known_hits = collections.Counter()  # finding id -> count
        self.known_example: dict[str, dict] = {}
        self.harness_errors: list[str] = []
        self.budget_hit = False
        self.stop = False

    def run_case(self, sub: Sub, case):
        case = json.loads(canon(case))  # JSON-normalised: replay sees the same value
        try:
            out = sub.execute(case)
        except HarnessError:
            raise
        except Exception as e:  # noqa: BLE001
            if raised_in_repo(e):
                out = Soft()
                out.fail(
                    f"{self.pid}/{sub.name}/unhandled:{type(e).__name__}@{exception_site(e)}",
                    f"{type(e).__name__}: {e}",
                )
            else:
                raise HarnessError(
                    f"sub {sub.name}: harness exception on case {canon(case)[:800]}\n" + traceback.format_exc()
                )
        self.cases += 1
        self.evals += max(1, int(out.evals))
        for c in out.classes:
            self.classes[f"{sub.name}:{c}"] += 1
        if out.nontrivial:
            h = case_hash([sub.name, case])
            if h not in self.nontrivial and len(self.samples[sub.name]) < 3:
                self.samples[sub.name].append(_clip(case))
            self.nontrivial.add(h)
        for k in out.extra_nontrivial:
            self.nontrivial.add(case_hash([sub.name, "x", k]))
        for f in out.failures:
            self.add_failure(sub.name, f.signature, f.message, case)
        return out

    def add_failure(self, subname, sig, msg, case):
        e = match_known(self.mod, self.known, sig, msg, case)
        if e is not None:
            self.known_hits[e["id"]] += 1
            if e["id"] not in self.known_example:
                self.known_example[e["id"]] = {"signature": sig, "message": msg, "case": _clip(case)}
            return
        size = len(canon(case))
        b = self.failures.get(sig)
        if b is None:
            self.failures[sig] = {"msg": msg, "case": case, "size": size, "count": 1, "sub": subname}
        else:
            b["count"] += 1
            if size < b["size"]:
                b.update(msg=msg, case=case, size=size, sub=subname)

    def export(self):
        return {
            "evals": self.evals,
            "cases": self.cases,
            "nontrivial": self.nontrivial,
            "classes": self.classes,
            "samples": dict(self.samples),
            "failures": self.failures,
            "known_hits": self.known_hits,
            "known_example": self.known_example,
            "harness_errors": self.harness_errors,
            "budget_hit": self.budget_hit,
        }


def _clip(case, limit=3000):
    s = canon(case)
    if len(s) <= limit:
        return case
    return {"truncated_case_json": s[:limit] + "…"}


def _seed_for(base: int, sub: str, shard: int) -> int:
    h = hashlib.blake2b(f"{base}/{sub}/{shard}".encode(), digest_size=4).digest()
    return int.from_bytes(h, "big")


def _settings(n, shrink=False):
    from hypothesis import HealthCheck, Phase, settings

    phases = [Phase.generate, Phase.shrink] if shrink else [Phase.generate]
    return settings(
        max_examples=max(1, n),
        database=None,
        deadline=None,
        derandomize=False,
        report_multiple_bugs=False,
        phases=phases,
        suppress_health_check=[
            HealthCheck.too_slow,
            HealthCheck.data_too_large,
            HealthCheck.large_base_example,
        ],
    )


def _job(args):
    """Runs in a worker process: one shard of one sub-check."""
    pid, subname, tier, seed, n, budget_s, chunk = args
    os.environ["VERIF_IN_WORKER"] = "1"
    mod = find_module(pid)
    rec = Recorder(mod, pid)
    sub = next(s for s in mod.SUBS if s.name == subname)
    deadline = time.monotonic() + budget_s
    t0 = time.monotonic()
    try:
        if hasattr(mod, "worker_setup"):
            mod.worker_setup()
        if chunk is not None:
            for case in chunk:
                if time.monotonic() > deadline:
                    rec.budget_hit = True
                    break
                rec.run_case(sub, case)
        else:
            import hypothesis
            from hypothesis import given

            strat = sub.get_strategy(tier)

            @hypothesis.seed(seed)
            @_settings(n)
            @given(strat)
            def t(case):
                if rec.stop:
                    raise _Stop()
                if time.monotonic() > deadline:
                    rec.budget_hit = True
                    rec.stop = True
                    raise _Stop()
                rec.run_case(sub, case)

            try:
                t()
            except _Stop:
                pass
    except HarnessError as e:
        rec.harness_errors.append(f"{subname}: {e}")
    except Exception:  # hypothesis health checks, generator bugs
        rec.harness_errors.append(f"{subname}: " + traceback.format_exc())
    out = rec.export()
    out["sub"] = subname
    out["seed"] = seed
    out["n"] = n
    out["wall"] = time.monotonic() - t0
    return out


def _run_job_subprocess(job_args):
    """Runs one job in a fresh interpreter (not a multiprocessing child), for checks whose code under
    test behaves differently in worker processes (cogent3.util.parallel.is_master_process)."""
    import pickle
    import subprocess
    import tempfile

    d = tempfile.mkdtemp(prefix="job.", dir=os.path.join(ROOT, ".scratch"))
    try:
        fin, fout = os.path.join(d, "in.pkl"), os.path.join(d, "out.pkl")
        with open(fin, "wb") as f:
            pickle.dump(job_args, f)
        p = subprocess.run([sys.executable, "-W", "ignore", "-m", "vlib.runner", "--job", fin, fout], cwd=ROOT, capture_output=True, text=True)
        if p.returncode != 0 or not os.path.exists(fout):
            raise HarnessError(f"job subprocess failed rc={p.returncode}: {p.stderr[-1500:]}")
        with open(fout, "rb") as f:
            return pickle.load(f)
    finally:
        import shutil

        shutil.rmtree(d, ignore_errors=True)


def shrink_signature(mod, pid, sub: Sub, tier, seed, n, sig, budget_s=240):
    """Re-run the shard that found ``sig`` with shrinking on; returns the
    minimal case seen, or None."""
    import hypothesis
    from hypothesis import given

    best = {"case": None, "size": None, "msg": ""}
    deadline = time.monotonic() + budget_s
    strat = sub.get_strategy(tier)

    class _Found(Exception):
        pass

    @hypothesis.seed(seed)
    @_settings(n, shrink=True)
    @given(strat)
    def t(case):
        if time.monotonic() > deadline:
            raise _Stop()
        case = json.loads(canon(case))
        try:
            out = sub.execute(case)
        except Exception as e:  # noqa: BLE001
            out = Soft()
            if raised_in_repo(e):
                out.fail(f"{pid}/{sub.name}/unhandled:{type(e).__name__}@{exception_site(e)}", str(e))
        for f in out.failures:
            if f.signature == sig:
                size = len(canon(case))
                if best["size"] is None or size < best["size"]:
                    best.update(case=case, size=size, msg=f.message)
                raise _Found(sig)

    try:
        t()
    except (_Found, _Stop):
        pass
    except Exception:
        pass
    return best if best["case"] is not None else None


def run_replay_file(mod, pid, path, rec: Recorder):
    with open(path) as f:
        data = json.load(f)
    subname = data.get("sub")
    sub = next((s for s in mod.SUBS if s.name == subname), None)
    if sub is None:
        raise HarnessError(f"replay {path}: unknown sub {subname}")
    before = set(rec.failures)
    out = rec.run_case(sub, data["case"])
    return out, [s for s in rec.failures if s not in before]


def write_replay(pid, sub, sig, msg, case, committed=False):
    d = os.path.join(ROOT, "replays", pid)
    os.makedirs(d, exist_ok=True)
    h = hashlib.blake2b(sig.encode(), digest_size=6).hexdigest()
    path = os.path.join(d, f"new-{h}.json")
    with open(path, "w") as f:
        json.dump({"property": pid, "sub": sub, "signature": sig, "message": msg, "case": case}, f, indent=1, sort_keys=True)
        f.write("\n")
    return path


def _repo_modules(src):
    out = []
    root = os.path.join(src, "cogent3")
    for dp, _dn, fn in os.walk(root):
        for f in fn:
            if f.endswith(".py"):
                rel = os.path.relpath(os.path.join(dp, f), src)[:-3].replace(os.sep, ".")
                out.append(rel[:-9] if rel.endswith(".__init__") else rel)
    return sorted(out)


def _fuzz_job(args, fout):
    """Coverage-guided campaign (atheris/libFuzzer) over one sub-check: libFuzzer mutates the byte
    buffer from which Hypothesis draws the case (`fuzz_one_input`), so generator, oracle, bucketing
    and known-finding exclusion are exactly those of the plain run; only the search is guided by
    branch coverage of the instrumented cogent3 modules. Runs in its own interpreter and ends with
    os._exit after writing the pickled result (libFuzzer never returns)."""
    import pickle
    import random
    import shutil
    import tempfile

    _tag, pid, subname, tier, seed, execs, budget_s, targets = args
    os.environ["VERIF_IN_WORKER"] = "1"
    t0 = time.monotonic()
    deadline = t0 + budget_s
    state = {"n": 0, "done": False}
    rec = None
    corpus = tempfile.mkdtemp(prefix="corpus.", dir=os.path.join(ROOT, ".scratch"))

    def finish(note=None):
        if state["done"]:
            return
        state["done"] = True
        out = rec.export() if rec is not None else Recorder(None, pid).export()
        if note:
            out["harness_errors"] = list(out["harness_errors"]) + [note]
        try:
            ncorp = len(os.listdir(corpus))
        except OSError:
            ncorp = 0
        out.update(sub=subname, seed=0, n=0, wall=time.monotonic() - t0)
        out["fuzz"] = {"sub": subname, "executions": state["n"], "valid_cases": int(out.get("cases", 0)), "corpus": ncorp, "libfuzzer_seed": seed, "instrumented": list(targets)}
        with open(fout, "wb") as f:
            pickle.dump(out, f)
        shutil.rmtree(corpus, ignore_errors=True)
        sys.stdout.flush()
        os._exit(0)

    try:
        sys.path.insert(0, os.path.join(ROOT, ".deps"))
        import atheris
    except Exception as e:  # noqa: BLE001
        rec = Recorder(find_module(pid), pid)
        state["skipped"] = True
        out = rec.export()
        out.update(sub=subname, seed=0, n=0, wall=0.0)
        out["fuzz"] = {"sub": subname, "executions": 0, "skipped": f"atheris not importable: {e!r}"}
        with open(fout, "wb") as f:
            pickle.dump(out, f)
        shutil.rmtree(corpus, ignore_errors=True)
        os._exit(0)
    try:
        src = os.environ.get("VERIF_REPO_SRC", "/repo/src")
        mods = _repo_modules(src)
        want = [m for m in mods if any(m == t or m.startswith(t + ".") for t in targets)]
        excl = [m for m in mods if m not in want]
        with atheris.instrument_imports(include=["cogent3"], exclude=excl):
            import cogent3  # noqa: F401

            for m in want:
                importlib.import_module(m)
        mod = find_module(pid)
        rec = Recorder(mod, pid)
        sub = next(s_ for s_ in mod.SUBS if s_.name == subname)
        if hasattr(mod, "worker_setup"):
            mod.worker_setup()
        from hypothesis import given

        @_settings(10**9)
        @given(sub.get_strategy(tier))
        def t(case):
            rec.run_case(sub, case)

        rng = random.Random(seed)
        for i in range(8):
            with open(os.path.join(corpus, f"seed{i}"), "wb") as f:
                f.write(bytes(rng.getrandbits(8) for _ in range(2048)))

        def one(buf):
            state["n"] += 1
            try:
                t.hypothesis.fuzz_one_input(buf)
            except HarnessError as e:
                finish(f"{subname} (fuzz): {e}")
            except BaseException:  # noqa: BLE001
                finish(f"{subname} (fuzz): " + traceback.format_exc())
            if state["n"] >= execs or time.monotonic() > deadline:
                if time.monotonic() > deadline:
                    rec.budget_hit = True
                finish()

        atheris.Setup([sys.argv[0], f"-seed={seed}", "-max_len=8192", "-len_control=0", "-rss_limit_mb=6000", "-timeout=3600", corpus], one)
        atheris.Fuzz()
        finish()
    except SystemExit:
        raise
    except BaseException:  # noqa: BLE001
        finish(f"{subname} (fuzz setup): " + traceback.format_exc())


def main(argv=None):
    argv = sys.argv[1:] if argv is None else argv
    if argv and argv[0] == "--job":
        import pickle

        with open(argv[1], "rb") as f:
            job_args = pickle.load(f)
        if job_args and job_args[0] == "FUZZ":
            _fuzz_job(job_args, argv[2])  # does not return
            return 2
        out = _job(job_args)
        with open(argv[2], "wb") as f:
            pickle.dump(out, f)
        return 0
    ap = argparse.ArgumentParser()
    ap.add_argument("pid")
    ap.add_argument("--tier", default=os.environ.get("VERIF_TIER", "quick"), choices=["quick", "thorough"])
    ap.add_argument("--replay")
    ap.add_argument("--sub", action="append")
    ap.add_argument("--jobs", type=int, default=int(os.environ.get("VERIF_JOBS", "16")))
    ap.add_argument("--scale", type=float, default=float(os.environ.get("VERIF_SCALE", "1")))
    ap.add_argument("--no-shrink", action="store_true")
    ap.add_argument("--no-evidence", action="store_true")
    a = ap.parse_args(argv)
    pid = a.pid.upper()
    try:
        seed = int(os.environ.get("VERIF_SEED", "1") or "1")
    except ValueError:
        seed = 1
    t0 = time.monotonic()
    try:
        mod = find_module(pid)
    except Exception:
        print("HARNESS-ERROR: cannot import check module\n" + traceback.format_exc())
        return 2

    # ---------------------------------------------------------------- replay
    if a.replay:
        rec = Recorder(mod, pid)
        try:
            if hasattr(mod, "worker_setup"):
                mod.worker_setup()
            out, new = run_replay_file(mod, pid, a.replay, rec)
        except HarnessError as e:
            print(f"HARNESS-ERROR: {e}")
            return 2
        for fid, n in rec.known_hits.items():
            e = next(k for k in rec.known if k["id"] == fid)
            print(f"KNOWN-FINDING: property={pid} {e['what']}")
        for sig in new:
            print(f"  failure {sig}: {rec.failures[sig]['msg']}")
        if new:
            print(f"VIOLATION property={pid} replay={a.replay}")
            return 1
        print(f"replay {a.replay}: no violation")
        return 0

    total = Recorder(mod, pid)
    merged = total.export()
    harness_errors: list[str] = []
    found_by: dict[str, tuple] = {}

    # ------------------------------------------------------------ regression
    replay_files = sorted(
        p for p in glob.glob(os.path.join(ROOT, "replays", pid, "*.json")) if not os.path.basename(p).startswith("new-")
    )
    regress_violations: list[tuple[str, str]] = []
    reg = Recorder(mod, pid)
    try:
        if replay_files and hasattr(mod, "worker_setup"):
            mod.worker_setup()
        for p in replay_files:
            out, new = run_replay_file(mod, pid, p, reg)
            for sig in new:
                regress_violations.append((sig, p))
    except HarnessError as e:
        harness_errors.append(str(e))
    _merge(merged, reg.export())
    n_replays = len(replay_files)

    # ----------------------------------------------------------- exploration
    subs = [s for s in mod.SUBS if not a.sub or s.name in a.sub]
    jobs = []
    for s in subs:
        budget = s.budget_quick_s if a.tier == "quick" else s.budget_thorough_s
        if s.enumerate is not None:
            cases = list(s.enumerate(a.tier))
            nchunks = max(1, min(len(cases), a.jobs * 4))
            size = math.ceil(len(cases) / nchunks) if cases else 1
            for i in range(0, len(cases), size):
                jobs.append((s.weight * size, (pid, s.name, a.tier, 0, 0, budget, cases[i : i + size])))
        if s.strategy is not None:
            n = int((s.quick if a.tier == "quick" else s.thorough) * a.scale)
            if n <= 0:
                continue
            shards = s.shards_quick if a.tier == "quick" else max(a.jobs, s.shards_quick)
            shards = max(1, min(shards, n))
            per = math.ceil(n / shards)
            for k in range(shards):
                jobs.append((s.weight * per, (pid, s.name, a.tier, _seed_for(seed, s.name, k), per, budget, None)))
    jobs.sort(key=lambda j: -j[0])
    if jobs:
        isolation = getattr(mod, "ISOLATION", "fork")
        if a.jobs <= 1 and isolation != "subprocess":
            results = [_job(j[1]) for j in jobs]
        elif isolation == "subprocess":
            os.makedirs(os.path.join(ROOT, ".scratch"), exist_ok=True)
            with cf.ThreadPoolExecutor(max_workers=max(1, min(a.jobs, len(jobs)))) as ex:
                futs = [ex.submit(_run_job_subprocess, j[1]) for j in jobs]
                results = []
                for f in futs:
                    try:
                        results.append(f.result())
                    except Exception:
                        harness_errors.append("job failed: " + traceback.format_exc())
        else:
            ctx = multiprocessing.get_context("fork")
            with cf.ProcessPoolExecutor(max_workers=min(a.jobs, len(jobs)), mp_context=ctx) as ex:
                futs = [ex.submit(_job, j[1]) for j in jobs]
                results = []
                for f in futs:
                    try:
                        results.append(f.result())
                    except Exception:
                        harness_errors.append("worker died: " + traceback.format_exc())
        for r in results:
            for sig in r["failures"]:
                if sig not in merged["failures"] or r["failures"][sig]["size"] < merged["failures"][sig]["size"]:
                    found_by[sig] = (r["sub"], r["seed"], r["n"])
            _merge(merged, r)
            harness_errors.extend(r["harness_errors"])

    # ------------------------------------------------- coverage-guided campaigns
    fuzz_stats = []
    fz = getattr(mod, "FUZZ", None)
    want_fuzz = fz and (a.tier == "thorough" or os.environ.get("VERIF_FUZZ") == "1") and os.environ.get("VERIF_FUZZ") != "0"
    if want_fuzz:
        fsubs = [s for s in subs if s.name in fz["subs"] and s.strategy is not None]
        per = int(fz.get("execs_thorough" if a.tier == "thorough" else "execs_quick", 20000) * a.scale)
        nj = int(fz.get("jobs_thorough" if a.tier == "thorough" else "jobs_quick", 4))
        fjobs = []
        for s in fsubs:
            budget = s.budget_quick_s if a.tier == "quick" else s.budget_thorough_s
            for k in range(nj):
                fjobs.append(("FUZZ", pid, s.name, a.tier, 1 + _seed_for(seed, "fuzz/" + s.name, k) % (2**31 - 2), max(1, per), budget, list(fz["targets"])))
        if fjobs:
            os.makedirs(os.path.join(ROOT, ".scratch"), exist_ok=True)
            with cf.ThreadPoolExecutor(max_workers=max(1, min(a.jobs, len(fjobs)))) as ex:
                futs = [ex.submit(_run_job_subprocess, j) for j in fjobs]
                for f in futs:
                    try:
                        r = f.result()
                    except Exception:
                        harness_errors.append("fuzz job failed: " + traceback.format_exc())
                        continue
                    fuzz_stats.append(r.get("fuzz", {}))
                    _merge(merged, r)
                    harness_errors.extend(r["harness_errors"])

    # ------------------------------------------------------------- reporting
    known = load_known(pid)
    for e in known:
        n = merged["known_hits"].get(e["id"], 0)
        if n:
            print(f"KNOWN-FINDING: property={pid} {e['what']} [{n} cases excluded]")
    violations = []
    for sig, b in sorted(merged["failures"].items()):
        case, msg = b["case"], b["msg"]
        if a.tier == "thorough" and not a.no_shrink and sig in found_by and found_by[sig][1]:
            subname, sseed, sn = found_by[sig]
            sub = next(s for s in mod.SUBS if s.name == subname)
            try:
                best = shrink_signature(mod, pid, sub, a.tier, sseed, sn, sig)
            except Exception:
                best = None
            if best and best["size"] <= b["size"]:
                case, msg = best["case"], best["msg"]
        committed = next((p for s, p in regress_violations if s == sig), None)
        path = committed or write_replay(pid, b["sub"], sig, msg, case)
        violations.append((sig, msg, path, b["count"]))
    for sig, msg, path, count in violations:
        print(f"  failure [{count}x] {sig}: {msg}")
        print(f"VIOLATION property={pid} replay={os.path.relpath(path, ROOT)}")

    wall = time.monotonic() - t0
    samples = []
    for sname, lst in merged["samples"].items():
        for c in lst[:3]:
            samples.append({"sub": sname, "case": c})
    if not a.no_evidence:
        ev = {
            "property_id": pid,
            "tier": a.tier,
            "seed": seed,
            "level": getattr(mod, "LEVEL", "exploration"),
            "coverage": {
                "evaluations": int(merged["evals"]),
                "cases": int(merged["cases"]),
                "distinct_nontrivial": len(merged["nontrivial"]),
                "rule": mod.RULE,
                "samples": samples[:24],
                "classes": dict(sorted(merged["classes"].items())),
                "replays_run": n_replays,
                "excluded_known": {k: int(v) for k, v in merged["known_hits"].items()},
                "known_examples": merged["known_example"],
                "budget_exhausted": bool(merged["budget_hit"]),
                "subchecks": [s.name for s in subs],
                "exhaustive": any(s.exhaustive for s in subs),
                "violation_signatures": [v[0] for v in violations],
            },
            "assumptions": list(getattr(mod, "ASSUMPTIONS", [])),
            "wall_s": round(wall, 2),
            "violations": len(violations),
        }
        if fuzz_stats:
            ev["coverage"]["coverage_guided"] = {
                "engine": "atheris/libFuzzer driving the Hypothesis strategy (fuzz_one_input)",
                "campaigns": len(fuzz_stats),
                "executions": int(sum(f.get("executions", 0) for f in fuzz_stats)),
                "valid_cases": int(sum(f.get("valid_cases", 0) for f in fuzz_stats)),
                "corpus_entries": int(sum(f.get("corpus", 0) for f in fuzz_stats)),
                "instrumented": sorted({m for f in fuzz_stats for m in f.get("instrumented", [])}),
                "skipped": sorted({f["skipped"] for f in fuzz_stats if f.get("skipped")}),
            }
        if harness_errors:
            ev["coverage"]["harness_errors"] = [h[:500] for h in harness_errors[:5]]
        os.makedirs(os.path.join(ROOT, "evidence"), exist_ok=True)
        with open(os.path.join(ROOT, "evidence", f"{pid}.json"), "w") as f:
            json.dump(ev, f, indent=1, sort_keys=True, default=repr)
            f.write("\n")
    print(
        f"{pid} tier={a.tier} seed={seed} cases={merged['cases']} evaluations={merged['evals']} "
        f"nontrivial={len(merged['nontrivial'])} violations={len(violations)} "
        f"known_excluded={sum(merged['known_hits'].values())} wall={wall:.1f}s"
        + (f" fuzz_executions={sum(f.get('executions', 0) for f in fuzz_stats)}" if fuzz_stats else "")
        + (" BUDGET-EXHAUSTED(inconclusive for remainder)" if merged["budget_hit"] else "")
    )
    for h in harness_errors[:5]:
        print("HARNESS-ERROR: " + h)
    if violations:
        return 1
    if harness_errors:
        return 2
    return 0


def _merge(into, r):
    into["evals"] += r["evals"]
    into["cases"] += r["cases"]
    into["nontrivial"] |= r["nontrivial"]
    into["classes"].update(r["classes"])
    for k, v in r["samples"].items():
        cur = into["samples"].setdefault(k, [])
        for c in v:
            if len(cur) < 3:
                cur.append(c)
    for sig, b in r["failures"].items():
        cur = into["failures"].get(sig)
        if cur is None:
            into["failures"][sig] = dict(b)
        else:
            cnt = cur["count"] + b["count"]
            if b["size"] < cur["size"]:
                cur.update(b)
            cur["count"] = cnt
    into["known_hits"].update(r["known_hits"])
    for k, v in r["known_example"].items():
        into["known_example"].setdefault(k, v)
    into["budget_hit"] = into["budget_hit"] or r["budget_hit"]


if __name__ == "__main__":
    sys.exit(main())
