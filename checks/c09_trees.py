"""C09 — tree transformations preserve tips, topology and path lengths.

Oracle: a nested-list tree model kept by the harness (names, lengths,
children) from which tips, non-trivial bipartitions, rooted clusters and the
tip-to-tip path-length matrix are computed by harness code.  Real trees are
observed by walking ``.children/.name/.length`` (structure), and the library's
own observers (get_distances, get_tip_names) are compared with that as well.
"""

from __future__ import annotations

import itertools
import json
import math

from hypothesis import strategies as st

from vlib.core import Soft, Sub

PROPERTY_ID = "C09"
LEVEL = "exploration"
RULE = (
    "A case is a generated tree (3-12 tips; in the thorough tier also caterpillars of 30-60 tips; rooted or unrooted, bi-/multifurcating; "
    "branch lengths dyadic, float in [0.001, 3], float in [1e-12, 1e12], a list whose repr uses exponent notation (1e-05 ... 1e+22), python ints, "
    "a per-tree power-of-ten scale, or a mixture; tip AND internal node names over letters plus space, underscore, quotes and newick "
    "punctuation, or over ASCII plus non-ASCII letters of 2 and 3 UTF-8 bytes) and a composition of 1-4 operations drawn from newick round trips (escaped + underscore-unmunged, default, "
    "with_node_names=True with/without semicolon, write(file)+load_tree for newick suffixes incl. .gz), JSON / rich-dict round trips "
    "(in memory and write(file.json[.gz])+load_tree), copy, deepcopy, unrooted, unrooted_deepcopy, rooted_at (any internal name), "
    "rooted_with_tip, root_at_midpoint, sorted, get_sub_tree (optionally ignore_missing=True with absent names and internal-node names), "
    "bifurcating. After every operation the result's tip set, bipartitions (restricted to retained tips) and all tip-to-tip path lengths "
    "are compared with the model, and the receiver is re-observed to be unchanged; for name-writing routes every named internal node must be "
    "found again by get_node_matching_name above the same tips. Path lengths are correctly rounded sums (math.fsum) on both sides: they must be "
    "bit-identical after operations that do no arithmetic, and agree to relative 1e-12 after unrooted/get_sub_tree (1e-12 of the largest "
    "tip-to-tip distance after root_at_midpoint). The distance sub-check compares tree_distance (all methods), lin_rajan_moret, same_topology "
    "and compare_by_subsets of tree pairs (shuffled, SPR neighbour, independent binary or multifurcating tree) with split/cluster set "
    "computations and a brute-force matching. "
    "Non-trivial = >= 5 tips, a multifurcation or rooted input, and a re-rooting, unrooting or pruning step; distinct = "
    "distinct case encodings."
)
ASSUMPTIONS = [
    "names do not both start and end with a single quote (get_newick treats such names as already quoted) and have no leading/trailing blanks; all node names of a tree are distinct (also after blank->underscore), none is 'root' or starts with 'edge.'",
    "the default newick round trip (underscore_unmunge=False) is only required to preserve names that contain no space; with underscore_unmunge=True all names must survive (write(file) is read back with load_tree(underscore_unmunge=True))",
    "path lengths are computed by the harness as correctly rounded sums of the edges on the path (no depth differences, so no cancellation); operations that only move or copy lengths (round trips, copies, sorted, re-rooting at a node / beside a tip, unrooted_deepcopy, bifurcating) must reproduce them bit for bit; unrooted() and get_sub_tree() add two lengths, so relative 1e-12 of the path length (exact for dyadic/int lengths below 2**20); root_at_midpoint() places the root from the maximum tip-to-tip distance, so 1e-12 of that distance; get_distances() (numpy accumulation) relative 1e-12",
    "an int branch length may come back as the equal float (newick text '3' -> 3.0)",
    "get_sub_tree is asked for at least two tips; with tipsonly=False an internal-node name in the list keeps that node's whole clade (pinned by tests/test_core/test_tree.py test_getsubtree_5), with tipsonly=True and ignore_missing=True it is ignored; absent names are only passed with ignore_missing=True; bifurcating() may add zero-length edges (topology refined, path lengths unchanged)",
    "a composition stops after the first failed step, when an edge lost its length, or when root_at_midpoint produced a non-positive length through rounding (possible only when lengths of one tree span > 15 orders of magnitude); internal-node names are only required to survive routes documented to write them: get_newick(with_node_names=True), to_rich_dict/to_json (edge attributes are keyed by name), copy/deepcopy",
    "non-ASCII names are printable names: write(file)+load_tree must return them on a machine whose preferred encoding is UTF-8 (the writer uses the locale's encoding); failures of that route carry the circumstance tag newick_file[non-ascii]",
    "same_topology is only asserted for pairs of unrooted trees without single-child nodes (it re-roots both beside the first tip, which leaves a degree-2 node in a rooted tree); compare_by_subsets is 1 - 2|A&B|/(|A|+|B|) over the sets of clusters (1 when both are empty), as its code and tests define",
]

NAME_ALPHABET = "abcXY12 _'\"():,;[]-."
# printable non-ASCII letters (1, 2 and 3 byte UTF-8) mixed with ASCII; nothing here needs newick quoting
UNICODE_ALPHABET = "abX1 \u00e9\u00b5\u00f1\u00df\u03a9\u540d"


# ------------------------------------------------------------------ model
def m_tips(node):
    if not node["kids"]:
        return [node["name"]]
    out = []
    for k in node["kids"]:
        out.extend(m_tips(k))
    return out


def m_clusters(node, acc=None, root=True):
    """frozensets of tips below each non-root internal node"""
    if acc is None:
        acc = set()
    if not node["kids"]:
        return frozenset([node["name"]]), acc
    mine = frozenset()
    for k in node["kids"]:
        sub, _ = m_clusters(k, acc, False)
        mine |= sub
    if not root and len(mine) > 1:
        acc.add(mine)
    return mine, acc


def m_splits(node, keep=None):
    """non-trivial bipartitions, optionally restricted to tips in ``keep``"""
    alltips = frozenset(m_tips(node))
    if keep is not None:
        alltips = alltips & frozenset(keep)
    _, cl = m_clusters(node)
    out = set()
    ref = min(alltips) if alltips else None
    for c in cl:
        c = c & alltips
        other = alltips - c
        if len(c) < 2 or len(other) < 2:
            continue
        out.add(other if ref in c else c)
    return out


def m_paths(node):
    """{(a, b): path length}: the correctly rounded sum (math.fsum, so independent of the order
    of the edges) of the lengths of the edges between the two tips; a missing length counts 0.
    No depth differences are taken: with lengths spanning many orders of magnitude a
    subtraction of root-to-tip depths would cancel."""
    chain = {}

    def walk(n, anc):
        # anc: list of (node id, length of the edge above that node); the root's own length is not on any path
        cur = anc + [(id(n), (n["len"] or 0.0) if anc else 0.0)]
        if not n["kids"]:
            chain[n["name"]] = cur
        for k in n["kids"]:
            walk(k, cur)

    walk(node, [])
    out = {}
    names = sorted(chain)
    for a, b in itertools.combinations(names, 2):
        pa, pb = chain[a], chain[b]
        i = 0
        while i < min(len(pa), len(pb)) and pa[i][0] == pb[i][0]:
            i += 1
        out[(a, b)] = math.fsum([x[1] for x in pa[i:]] + [x[1] for x in pb[i:]])
    return out


def m_named_clusters(node):
    """{internal node name: frozenset of the tips below it} for named non-root internal nodes"""
    out = {}

    def walk(n, root):
        if not n["kids"]:
            return frozenset([n["name"]])
        mine = frozenset()
        for k in n["kids"]:
            mine |= walk(k, False)
        if not root and n["name"] is not None:
            out[n["name"]] = mine
        return mine

    walk(node, True)
    return out


def observe_real(tree):
    """model tree read off a real tree's structure"""

    def rd(n):
        return {"name": n.name, "len": n.length, "kids": [rd(c) for c in n.children]}

    return rd(tree)


def to_real(model):
    from cogent3.core.tree import TreeBuilder

    tb = TreeBuilder().create_edge

    def mk(n, root=False):
        kids = [mk(k) for k in n["kids"]]
        params = {} if n["len"] is None else {"length": n["len"]}
        return tb(kids, "root" if root else n["name"], params)

    return mk(model, True)


# -------------------------------------------------------------- generator
SPACED_SUFFIX = ["x", "ab", "c d"]
# names the newick reader is known not to get back (known finding C09-newick-punctuation-name); the style
# "fancy_readable" avoids them so that awkward names are also exercised on cases that are not excluded
UNREADABLE_SINGLE = ("(", ")", ":", ",", ";", "[", "]")


def _draw_name(draw, style, seen, idx, internal):
    """one new node name in the given style, distinct (also after blank -> underscore) from those in ``seen``"""
    if style == "plain":
        nm = f"in{idx}" if internal else f"t{idx}"
    elif style == "spaced":
        # binomial-style names: letters, digits and single blanks, nothing that needs quoting
        nm = f"{'cl' if internal else 'sp'}{idx} {draw(st.sampled_from(SPACED_SUFFIX))}{idx}"
    else:
        k = draw(st.integers(1, 6))
        alphabet = UNICODE_ALPHABET if style == "unicode" else NAME_ALPHABET
        nm = "".join(draw(st.lists(st.sampled_from(alphabet), min_size=k, max_size=k))).strip()
        key = nm.replace(" ", "_")
        unreadable = style == "fancy_readable" and (nm in UNREADABLE_SINGLE or nm.startswith("'"))
        if not nm or key in seen or (nm.startswith("'") and nm.endswith("'")) or nm.startswith("edge.") or nm == "root" or unreadable:
            # replacement: '<m|n><idx>q' + up to two characters of the rejected draw ('q' ends the index, so
            # replacements of different nodes cannot coincide; no alphabet contains m, n or q)
            stem = f"{'m' if internal else 'n'}{idx}q"
            nm = stem + nm.replace("'", "q")[:2]
            if nm.replace(" ", "_") in seen or nm != nm.strip():
                nm = stem
    while nm.replace(" ", "_") in seen:
        nm += "q"
    seen.add(nm.replace(" ", "_"))
    return nm


@st.composite
def names_st(draw, n, plain):
    """tip names (kept for the distance sub-check and old callers)"""
    style = "plain" if plain else draw(st.sampled_from(["spaced", "fancy", "fancy_readable", "unicode"]))
    seen = set()
    return [_draw_name(draw, style, seen, i, False) for i in range(n)]


DYADIC = [0.125, 0.25, 0.5, 0.75, 1.0, 1.5, 2.0, 3.0]
# floats whose repr (as written by get_newick / json.dumps) uses exponent notation
EXPONENT_REPR = [1e-12, 1e-09, 3.3e-07, 1e-05, 2.5e-05, 1e16, 1.5e17, 2.5e20, 1e22]
INT_LENGTHS = [1, 2, 3, 5, 10, 100, 1000]
LENGTH_MODES = ["dyadic", "dyadic", "dyadic", "float", "float", "wide", "exp", "int", "scaled", "mixed"]


def _length_drawer(draw, mode):
    scale = 10.0 ** draw(st.integers(-12, 12)) if mode == "scaled" else None

    def length(mode=mode):
        if mode == "mixed":
            return length(draw(st.sampled_from(["dyadic", "float", "wide", "exp", "int"])))
        if mode == "dyadic":
            return draw(st.sampled_from(DYADIC))
        if mode == "float":
            return draw(st.floats(0.001, 3.0, allow_nan=False, allow_infinity=False))
        if mode == "wide":
            return draw(st.floats(1e-12, 1e12, allow_nan=False, allow_infinity=False))
        if mode == "exp":
            return draw(st.sampled_from(EXPONENT_REPR))
        if mode == "int":
            return draw(st.one_of(st.sampled_from(INT_LENGTHS), st.integers(1, 50)))
        return scale * draw(st.floats(0.01, 10.0, allow_nan=False, allow_infinity=False))

    return length


@st.composite
def tree_st(draw, min_tips=3, max_tips=12, caterpillar=False):
    n = draw(st.integers(min_tips, max_tips))
    style = "plain" if draw(st.integers(0, 3)) > 0 else draw(st.sampled_from(["spaced", "fancy", "fancy_readable", "unicode"]))
    # internal nodes: the tips' style, or plain in<k> (plain tips may also get awkward internal names)
    istyle = draw(st.sampled_from([style, style, style, "plain", "spaced", "fancy", "fancy_readable", "unicode"]))
    seen = set()
    length = _length_drawer(draw, draw(st.sampled_from(LENGTH_MODES)))
    nodes = [{"name": _draw_name(draw, style, seen, i, False), "len": length(), "kids": []} for i in range(n)]
    rooted = draw(st.booleans())
    root_deg = 2 if rooted else draw(st.sampled_from([3, 3, 4]))
    root_deg = min(root_deg, n)
    if caterpillar:
        # a ladder: every internal node has one tip child and the rest of the ladder
        cur = nodes.pop()
        while len(nodes) >= root_deg:
            cur = {"name": None, "len": length(), "kids": [nodes.pop(), cur] if draw(st.booleans()) else [cur, nodes.pop()]}
        nodes.append(cur)
    while len(nodes) > root_deg:
        k = draw(st.sampled_from([2, 2, 2, 3, 4]))
        k = min(k, len(nodes) - root_deg + 1)
        if k < 2:
            break
        idxs = sorted(draw(st.lists(st.integers(0, len(nodes) - 1), min_size=k, max_size=k, unique=True)), reverse=True)
        kids = [nodes.pop(i) for i in idxs]
        nodes.append({"name": None, "len": length(), "kids": kids})
    root = {"name": "root", "len": None, "kids": nodes}
    # internal names
    cnt = [0]

    def name_internal(nd, is_root=False):
        if nd["kids"]:
            if not is_root:
                nd["name"] = _draw_name(draw, istyle, seen, cnt[0], True)
                cnt[0] += 1
            for k in nd["kids"]:
                name_internal(k)

    name_internal(root, True)
    return root


OPS = [
    "newick", "newick", "newick_default", "newick_node_names", "newick_node_names", "newick_file", "json", "json", "json_file", "rich_dict",
    "copy", "deepcopy", "unrooted", "unrooted", "unrooted_deepcopy",
    "rooted_at", "rooted_at", "rooted_with_tip", "rooted_with_tip", "root_at_midpoint", "root_at_midpoint", "sorted", "get_sub_tree",
    "get_sub_tree", "get_sub_tree", "bifurcating",
]
# operations that only copy or move branch lengths: path lengths must come back bit for bit
NO_ARITHMETIC = {
    "newick", "newick_default", "newick_node_names", "newick_file", "json", "json_file", "rich_dict", "copy", "deepcopy",
    "unrooted_deepcopy", "rooted_at", "rooted_with_tip", "sorted", "bifurcating",
}
# routes documented to write internal node names (get_newick(with_node_names=True); rich dict keyed by edge name; copies)
KEEPS_NODE_NAMES = {"newick_node_names", "json", "json_file", "rich_dict", "copy", "deepcopy"}
NEWICK_SUFFIXES = ["nwk", "tree", "newick", "nwk.gz", "txt"]
JSON_SUFFIXES = ["json", "json.gz"]
RTOL = 1e-12


@st.composite
def op_cases(draw, caterpillar=False):
    tree = draw(tree_st(30, 60, caterpillar=True)) if caterpillar else draw(tree_st())
    depth = draw(st.integers(1, 4))
    ops = []
    pool = OPS
    if not all(nm.isascii() for nm in _case_names({"tree": tree})):
        pool = OPS + ["newick_file"] * 6  # the text-file route is where non-ASCII names matter
    for _ in range(depth):
        op = draw(st.sampled_from(pool))
        # arguments are drawn as abstract choices, resolved against the current model when executed
        ops.append({"op": op, "a": draw(st.integers(0, 10**6)), "b": draw(st.integers(0, 10**6)), "c": draw(st.integers(0, 10**6)),
                    "flag": draw(st.booleans()), "flag2": draw(st.booleans()), "flag3": draw(st.booleans())})
    return {"tree": tree, "ops": ops}


def ops_strategy(tier):
    if tier == "thorough":
        # 1 case in 40 is a deep ladder (recursive copy / parse / re-rooting routes)
        return st.integers(0, 39).flatmap(lambda k: op_cases(caterpillar=(k == 0)))
    return op_cases()


# ---------------------------------------------------------------- execute
def close(a, b, exact, scale=None):
    """exact: bit-identical; otherwise |a-b| <= RTOL * max(|a|,|b|) (or RTOL * scale when a scale is given)"""
    if exact:
        return a == b
    ref = max(abs(a), abs(b)) if scale is None else scale
    return abs(a - b) <= RTOL * ref


def compare(s: Soft, sig, real_tree, want_model, what, keep=None, exact=True, check_api=True, refine_ok=False, scale=None, node_names=False):
    ok, got = s.call(sig + "/observe", observe_real, real_tree)
    if not ok:
        return
    want_tips = sorted(m_tips(want_model)) if keep is None else sorted(keep)
    got_tips = m_tips(got)
    if not s.eq(sorted(got_tips), want_tips, sig + "/tips", what):
        return
    s.check(len(set(got_tips)) == len(got_tips), sig + "/duplicate-tips", what)
    ws, gs = m_splits(want_model, keep), m_splits(got)
    if refine_ok:
        s.check(ws <= gs, sig + "/topology", f"{what}: splits lost {sorted(map(sorted, ws - gs))}")
    else:
        s.eq(sorted(map(sorted, gs)), sorted(map(sorted, ws)), sig + "/topology", what)
    wp, gp = m_paths(want_model), m_paths(got)
    bad = [(k, gp.get(k), v) for k, v in wp.items() if (keep is None or (k[0] in keep and k[1] in keep)) and not close(gp.get(k, float("nan")), v, exact, scale)]
    s.check(not bad, sig + "/path-lengths", f"{what}: (pair, got, want) {bad[:3]} ({'bit-identical' if exact else 'relative 1e-12'})")
    if node_names:
        for nm, below in sorted(m_named_clusters(want_model).items()):
            if nm.startswith("edge."):
                continue  # automatic names of unnamed nodes are not data
            ok, node = s.call(sig + "/node-names", real_tree.get_node_matching_name, nm)
            if not ok:
                break
            if not s.check(sorted(node.get_tip_names()) == sorted(below), sig + "/node-names", f"{what}: node {nm!r} is above {sorted(node.get_tip_names())}, was above {sorted(below)}"):
                break
    if check_api and _all_lengths(got):
        ok, tn = s.call(sig + "/get_tip_names", real_tree.get_tip_names)
        if ok:
            s.eq(sorted(tn), want_tips, sig + "/get_tip_names", what)
        ok, gd = s.call(sig + "/get_distances", real_tree.get_distances)
        if ok:
            bad = []
            for (a, b), v in gp.items():
                d = gd.get((a, b))
                if d is None or not close(d, v, False, scale):
                    bad.append(((a, b), d, v))
            s.check(not bad, sig + "/get_distances", f"{what}: (pair, api, structure) {bad[:3]}")


def _exact_lengths(model):
    """sums of these lengths are exactly representable: multiples of 1/8 below 2**20"""
    return all(float(x * 8).is_integer() and x < 2**20 for x in _lengths(model))


def exec_ops(case) -> Soft:
    from cogent3 import load_tree, make_tree
    from cogent3.core.tree import TreeError
    from cogent3.util.deserialise import deserialise_object
    import copy as _copy
    import os
    import tempfile

    s = Soft("C09/")
    model = case["tree"]
    keys = [nm.replace(" ", "_") for nm in _case_names(case)]
    if len(set(keys)) != len(keys):
        s.cls("out-of-domain:duplicate-names")  # TreeBuilder would rename one of them (ASSUMPTIONS)
        return s
    ok, tree = s.call("construct", to_real, model)
    if not ok:
        return s
    compare(s, "construct", tree, model, "freshly built tree", node_names=True)
    if s.failures:
        return s
    ntips = len(m_tips(model))
    rooted_in = len(model["kids"]) == 2
    multif = _has_polytomy(model)
    lens = _lengths(model)
    s.cls("rooted" if rooted_in else "unrooted", "multifurcating" if multif else "bifurcating")
    s.cls("lengths:" + ("int" if all(isinstance(x, int) for x in lens) else "exponent-repr" if any("e" in repr(float(x)) for x in lens) else "plain-repr"))
    if any(isinstance(x, int) for x in lens):
        s.cls("lengths:has-int")
    if max(lens) / min(lens) > 1e9:
        s.cls("lengths:range>1e9")
    if ntips >= 30:
        s.cls("deep-ladder")
    if not all(nm.isascii() for nm in _case_names(case)):
        s.cls("names:non-ascii")
    if any(not (nm.startswith("in") and nm[2:].isdigit()) for nm in _internal_names(model) if nm):
        s.cls("internal-names:awkward")

    def via_file(suffix, **load_kw):
        def fn():
            with tempfile.TemporaryDirectory(prefix="c09.") as d:
                path = os.path.join(d, "tree." + suffix)
                tree.write(path)
                return load_tree(path, **load_kw)

        return fn

    reroot = False
    zero_lengths = False
    for step in case["ops"]:
        op = step["op"]
        if zero_lengths and op not in ("newick", "newick_default", "newick_node_names", "newick_file", "json", "json_file", "rich_dict", "copy", "deepcopy", "sorted"):
            continue  # the statement quantifies over positive branch lengths
        tips = sorted(m_tips(model))
        internals = [n for n in _internal_names(model) if n is not None]
        keep = None
        refine_ok = False
        want = model
        sig = op
        allowed = ()
        names_have_space = any(" " in t for t in tips) or any(" " in i for i in internals)
        non_ascii = not all(nm.isascii() for nm in tips + internals)
        if op == "newick":
            fn = lambda: make_tree(tree.get_newick(with_distances=True, escape_name=True), underscore_unmunge=True)  # noqa: E731
        elif op == "newick_default":
            if names_have_space:
                continue
            fn = lambda: make_tree(tree.get_newick(with_distances=True))  # noqa: E731
        elif op == "newick_node_names":
            semi = step["flag"]
            fn = lambda: make_tree(tree.get_newick(with_distances=True, with_node_names=True, escape_name=True, semicolon=semi), underscore_unmunge=True)  # noqa: E731
        elif op == "newick_file":
            fn = via_file(NEWICK_SUFFIXES[step["a"] % len(NEWICK_SUFFIXES)], underscore_unmunge=True)
            if non_ascii:
                import locale

                if locale.getpreferredencoding(False).lower().replace("-", "") != "utf8":
                    continue  # the writer uses the locale's encoding, which could not represent the names
                sig = "newick_file[non-ascii]"  # own circumstance: the reader has to guess the text encoding
        elif op == "json":
            fn = lambda: deserialise_object(json.loads(tree.to_json()))  # noqa: E731
        elif op == "json_file":
            fn = via_file(JSON_SUFFIXES[step["a"] % len(JSON_SUFFIXES)])
            sig = "json/file"
        elif op == "rich_dict":
            fn = lambda: deserialise_object(tree.to_rich_dict())  # noqa: E731
        elif op == "copy":
            fn = tree.copy
        elif op == "deepcopy":
            fn = lambda: _copy.deepcopy(tree)  # noqa: E731
        elif op == "unrooted":
            fn = tree.unrooted
            reroot = True
        elif op == "unrooted_deepcopy":
            fn = tree.unrooted_deepcopy
        elif op == "rooted_at":
            if not internals:
                continue
            target = internals[step["a"] % len(internals)]
            fn = lambda: tree.rooted_at(target)  # noqa: E731
            reroot = True
        elif op == "rooted_with_tip":
            target = tips[step["a"] % len(tips)]
            fn = lambda: tree.rooted_with_tip(target)  # noqa: E731
            reroot = True
        elif op == "root_at_midpoint":
            fn = tree.root_at_midpoint
            reroot = True
        elif op == "sorted":
            order = list(tips)
            rot = step["a"] % len(order)
            order = order[rot:] + order[:rot]
            if step["flag"]:
                order = order[: max(1, len(order) // 2)]
            fn = lambda: tree.sorted(order)  # noqa: E731
        elif op == "get_sub_tree":
            k = 2 + step["a"] % max(1, len(tips) - 1)
            k = min(k, len(tips))
            start = step["b"] % len(tips)
            keep = sorted((tips[start:] + tips[:start])[:k])
            if len(keep) < 2:
                continue
            kr, to = step["flag"], step["flag2"]
            asked = list(keep)
            sig = f"get_sub_tree[keep_root={kr}]"
            kw = {}
            if step.get("flag3"):
                # names that are not in the tree, and sometimes the name of an internal node
                c = step.get("c", 0)
                kw["ignore_missing"] = True
                sig = f"get_sub_tree[keep_root={kr},ignore_missing]"
                absent = [nm for nm in (f"zz{c % 7}", f"zz {c % 5} q") if nm not in tips and nm not in internals]
                asked = asked + absent[: 1 + c % 2]
                if internals and c % 3 != 0:
                    inode = internals[(c // 3) % len(internals)]
                    asked.append(inode)
                    if not to:  # tipsonly=False: a listed internal node keeps its whole clade
                        keep = sorted(set(keep) | m_named_clusters(model)[inode])
                rot = c % len(asked)
                asked = asked[rot:] + asked[:rot]
                s.cls("get_sub_tree:ignore_missing")
            fn = lambda: tree.get_sub_tree(asked, keep_root=kr, tipsonly=to, **kw)  # noqa: E731
            reroot = True
        elif op == "bifurcating":
            fn = tree.bifurcating
            refine_ok = True
            zero_lengths = True
        else:
            continue
        before = observe_real(tree)
        nfail = len(s.failures)
        ok, res = s.call(sig, fn, allowed=allowed)
        if not ok:
            # the receiver must still be intact
            compare(s, sig + "/receiver-after-failure", tree, model, f"receiver after failed {op}", check_api=False)
            return s
        what = f"{op} on {_brief(model)}"
        exact = op in NO_ARITHMETIC or (_exact_lengths(model) and op != "root_at_midpoint")
        scale = None
        if op == "root_at_midpoint":
            # the root is placed by arithmetic on the maximum tip-to-tip distance
            scale = max(m_paths(model).values())
        compare(s, sig, res, want, what, keep=keep, exact=exact, refine_ok=refine_ok, scale=scale, node_names=op in KEEPS_NODE_NAMES)
        # receiver unchanged (structure, names, lengths)
        after = observe_real(tree)
        s.check(after == before, sig + "/receiver-mutated", f"{what}: receiver changed from {_brief(before)} to {_brief(after)}")
        if op == "root_at_midpoint" and ok:
            _check_midpoint(s, res, what)
        s.cls("op:" + op)
        if len(s.failures) > nfail:
            # the result is not the intended tree: whatever later steps did to it
            # would be judged against a wrong model (seen with the known newick
            # mis-parse of a tip named "[" which yields a tip "1.0" without length)
            s.cls("stopped-after-failed-step")
            break
        # continue the composition on the result
        tree = res
        ok, model = s.call(sig + "/observe", observe_real, res)
        if not ok:
            return s
        if not _all_lengths(model):
            break  # the statement quantifies over trees with branch lengths
        if len(m_tips(model)) < 3:
            break
        lens = _lengths(model)
        if lens and min(lens) < 0:
            # midpoint arithmetic on lengths spanning > 15 orders of magnitude; the statement quantifies over positive lengths
            s.cls("stopped-nonpositive-length")
            break
        if lens and min(lens) == 0:
            zero_lengths = True
    s.nontrivial = ntips >= 5 and (multif or rooted_in) and reroot
    return s


def _check_midpoint(s, res, what):
    got = observe_real(res)
    paths = m_paths(got)
    if not paths:
        return
    mx = max(paths.values())
    # root-to-tip depths
    depths = []

    def walk(n, d, root=True):
        d2 = d + (0.0 if root else (n["len"] or 0.0))
        if not n["kids"]:
            depths.append(d2)
        for k in n["kids"]:
            walk(k, d2, False)

    walk(got, 0.0)
    depths.sort(reverse=True)
    if mx > 0:
        s.check(abs(depths[0] - mx / 2) <= 1e-9 * mx, "root_at_midpoint/not-midpoint", f"{what}: deepest tip at {depths[0]}, half of max tip-tip distance is {mx / 2}")


def _all_lengths(n, root=True):
    """every non-root edge has a length (the API substitutes a default for missing ones)"""
    if not root and n["len"] is None:
        return False
    return all(_all_lengths(k, False) for k in n["kids"])


def _lengths(n):
    out = [] if n["len"] is None else [n["len"]]
    for k in n["kids"]:
        out.extend(_lengths(k))
    return out


def _has_polytomy(n, root=True):
    if len(n["kids"]) > (3 if root and len(n["kids"]) != 2 else 2):
        return True
    return any(_has_polytomy(k, False) for k in n["kids"])


def _internal_names(n, root=True):
    out = []
    if n["kids"] and not root:
        out.append(n["name"])
    for k in n["kids"]:
        out.extend(_internal_names(k, False))
    return out


def _brief(n):
    def nw(x):
        lab = "" if x["name"] is None else str(x["name"])
        ln = "" if x["len"] is None else f":{x['len']:g}"
        if x["kids"]:
            return "(" + ",".join(nw(k) for k in x["kids"]) + ")" + lab + ln
        return lab + ln

    return nw(n)[:400]


# --------------------------------------------------------- tree distances
@st.composite
def pair_cases(draw):
    t1 = draw(tree_st(4, 9))
    mode = draw(st.sampled_from(["same", "shuffled", "spr", "spr", "independent", "independent", "independent_multi"]))
    return {"tree": t1, "mode": mode, "a": draw(st.integers(0, 10**6)), "b": draw(st.integers(0, 10**6)), "c": draw(st.integers(0, 10**6))}


def _deep(n):
    return {"name": n["name"], "len": n["len"], "kids": [_deep(k) for k in n["kids"]]}


def _second_tree(case):
    import random  # deterministic: seeded from the case only

    t = _deep(case["tree"])
    rnd = random.Random(case["a"] * 1000003 + case["b"])
    mode = case["mode"]
    if mode == "same":
        return t
    if mode == "shuffled":
        def sh(n):
            rnd.shuffle(n["kids"])
            for k in n["kids"]:
                sh(k)
        sh(t)
        return t
    tips = m_tips(t)
    if mode in ("independent", "independent_multi"):
        # same tips, new random topology with the same root degree (binary, or with polytomies and mixed lengths)
        multi = mode == "independent_multi"
        nodes = [{"name": nm, "len": 1.0, "kids": []} for nm in tips]
        rnd.shuffle(nodes)
        deg = len(t["kids"])
        c = 0
        while len(nodes) > deg:
            k = min(rnd.choice([2, 2, 3, 4]) if multi else 2, len(nodes) - deg + 1)
            kids = [nodes.pop(rnd.randrange(len(nodes))) for _ in range(k)]
            nodes.append({"name": f"x{c}", "len": rnd.choice([0.5, 1.0, 2.5]) if multi else 1.0, "kids": kids})
            c += 1
        return {"name": "root", "len": None, "kids": nodes}
    # spr: move one tip to be sister of another tip
    parent = {}

    def idx(n):
        for k in n["kids"]:
            parent[id(k)] = n
            idx(k)

    idx(t)
    leaves = []

    def lv(n):
        if not n["kids"]:
            leaves.append(n)
        for k in n["kids"]:
            lv(k)

    lv(t)
    mv = leaves[case["a"] % len(leaves)]
    p = parent[id(mv)]
    if len(p["kids"]) <= 2 and p is t:
        return t
    dst = leaves[case["b"] % len(leaves)]
    if dst is mv or parent[id(dst)] is p and len(p["kids"]) == 2:
        return t
    p["kids"].remove(mv)
    if len(p["kids"]) == 1 and p is not t:
        only = p["kids"][0]
        gp = parent[id(p)]
        gp["kids"][gp["kids"].index(p)] = only
        only["len"] = (only["len"] or 0) + (p["len"] or 0)
        parent[id(only)] = gp
    dp = parent[id(dst)]
    new = {"name": "spr", "len": 1.0, "kids": [dst, mv]}
    dp["kids"][dp["kids"].index(dst)] = new
    return t


def _brute_matching(A, B, weight, empty_weight):
    """minimum total weight of a perfect matching between A and B padded with 'empty' elements"""
    A, B = list(A), list(B)
    n = max(len(A), len(B))
    A = A + [None] * (n - len(A))
    B = B + [None] * (n - len(B))
    best = None
    for perm in itertools.permutations(range(n)):
        tot = 0
        for i, j in enumerate(perm):
            a, b = A[i], B[j]
            if a is None and b is None:
                w = 0
            elif a is None:
                w = empty_weight(b)
            elif b is None:
                w = empty_weight(a)
            else:
                w = weight(a, b)
            tot += w
            if best is not None and tot >= best:
                break
        else:
            best = tot if best is None else min(best, tot)
            continue
        if best is None:
            best = tot
    return best or 0


def exec_pair(case) -> Soft:
    s = Soft("C09/dist/")
    m1 = case["tree"]
    m2 = _second_tree(case)
    ok, t1 = s.call("construct", to_real, m1)
    ok2, t2 = s.call("construct", to_real, m2)
    if not (ok and ok2):
        return s
    rooted = len(m1["kids"]) == 2
    if (len(m2["kids"]) == 2) != rooted:
        return s
    tips = frozenset(m_tips(m1))
    n = len(tips)
    s1, s2 = m_splits(m1), m_splits(m2)
    _, c1 = m_clusters(m1)
    _, c2 = m_clusters(m2)
    same_unrooted = s1 == s2
    same_rooted = c1 == c2
    s.cls(case["mode"], "rooted" if rooted else "unrooted")
    methods = ["rooted_robinson_foulds", "matching_cluster", "rrf", "mc", "rf", "matching", None] if rooted else [
        "unrooted_robinson_foulds", "lin_rajan_moret", "urf", "lrm", "rf", "matching", None]
    for meth in methods:
        # Lin-Rajan-Moret matching is only defined here for trees with the same number of internal edges
        allowed = (ValueError,) if (not rooted and meth in ("lin_rajan_moret", "lrm", "matching", None) and len(s1) != len(s2)) else ()
        ok, d12 = s.call(f"{meth}", t1.tree_distance, t2, meth, allowed=allowed)
        ok2, d21 = s.call(f"{meth}", t2.tree_distance, t1, meth, allowed=allowed)
        if not (ok and ok2):
            continue
        what = f"{meth}: {_brief(m1)} vs {_brief(m2)}"
        s.eq(d12, d21, f"{meth}/symmetry", what)
        same = same_rooted if rooted else same_unrooted
        s.check((d12 == 0) == same, f"{meth}/zero-iff-equal-topology", f"{what}: distance {d12}, same topology {same}")
        if meth in ("rooted_robinson_foulds", "rrf") or (rooted and meth == "rf"):
            s.eq(int(d12), len(c1 ^ c2), f"{meth}/cluster-symmetric-difference", what)
        if meth in ("unrooted_robinson_foulds", "urf") or (not rooted and meth == "rf"):
            s.eq(int(d12), len(s1 ^ s2), f"{meth}/split-symmetric-difference", what)
        if n <= 8 and meth in ("matching_cluster", "mc"):
            want = _brute_matching(c1, c2, lambda a, b: len(a ^ b), lambda a: len(a))
            s.eq(int(d12), want, f"{meth}/brute-force-matching", what)
        if n <= 8 and meth in ("lin_rajan_moret", "lrm"):
            def w(a, b):
                h = len(a ^ b)
                return min(h, n - h)

            want = _brute_matching(s1, s2, w, lambda a: min(len(a), n - len(a)))
            s.eq(int(d12), want, f"{meth}/brute-force-matching", what)
    what = f"{_brief(m1)} vs {_brief(m2)}"
    # compare_by_subsets: 1 - 2|A & B| / (|A| + |B|) over the cluster sets, 1 when both are empty
    tot = len(c1) + len(c2)
    want = 1 - 2 * len(c1 & c2) / tot if tot else 1
    ok, v12 = s.call("compare_by_subsets", t1.compare_by_subsets, t2)
    ok2, v21 = s.call("compare_by_subsets", t2.compare_by_subsets, t1)
    if ok and ok2:
        s.eq(v12, v21, "compare_by_subsets/symmetry", what)
        s.check(abs(v12 - want) <= 1e-12, "compare_by_subsets/cluster-sets", f"{what}: got {v12}, cluster sets give {want}")
        if tot:
            s.check((v12 == 0) == same_rooted, "compare_by_subsets/zero-iff-equal-clusters", f"{what}: got {v12}, same clusters {same_rooted}")
    if not rooted:
        # same_topology: the unrooted topologies (bipartition sets) agree
        ok, st12 = s.call("same_topology", t1.same_topology, t2)
        ok2, st21 = s.call("same_topology", t2.same_topology, t1)
        if ok and ok2:
            s.eq(bool(st12), same_unrooted, "same_topology/split-sets", what)
            s.eq(bool(st21), same_unrooted, "same_topology/split-sets", what)
        # the method form of the Lin-Rajan-Moret distance
        allowed = (ValueError,) if len(s1) != len(s2) else ()
        ok, lrm = s.call("lin_rajan_moret-method", t1.lin_rajan_moret, t2, allowed=allowed)
        ok2, td = s.call("lin_rajan_moret-method", t1.tree_distance, t2, "lrm", allowed=allowed)
        if ok and ok2:
            s.eq(int(lrm), int(td), "lin_rajan_moret-method/equals-tree_distance", what)
    s.nontrivial = n >= 5 and case["mode"] in ("spr", "independent", "independent_multi") and not (same_rooted if rooted else same_unrooted)
    return s


SUBS = [
    Sub("ops", exec_ops, strategy=ops_strategy, quick=3000, thorough=320_000, shards_quick=16),
    Sub("distances", exec_pair, strategy=pair_cases(), quick=1200, thorough=96_000, shards_quick=16),
]

# thorough tier: coverage-guided campaigns (atheris/libFuzzer mutating the bytes Hypothesis draws from)
FUZZ = {
    "subs": ["ops", "distances"],
    "targets": ["cogent3.core.tree", "cogent3.parse.newick", "cogent3.parse.tree", "cogent3.phylo.tree_distance", "cogent3.util.deserialise"],
    "execs_thorough": 60_000, "jobs_thorough": 4, "execs_quick": 1500, "jobs_quick": 2,
}


def _case_names(case):
    out = []

    def walk(n):
        if n["name"] is not None:
            out.append(str(n["name"]))
        for k in n["kids"]:
            walk(k)

    walk(case["tree"])
    return out


def _kp_newick_unreadable_name(case, sig, msg):
    """a node name that is exactly one newick punctuation character, or that starts with a single quote"""
    return any(n in UNREADABLE_SINGLE or n.startswith("'") for n in _case_names(case))


def _kp_json_special_name(case, sig, msg):
    """a node name containing newick punctuation: the JSON/rich-dict route writes names unescaped"""
    return any(ch in n for n in _case_names(case) for ch in "[]'\"(),:;")


KNOWN_PREDICATES = {
    "newick_unreadable_name": _kp_newick_unreadable_name,
    "json_special_name": _kp_json_special_name,
}

META = {
    "technique": "Hypothesis-generated trees and operation compositions against a nested-list tree model (tips, bipartitions, correctly rounded path-length matrix); tree distances, same_topology and compare_by_subsets against split/cluster sets and brute-force matching",
    "level_text": "Thousands of generated trees (rooted/unrooted, polytomies, awkward and non-ASCII tip and internal-node names, branch lengths from ints over exponent-notation floats to 24 orders of magnitude within one tree) per run are pushed through compositions of the listed transformations, including round trips through newick / json files; after each step the result is read structurally and compared with the model for tips, bipartitions and every tip-to-tip path length (bit-identical where the operation does no arithmetic, relative 1e-12 otherwise), named internal nodes are looked up again, and the receiver is checked to be untouched. Tree-to-tree distances are checked for symmetry, identity of indiscernibles and against independent set computations (brute-force matching up to 8 tips); same_topology, lin_rajan_moret and compare_by_subsets are cross-checked with the same sets.",
    "level_note": "Trusts the harness tree model (about 120 lines). Exploration bounded to 12 tips (ladders of 30-60 tips in 1/40 of the thorough-tier cases) and 4 operations per composition. XML output is not part of the statement and not exercised.",
    "design_ref": "DESIGN.md section 1, C09",
}
