"""C05 — substitution processes are valid, calibrated Markov processes.

Oracle: algebraic identities evaluated by harness code (numpy) on the rate
matrices Q and transition matrices P that a likelihood function reports, with
the motif probabilities pi taken from the *generated input* (for the
monomer / position-specific monomer models the harness derives the word
distribution from the monomer probabilities by the published product rule),
plus a differential against a harness-written matrix exponential
(uniformisation: Poisson mixture of powers of the non-negative matrix I + Q/mu,
then repeated squaring) and between all exponentiation back-ends.  The
exponentiator classes are also called directly on rate matrices built by the
harness (reversible, general, near-defective).  scipy.linalg.expm is only
consulted to record where it disagrees with the reference (it is wrong by up to
2e-3 on triangular rate matrices with equal diagonal entries).
"""

from __future__ import annotations

import json
import math

import numpy as np
from hypothesis import strategies as st

from vlib.core import HarnessError, Soft, Sub, case_hash, exception_site, raised_in_repo

PROPERTY_ID = "C05"
LEVEL = "exploration"
RULE = (
    "A case of the likelihood-function sub-checks is a substitution model (every registered continuous-time model, or a model "
    "built from generated predicates on the nucleotide, dinucleotide, trinucleotide, protein or codon alphabet (TimeReversible* / "
    "NonReversible* classes, StrandSymmetric, Stationary) with motif-probability model tuple / conditional / monomer / monomers, or "
    "General / GeneralStationary; a third of the codon models use genetic code 2, 4 or 6 (60, 62, 63 sense codons); a quarter of "
    "the built models have the gap motif as a state (model_gaps=True, tuple motif probabilities, usually with the 'indel' predicate)), "
    "optionally rate classes (2-4 bins; gamma or free distribution on 'rate' or on a model parameter; generated bin probabilities "
    "and shape; for free classes generated increments of the <name>_partition in two thirds of the cases; in a third of the cases where "
    "the model has a second parameter it is partitioned across the bins (partitioned_params) with a generated partition), and 1-4 points, each = motif "
    "probabilities (normalised positive weights; plain, one component near 2e-4, or one component near 0.97), all rate "
    "parameters log-uniform in [1e-2, 1e2] (about a quarter of the points: [1e-4, 1e4]; the rest: a third of the parameters exactly at the declared lower bound 1e-6, or at the upper bound 1e6, or each parameter at 1e-6 / 1e6 / moderate), an optional second parameter vector for one edge, and branch lengths s, t "
    "in [0, 5] (0 and tiny values included). For every point Q (calibrated and not) and P for lengths 0, s, t, s+t are read "
    "for every bin under each of the expm settings either, pade, checked, eigen (eigen only on reversible models) and checked against the identities of the "
    "property and against the harness's uniformisation exp(Qt); for models without rate classes get_lengths_as_ens() is compared with the branch length "
    "(stationary processes) or with pi . int_0^t exp(Qs) ds . (-diag Q) computed by the harness (Van Loan block matrix + uniformisation). "
    "A case of the freebins sub-check is a registered nucleotide model with free rate classes (2-4 bins on 'rate' or on a parameter), a generated "
    "3-sequence alignment and 0-60 optimiser evaluations; after optimising, the bin probabilities, multipliers, Q and P reported for every bin and edge are checked "
    "(mean one, ordered, calibration, detailed balance, P = exp(Q * length * rate), ENS = length). A case of the expm sub-check is a harness-built rate matrix (2-8 or 20 states; reversible, "
    "general, or near-defective chain/triangular structure) and a time; all exponentiator classes and the back-ends selected "
    "by ExpDefn are compared with the uniformisation reference. The discrete sub-check optimises BH/DT on a generated gap-free alignment for a few "
    "steps and checks stochasticity of every psub. Non-trivial (freebins) = the optimiser moved the classes off their defaults on non-identical sequences. Non-trivial = unequal motif probabilities, at least one non-default "
    "parameter (or bin structure) and s, t > 0 (expm: n >= 3 and t > 0; discrete: at least one optimisation step on non-identical sequences); distinct = distinct case / point encodings."
)
ASSUMPTIONS = [
    "motif probabilities have every component >= 2e-5 (set_motif_probs adjusts components below 1e-6); the near-degenerate modes put one component near 2e-4 or near 0.97",
    "rate parameters are drawn from [1e-2, 1e2] (moderate) or [1e-4, 1e4] (wide), or a third of them exactly at the declared lower bound 1e-6 and the rest in [1e-2, 1e2] (lower-bound), likewise at the declared upper bound 1e6 (upper-bound), or each at 1e-6 / 1e6 / in [1e-2, 1e2] (mixed-extremes); all inside the declared bounds [1e-6, 1e6]; comparisons of P use tolerances scaled by k = max(1, ||Q t||_inf)",
    "gamma shape in [0.05, 50] (declared lower bound 0.01); bin probabilities >= 0.05 before normalisation",
    "branch lengths in [0, 5] so that s+t stays within the declared upper bound 10",
    "tolerances: Q row sums 1e-10*||Q||, calibration 1e-10, rate mean 1e-10, P row sums 1e-10*k, P entries in [-1e-12, 1+1e-10*k], P(0)=I 1e-12, semigroup 1e-9*k, P vs exp(Qt) 1e-9*k, back-ends pairwise 1e-8*k, piQ 1e-10*||Q||, piP 1e-9*k, detailed balance 1e-10*||Q|| with k = max(1, ||Q t||_inf); for the precision-tested eigen route (checked, either) on non-reversible models the P tolerances are ten times wider (1e-8*k, rows 1e-9*k, P(0)=I 1e-9)",
    "the reference exp(Qt) is the harness's uniformisation + squaring (needs a valid rate matrix, which is checked first); scipy.linalg.expm is not trusted as the oracle because it errs by up to 2e-3 on triangular Q with equal diagonal entries",
    "the unchecked eigen back-end ('eigen', FastExponentiator) is compared with the reference only for time-reversible models (Q similar to a symmetric matrix, diagonalisation well conditioned); on other models nothing is claimed for it (the module documents it as limited to 'not too asymmetric' matrices). 'checked' may raise ArithmeticError/LinAlgError on any model, in which case 'either' must equal 'pade'",
    "stationarity is claimed for TimeReversible*, Empirical protein and GeneralStationary models; detailed balance for TimeReversible* and the empirical protein models (symmetric exchangeabilities)",
    "GeneralStationary may reject a parameter vector with ParameterOutOfBoundsError (documented); such points are skipped, and its parameters are drawn from 10^(+-0.3) to keep most points feasible",
    "rate classes only through ordered_param + distribution, optionally with one further parameter in partitioned_params (WeightedPartitionDefn: 'weighted average of 1.0'); the unordered with_rate/partitioned_params configuration without ordered_param has free, un-normalised rates and is not claimed",
    "free rate classes are moved off their default by a constant rule on the PartitionDefn behind them (set_param_rule('rate_partition' | '<par>_factor_partition' | '<par>_factor_partn_partition', value=increments summing to one, is_constant=True): these names are listed in lf.defn_for and accepted by set_param_rule; observed, not documented) and, in the freebins sub-check, by the documented route of optimising them on an alignment; set_param_rule('rate', bin=...) is refused by the library ('not settable as it is derived from rate_distrib') and is not used. Only what the class docstrings promise is asserted of the multipliers: non-negative, weighted mean one, and non-decreasing for the ordered (Monotonic/Gamma) parameter; the map from partition to multipliers is not asserted",
    "model_gaps=True only with mprob_model='tuple' (the constructor refuses the others) and not for trinucleotide models (125 states exceed the 64 state limit) nor StrandSymmetric (which forces model_gaps=False); the supplied motif probabilities then include the gap motif",
    "a built model's predicate set may be refused by the constructor only as linearly dependent ('Redundancy in predicates', 'equivalent to the overall rate parameter'); any other exception while constructing a registered or built model is a failure; the number of states must equal the harness's table (4/16/64/20 motifs, 61/60/62/63 sense codons for genetic codes 1/2/4/6, 25 gapped dinucleotides, +1 for the gap motif otherwise)",
    "General.get_param_list() returns [] (its parameters are in parameter_order and settable by those names): the harness sets them by parameter_order; nothing is asserted about get_param_list",
    "get_lengths_as_ens is compared only for models without rate classes (with classes and a non-stationary model the observer needs a bin and raises IncompleteScopeError; with a stationary one it returns the lengths) and not for the Stationary class given directed predicates (the class assumes stationarity and returns the lengths); NotImplementedError from time-reversible models with position-specific monomer probabilities is the explicit refusal in _get_motif_probs_by_node_tr; tolerance 1e-8*max(1,||Qt||) + 1e-6*t^2, the second term for the documented shortcut of VonBingIntegratingExponentiator (eigenvalues with |Re| < 1e-6 are integrated as if zero)",
    "TaylorExponentiator is compared only when ||Q t||_inf <= 8 (plain series; cancellation beyond that is inherent), at 1e-9 up to ||Q t|| = 2 where its fixed 21 terms have converged and at 1e-4 beyond (its stopping rule is numpy.allclose)",
    "discrete-time models: alignments without gaps or ambiguity codes; only stochasticity of psubs and of the motif probabilities is claimed",
    "model objects are cached per worker process (construction of codon models takes seconds); a fresh likelihood function is built for every point and expm setting",
]

EXPMS = ["either", "pade", "checked", "eigen"]

# name: (family, number of motif probabilities to supply (0 = fixed by the model), mprob rule, kind, ordered_param candidates)
NAMED = {
    "JC69": ("nuc", 0, "tuple", "rev", []),
    "K80": ("nuc", 0, "tuple", "rev", ["kappa"]),
    "F81": ("nuc", 4, "tuple", "rev", []),
    "HKY85": ("nuc", 4, "tuple", "rev", ["kappa"]),
    "TN93": ("nuc", 4, "tuple", "rev", ["kappa_y"]),
    "GTR": ("nuc", 4, "conditional", "rev", ["A/G"]),
    "GN": ("nuc", 4, "tuple", "general", ["A>G"]),
    "ssGN": ("nuc", 4, "tuple", "general", []),
    "CNFGTR": ("codon", 61, "conditional", "rev", ["omega"]),
    "CNFHKY": ("codon", 61, "conditional", "rev", ["omega", "kappa"]),
    "MG94HKY": ("codon", 4, "monomer", "rev", ["omega", "kappa"]),
    "MG94GTR": ("codon", 4, "monomer", "rev", ["omega"]),
    "GY94": ("codon", 61, "tuple", "rev", ["omega"]),
    "Y98": ("codon", 61, "tuple", "rev", ["omega", "kappa"]),
    "H04G": ("codon", 61, "tuple", "rev", ["omega"]),
    "H04GK": ("codon", 61, "tuple", "rev", ["omega"]),
    "H04GGK": ("codon", 61, "tuple", "rev", ["omega"]),
    "GNC": ("codon", 61, "tuple", "general", ["omega"]),
    "DSO78": ("protein", 20, "tuple", "rev", []),
    "JTT92": ("protein", 20, "tuple", "rev", []),
    "AH96": ("protein", 20, "tuple", "rev", []),
    "AH96_mtmammals": ("protein", 20, "tuple", "rev", []),
    "WG01": ("protein", 20, "tuple", "rev", []),
}
NUC_NAMED = [n for n, v in NAMED.items() if v[0] == "nuc"]
CODON_NAMED = [n for n, v in NAMED.items() if v[0] == "codon"]
PROTEIN_NAMED = [n for n, v in NAMED.items() if v[0] == "protein"]

UNDIRECTED = ["A/C", "A/G", "A/T", "C/G", "C/T", "G/T"]
DIRECTED = [f"{a}>{b}" for a in "ACGT" for b in "ACGT" if a != b]

# base: (family, word length, kind)
BUILT = {
    "TRN": ("nuc", 1, "rev"),
    "NRN": ("nuc", 1, "general"),
    "STN": ("nuc", 1, "general"),  # StationaryQ weighting with directed predicates: not stationary in general
    "GEN": ("nuc", 1, "general"),
    "GST": ("nuc", 1, "stationary"),
    "TRD": ("dinuc", 2, "rev"),
    "NRD": ("dinuc", 2, "general"),
    "TRC": ("codon", 3, "rev"),
    "NRC": ("codon", 3, "general"),
    "SSN": ("nuc", 1, "general"),  # ns_substitution_model.StrandSymmetric (fixed predicates)
    "TRP": ("protein", 1, "rev"),
    "NRP": ("protein", 1, "general"),
    "TRT": ("trinuc", 3, "rev"),
    "NRT": ("trinuc", 3, "general"),
}
# number of sense codons (= states of a codon model) per genetic code id offered by the generator
GC_SENSE = {1: 61, 2: 60, 4: 62, 6: 63}
FAMILY_STATES = {"nuc": 4, "dinuc": 16, "trinuc": 64, "protein": 20}
AA_PAIRS = ["A/G", "C/S", "D/E", "F/Y", "H/Y", "I/L", "I/V", "K/R", "L/M", "N/Q", "S/T", "F/W"]
SSN_PARAMS = ["(A>G | T>C)", "(A>T | T>A)", "(C>G | G>C)", "(C>T | G>A)", "(G>T | C>A)"]
# the constructor's documented refusals that a generated predicate set can legitimately meet (Parametric.__init__):
# linearly dependent predicates.  The generators never produce an always-false / always-true predicate nor an
# unbalanced predicate for a time-reversible class, so those messages (and any other exception) are failures.
_CONSTRUCTOR_REFUSALS = (
    "Redundancy in predicates",
    "equivalent to the overall rate parameter",
)


def n_states(spec):
    """number of states of the model described by a case, from harness tables (checked against the model when executed)"""
    gaps = 1 if spec.get("gaps") else 0
    if spec["kind"] == "named":
        fam = NAMED[spec["name"]][0]
    else:
        fam = BUILT[spec["base"]][0]
    if fam == "codon":
        return GC_SENSE[spec.get("gc", 1)] + gaps
    if fam == "dinuc":
        return 25 if gaps else 16
    return FAMILY_STATES[fam] + gaps

_MODEL_CACHE: dict = {}


# ------------------------------------------------------------------ generators
_DIGIT = st.integers(0, 99)


def _fl(lo, hi):
    # uniform on a 1e6 grid, composed of three small uniform draws: st.floats puts a third of its mass on the low
    # decile and on 'nice' values and st.integers over a wide range four fifths, which makes generated rate matrices
    # far more symmetric (exactly defective, equal rates) than generic ones
    return st.tuples(_DIGIT, _DIGIT, _DIGIT).map(lambda d: lo + (hi - lo) * ((d[0] * 10000 + d[1] * 100 + d[2]) / 999999.0))


@st.composite
def pi_st(draw, n):
    """positive weights; normalised when executed"""
    if n == 0:
        return None
    mode = draw(st.sampled_from(["plain", "plain", "plain", "small", "dominant", "equal"]))
    idx = draw(st.sampled_from(range(n)))
    w = draw(st.lists(_fl(0.05, 1.0), min_size=n, max_size=n))
    return {"mode": mode, "w": w, "idx": idx}


def pi_vector(spec, n=None):
    w = [float(x) for x in spec["w"]]
    if n is not None and len(w) != n:
        raise HarnessError(f"pi spec has {len(w)} weights, {n} needed")
    mode, idx = spec["mode"], spec["idx"] % len(w)
    if mode == "equal":
        w = [1.0] * len(w)
    rest = sum(x for i, x in enumerate(w) if i != idx)
    if mode == "small":
        w[idx] = 2e-4 * rest
    elif mode == "dominant":
        w[idx] = 30.0 * rest
    tot = sum(w)
    return [x / tot for x in w]


@st.composite
def length_st(draw):
    k = draw(st.sampled_from(["zero", "tiny", "long", "mid", "mid", "mid", "mid", "mid", "mid", "mid"]))
    if k == "zero":
        return 0.0
    if k == "tiny":
        return draw(st.sampled_from([1e-9, 1e-6, 1e-3]))
    if k == "long":
        return draw(_fl(2.0, 5.0))
    return draw(_fl(0.01, 2.0))


@st.composite
def point_st(draw, npi, nmono_positions=0):
    # scalars first (see expm_cases)
    prange = draw(st.sampled_from(["moderate", "moderate", "moderate", "moderate", "wide", "wide", "wide", "lower-bound", "lower-bound", "upper-bound", "mixed-extremes"]))
    wide = prange != "moderate"
    lim = 4.0 if wide else 2.0
    s_, t_, u_ = draw(length_st()), draw(length_st()), draw(length_st())
    het = draw(st.sampled_from([True, False, False, False]))
    ndefault = draw(st.sampled_from([0, 0, 0, 1, 3]))
    zero_at = [draw(st.sampled_from(range(14))) for _ in range(ndefault)]
    logp = draw(st.lists(_fl(-lim, lim), min_size=14, max_size=14))
    if prange == "lower-bound":
        # some parameters sit at their declared lower bound 1e-6 (where optimisers of the general models often end)
        at = draw(st.lists(st.sampled_from([True, False, False]), min_size=14, max_size=14))
        logp = [-6.0 if a else (v / 2.0) for a, v in zip(at, logp)]
    elif prange == "upper-bound":
        # ... or at the declared upper bound 1e6
        at = draw(st.lists(st.sampled_from([True, False, False]), min_size=14, max_size=14))
        logp = [6.0 if a else (v / 2.0) for a, v in zip(at, logp)]
    elif prange == "mixed-extremes":
        at = draw(st.lists(st.sampled_from([-6.0, 6.0, None, None]), min_size=14, max_size=14))
        logp = [(v / 2.0) if a is None else a for a, v in zip(at, logp)]
    for k in zero_at:
        logp[k] = 0.0
    pt = {
        "pi": None,
        "logp": logp,
        "wide": wide,
        "prange": prange,
        "s": s_,
        "t": t_,
        "u": u_,
        "het": draw(st.lists(_fl(-lim, lim), min_size=14, max_size=14)) if het else None,
    }
    pt["pi"] = draw(pi_st(npi)) if not nmono_positions else [draw(pi_st(4)) for _ in range(nmono_positions)]
    return pt


@st.composite
def bins_st(draw, ordered_candidates, p_none=0.6):
    if draw(_fl(0, 1)) < p_none:
        return {"n": 1}
    n = draw(st.sampled_from([2, 3, 4]))
    ordered = draw(st.sampled_from(["rate", "rate"] + list(ordered_candidates)))
    dist = draw(st.sampled_from(["gamma", "free"]))
    bp = draw(st.lists(_fl(0.05, 1.0), min_size=n, max_size=n))
    if draw(st.booleans()):
        bp = [1.0] * n
    shape = 10 ** draw(_fl(math.log10(0.05), math.log10(50.0)))
    out = {"n": n, "ordered": ordered, "dist": dist, "bprobs": bp, "shape": shape}
    # the increments of a free (monotonic) rate-class distribution: default partition or generated
    if dist == "free" and draw(st.sampled_from([True, True, False])):
        out["partition"] = draw(st.lists(_fl(0.02, 1.0), min_size=n, max_size=n))
    # a second parameter partitioned across the bins without order (WeightedPartitionDefn)
    others = [c for c in ordered_candidates if c != ordered]
    if others and draw(st.sampled_from([True, False, False])):
        out["extra"] = draw(st.sampled_from(others))
        if draw(st.sampled_from([True, True, False])):
            out["extra_partition"] = draw(st.lists(_fl(0.02, 1.0), min_size=n, max_size=n))
    return out


@st.composite
def named_cases(draw, names, npoints, p_nobins=0.6):
    name = draw(st.sampled_from(names))
    fam, npi, rule, kind, ordc = NAMED[name]
    spec = {"kind": "named", "name": name}
    if fam == "codon" and draw(st.sampled_from([True, False, False])):
        spec["gc"] = draw(st.sampled_from([2, 2, 4, 6]))  # non-standard genetic codes: 60, 62, 63 sense codons
    if npi == 61:
        npi = n_states(spec)
    bins = draw(bins_st(ordc, p_nobins))
    default_pi = fam == "protein" and draw(st.sampled_from([True, False, False, False]))
    pts = [draw(point_st(0 if default_pi else npi)) for _ in range(npoints)]
    return {"model": spec, "bins": bins, "points": pts}


@st.composite
def built_cases(draw, bases, npoints):
    base = draw(st.sampled_from(bases))
    fam, wl, kind = BUILT[base]
    preds: list = []
    spec = {"kind": "built", "base": base}
    if fam == "codon" and draw(st.sampled_from([True, False, False])):
        spec["gc"] = draw(st.sampled_from([2, 2, 4, 6]))
    # the gap motif as a state (needs the tuple motif-probability model; 5^3 trinucleotide states exceed the 64 state limit)
    gaps = base not in ("SSN", "TRT", "NRT") and draw(st.sampled_from([True, False, False, False]))
    if base in ("GEN", "GST", "SSN"):
        pass
    elif fam == "protein":
        k = draw(st.sampled_from(range(5)))
        preds = sorted(draw(st.lists(st.sampled_from(AA_PAIRS), min_size=k, max_size=k, unique=True)))
        if kind != "rev":
            flip = draw(st.lists(st.booleans(), min_size=k, max_size=k))
            preds = [(p[2] + ">" + p[0]) if f else (p[0] + ">" + p[2]) for p, f in zip(preds, flip)]
    elif kind == "rev":
        k = draw(st.sampled_from(range(6)))
        preds = sorted(draw(st.lists(st.sampled_from(UNDIRECTED), min_size=k, max_size=k, unique=True)))
        if draw(st.sampled_from([True, False, False, False])) and k <= 4:
            preds = ["kappa"] + [p for p in preds if p not in ("A/G", "C/T")]
    else:
        k = draw(st.sampled_from(range(1, 12)))
        preds = sorted(draw(st.lists(st.sampled_from(DIRECTED), min_size=k, max_size=k, unique=True)))
    if wl == 2 and draw(st.booleans()):
        preds = preds + [draw(st.sampled_from(["CG/", "CG>", "AT/"]))] if kind != "rev" else preds + [draw(st.sampled_from(["CG/", "AT/"]))]
    if fam == "codon" and draw(st.sampled_from([True, True, True, False])):
        preds = preds + ["omega"]
    if wl == 1:
        mprob = draw(st.sampled_from(["tuple", "conditional"])) if base in ("TRN", "STN") else "tuple"
    else:
        mprob = draw(st.sampled_from(["tuple", "conditional", "monomer", "monomers"]))
    if gaps:
        spec["gaps"] = True
        mprob = "tuple"
        if base not in ("GEN", "GST") and draw(st.sampled_from([True, True, True, False])):
            preds = preds + ["indel"]
    nwords = n_states(spec)
    if mprob == "monomer":
        npi, npos = 4, 0
    elif mprob == "monomers":
        npi, npos = 0, wl
    else:
        npi, npos = nwords, 0
    # (the dinucleotide context predicates are registered under a different label than the string that builds them)
    plain = [p for p in preds if p not in ("CG/", "CG>", "AT/")]
    ordc = [p for p in preds if p in ("kappa", "omega", "indel")] or plain[:1]
    if base == "SSN":
        ordc = SSN_PARAMS[:2]
    elif len(ordc) == 1 and len(preds) > 1:
        # a second candidate so that one parameter can be ordered and another partitioned
        ordc = ordc + [p for p in plain if p not in ordc][:1]
    if base in ("GEN", "GST"):
        bins = {"n": 1}
    else:
        bins = draw(bins_st(ordc, 0.75))
    pts = [draw(point_st(npi, npos)) for _ in range(npoints)]
    spec.update({"preds": preds, "mprob": mprob})
    return {"model": spec, "bins": bins, "points": pts}


def nuc_cases():
    return st.one_of(named_cases(NUC_NAMED, 1), named_cases(NUC_NAMED, 1), built_cases(["TRN", "TRN", "NRN", "NRN", "STN", "STN", "GEN", "GEN", "GST", "GST", "SSN"], 1))


def dinuc_cases():
    return built_cases(["TRD", "TRD", "NRD"], 2)


def codon_cases():
    return st.one_of(named_cases(CODON_NAMED, 4, 0.8), named_cases(CODON_NAMED, 4, 0.8), built_cases(["TRC", "TRC", "NRC"], 4))


def protein_cases():
    return st.one_of(named_cases(PROTEIN_NAMED, 2, 0.7), built_cases(["TRP", "TRP", "NRP"], 2))


def trinuc_cases():
    return built_cases(["TRT", "TRT", "NRT"], 2)


# --------------------------------------------------------------- model set-up
def _model_kwargs(bins):
    if bins["n"] == 1:
        return {}
    kw = {"ordered_param": bins["ordered"], "distribution": bins["dist"]}
    if bins.get("extra"):
        kw["partitioned_params"] = [bins["extra"]]
    return kw


def get_sm(spec, bins):
    """returns (model, info) ; models are cached per process. Raises what the constructor raises."""
    import cogent3
    from cogent3.core import moltype
    from cogent3.evolve import ns_substitution_model as ns
    from cogent3.evolve import substitution_model as sub

    kw = _model_kwargs(bins)
    key = json.dumps([spec, kw], sort_keys=True)
    if key in _MODEL_CACHE:
        return _MODEL_CACHE[key]
    if spec["kind"] == "named":
        if spec.get("gc"):
            kw["gc"] = spec["gc"]
        sm = cogent3.get_model(spec["name"], **kw)
        fam, npi, rule, kind, _ = NAMED[spec["name"]]
        info = {"family": fam, "rule": rule, "kind": kind, "fixed_pi": npi == 0, "label": spec["name"]}
    else:
        base = spec["base"]
        fam, wl, kind = BUILT[base]
        preds = list(spec["preds"])
        mk = dict(kw)
        mk["mprob_model"] = spec["mprob"]
        mk["model_gaps"] = bool(spec.get("gaps"))
        if spec.get("gaps"):
            mk["recode_gaps"] = False
        if spec.get("gc"):
            mk["gc"] = spec["gc"]
        if base == "TRN":
            sm = sub.TimeReversibleNucleotide(predicates=preds, **mk)
        elif base == "NRN":
            sm = ns.NonReversibleNucleotide(predicates=preds, **mk)
        elif base == "STN":
            sm = sub.Stationary(moltype.DNA.alphabet, predicates=preds, **mk)
        elif base == "GEN":
            sm = ns.General(moltype.DNA.alphabet, **mk)
        elif base == "GST":
            sm = ns.GeneralStationary(moltype.DNA.alphabet, **mk)
        elif base == "TRD":
            sm = sub.TimeReversibleDinucleotide(predicates=preds, **mk)
        elif base == "NRD":
            sm = ns.NonReversibleDinucleotide(predicates=preds, **mk)
        elif base == "TRC":
            sm = sub.TimeReversibleCodon(predicates=preds, **mk)
        elif base == "NRC":
            sm = ns.NonReversibleCodon(predicates=preds, **mk)
        elif base == "SSN":
            sm = ns.StrandSymmetric(**mk)
        elif base == "TRP":
            sm = sub.TimeReversibleProtein(predicates=preds, **mk)
        elif base == "NRP":
            sm = ns.NonReversibleProtein(predicates=preds, **mk)
        elif base == "TRT":
            sm = sub.TimeReversibleTrinucleotide(predicates=preds, **mk)
        elif base == "NRT":
            sm = ns.NonReversibleTrinucleotide(predicates=preds, **mk)
        else:
            raise HarnessError(f"unknown base {base}")
        info = {"family": fam, "rule": spec["mprob"], "kind": kind, "fixed_pi": False, "label": base}
    info["gaps"] = bool(spec.get("gaps"))
    info["gc"] = spec.get("gc", 1)
    # names of the rate-matrix parameters (General keeps them in parameter_order, its get_param_list() is empty)
    info["params"] = sorted(sm.get_param_list()) or sorted(getattr(sm, "parameter_order", []))
    info["empirical"] = isinstance(sm, sub.Empirical)
    info["stationary_class"] = isinstance(sm, sub.Stationary)
    info["states"] = len(sm.get_alphabet())
    _MODEL_CACHE[key] = (sm, info)
    return sm, info


def word_probs(rule, words, monomers_order, pi_in):
    """the model's word distribution from the supplied probabilities, by the published rule:
    tuple/conditional - the supplied word probabilities; monomer - normalised product of monomer
    probabilities; monomers - normalised product of position-specific monomer probabilities"""
    if rule in ("tuple", "conditional"):
        return np.array(pi_in, float)
    if rule == "monomer":
        m = dict(zip(monomers_order, pi_in))
        w = np.array([math.prod(m[c] for c in word) for word in words])
        return w / w.sum()
    if rule == "monomers":
        ms = [dict(zip(monomers_order, p)) for p in pi_in]
        w = np.array([math.prod(ms[k][c] for k, c in enumerate(word)) for word in words])
        return w / w.sum()
    raise HarnessError(f"unknown mprob rule {rule}")


def ref_expm(Q, t):
    """exp(Q t) of a rate matrix by uniformisation (a Poisson mixture of powers of the non-negative matrix
    I + Q/mu: no cancellation) on t / 2^j followed by j squarings of a stochastic matrix.  Used instead of
    scipy.linalg.expm as the reference because scipy loses up to 2e-3 on triangular Q with equal diagonal entries."""
    A = np.asarray(Q, float) * float(t)
    n = A.shape[0]
    mu = float(np.max(-np.diag(A))) if n else 0.0
    if not mu > 0.0:
        return np.eye(n)
    j = max(0, int(math.ceil(math.log2(mu / 8.0)))) if mu > 8.0 else 0
    A = A / 2.0**j
    mu = mu / 2.0**j
    M = np.eye(n) + A / mu
    M[M < 0] = 0.0  # only rounding residue on the diagonal
    w = math.exp(-mu)
    term = np.eye(n)
    P = w * term
    k = 0
    while not (k > mu and w < 1e-20) and k < 400:
        k += 1
        w *= mu / k
        term = term @ M
        P = P + w * term
    for _ in range(j):
        P = P @ P
    return P


def ref_ens(pi, Q, t):
    """expected number of substitutions on a branch of length t started from pi: pi . int_0^t exp(Qs) ds . (-diag Q),
    read off the exponential of the augmented matrix [[Q, r], [0, 0]] (r = -diag Q >= 0; Van Loan), which has
    non-negative off-diagonals so the uniformisation series has no cancellation"""
    n = Q.shape[0]
    A = np.zeros((n + 1, n + 1))
    A[:n, :n] = Q
    A[:n, n] = -np.diag(Q)
    return float(np.asarray(pi, float) @ ref_expm(A, t)[:n, n])


def _eig_condition(Q):
    """circumstance tag: is the eigenvector matrix of Q ill conditioned (the integrating eigen route then loses digits)"""
    try:
        c = float(np.linalg.cond(np.linalg.eig(np.asarray(Q, float))[1]))
    except np.linalg.LinAlgError:
        c = math.inf
    return "ill-conditioned-eigenvectors" if not c <= 1e6 else "well-conditioned"


def _norm_inf(m):
    return float(np.abs(m).sum(axis=1).max())


def _arr(x):
    return np.array(getattr(x, "array", x), dtype=float)


# ------------------------------------------------------------------- execute
def exec_lf(case) -> Soft:
    s = Soft("C05/")
    spec, bins = case["model"], case["bins"]
    try:
        sm, info = get_sm(spec, bins)
    except HarnessError:
        raise
    except Exception as e:  # noqa: BLE001
        if not raised_in_repo(e):
            raise
        if spec["kind"] == "built" and isinstance(e, ValueError) and any(m in str(e) for m in _CONSTRUCTOR_REFUSALS):
            # documented constructor rejections of a user's predicate set (redundant predicates, unbalanced reversible predicates)
            s.cls("model-rejected:" + type(e).__name__)
            return s
        # a registered model, or a generated configuration the constructors are documented to accept, must build
        s.fail(f"construct-model/{spec['kind']}/raises:{type(e).__name__}@{exception_site(e)}", f"{spec}: {type(e).__name__}: {e}")
        return s
    s.cls("family:" + info["family"], "model:" + info["label"], "mprob:" + info["rule"], "kind:" + info["kind"])
    s.cls("gaps:modelled" if info["gaps"] else "gaps:no", f"gc:{info['gc']}")
    # states = the alphabet's motifs (sense codons of the chosen genetic code for codon models) + the gap motif when modelled
    if not s.check(info["states"] == n_states(spec), "model/state-count", f"{spec}: {info['states']} states, expected {n_states(spec)}"):
        return s
    if bins["n"] > 1:
        s.cls("partition:generated" if bins.get("partition") else "partition:default")
        if bins.get("extra"):
            s.cls("partitioned-param:" + ("generated" if bins.get("extra_partition") else "default"))
    s.cls("bins:1" if bins["n"] == 1 else f"bins:{bins['dist']}-{'rate' if bins['ordered'] == 'rate' else 'param'}")
    s.evals = 0
    for pt in case["points"]:
        if run_point(s, sm, info, bins, pt):
            if s.nontrivial:  # further non-trivial points of the same case count as distinct sub-cases
                s.extra_nontrivial.append(case_hash([spec, bins, pt]))
            s.nontrivial = True
        s.evals += 1
    s.evals = max(1, s.evals)
    return s


_REFUSED = "refused"  # set_expm evaluated the matrices eagerly and the eigen precision test raised


def _pval(info, logv):
    # GeneralStationary solves one rate per column from the others and rejects most vectors far from equal rates
    return 10.0 ** (logv * 0.05) if info["kind"] == "stationary" else 10.0**logv


def _build_lf(s, sm, info, bins, pt, expm, pi_in, words, mono):
    """fresh likelihood function with everything set as constants; None when a documented rejection occurred"""
    import cogent3
    from cogent3.maths.optimisers import ParameterOutOfBoundsError

    allowed = (ParameterOutOfBoundsError,) if info["kind"] == "stationary" else ()
    tree = cogent3.make_tree("(a:1.0,b:1.0,c:1.0,z:1.0,d:1.0)")
    kw = {} if bins["n"] == 1 else {"bins": bins["n"]}
    ok, lf = s.call("make_likelihood_function", sm.make_likelihood_function, tree, **kw)
    if not ok:
        return None
    if pi_in is not None:
        if info["rule"] in ("tuple", "conditional"):
            arg = dict(zip(words, pi_in))
        elif info["rule"] == "monomer":
            arg = dict(zip(mono, pi_in))
        else:  # monomers: supplied as the product word distribution
            arg = dict(zip(words, word_probs("monomers", words, mono, pi_in)))
        ok, _ = s.call(f"set_motif_probs/{info['rule']}", lf.set_motif_probs, arg, allowed=allowed)
        if not ok:
            return None
    names = info["params"]
    for k, nm in enumerate(names):
        ok, _ = s.call("set_param_rule/param", lf.set_param_rule, nm, value=_pval(info, pt["logp"][k % 14]), is_constant=True, allowed=allowed)
        if not ok:
            return None
    if pt["het"] is not None:
        for k, nm in enumerate(names):
            ok, _ = s.call("set_param_rule/param-edge", lf.set_param_rule, nm, edge="d", value=_pval(info, pt["het"][k % 14]), is_constant=True, allowed=allowed)
            if not ok:
                return None
    lengths = {"a": pt["s"], "b": pt["t"], "c": pt["s"] + pt["t"], "z": 0.0, "d": pt["u"]}
    for e, v in lengths.items():
        ok, _ = s.call("set_param_rule/length", lf.set_param_rule, "length", edge=e, value=float(v), is_constant=True, allowed=allowed)
        if not ok:
            return None
    if bins["n"] > 1:
        bp = np.array(bins["bprobs"], float)
        bp = bp / bp.sum()
        ok, _ = s.call("set_param_rule/bprobs", lf.set_param_rule, "bprobs", value=bp, is_constant=True, allowed=allowed)
        if not ok:
            return None
        if bins["dist"] == "gamma":
            pn = "rate_shape" if bins["ordered"] == "rate" else f"{bins['ordered']}_factor_shape"
            ok, _ = s.call("set_param_rule/shape", lf.set_param_rule, pn, value=float(bins["shape"]), is_constant=True, allowed=allowed)
            if not ok:
                return None
        elif bins.get("partition"):
            # free (monotonic) rate classes away from the default increments
            pn = "rate_partition" if bins["ordered"] == "rate" else f"{bins['ordered']}_factor_partition"
            part = np.array(bins["partition"], float)
            ok, _ = s.call("set_param_rule/partition", lf.set_param_rule, pn, value=part / part.sum(), is_constant=True, allowed=allowed)
            if not ok:
                return None
        if bins.get("extra") and bins.get("extra_partition"):
            part = np.array(bins["extra_partition"], float)
            ok, _ = s.call("set_param_rule/partition", lf.set_param_rule, f"{bins['extra']}_factor_partn_partition", value=part / part.sum(), is_constant=True, allowed=allowed)
            if not ok:
                return None
    from numpy.linalg import LinAlgError

    if expm == "checked" or (expm == "eigen" and info["kind"] != "rev"):
        # the precision test may refuse (documented); unchecked eigen is not claimed off the reversible models
        allowed = allowed + (ArithmeticError, LinAlgError)
    ok, err = s.call(f"set_expm/{expm}", lf.set_expm, expm, allowed=allowed)
    if not ok:
        return _REFUSED if isinstance(err, (ArithmeticError, LinAlgError)) and isinstance(err, allowed or ()) else None
    return lf


def run_point(s: Soft, sm, info, bins, pt) -> bool:
    """all clauses for one parameter point; returns whether the point is non-trivial"""
    from cogent3.maths.optimisers import ParameterOutOfBoundsError
    from numpy.linalg import LinAlgError

    words = [str(w) for w in sm.get_alphabet()]
    mono = [str(m) for m in sm.moltype.alphabet] if info["rule"] in ("monomer", "monomers") else None
    n = len(words)
    rule, kind = info["rule"], info["kind"]
    oob = (ParameterOutOfBoundsError,) if kind == "stationary" else ()

    # ---- the supplied motif probabilities and the word distribution they imply
    if isinstance(pt["pi"], list):
        pi_in = [pi_vector(p, 4) for p in pt["pi"]]
        pmode = pt["pi"][0]["mode"]
    elif pt["pi"] is None:
        pi_in, pmode = None, "model-default"
    else:
        pi_in = pi_vector(pt["pi"], 4 if rule == "monomer" else n)
        pmode = pt["pi"]["mode"]
    s.cls("pi:" + pmode, "params:" + pt["prange"], "edge-het" if pt["het"] is not None else "edge-hom")

    lf = _build_lf(s, sm, info, bins, pt, "either", pi_in, words, mono)
    if lf is None or lf is _REFUSED:
        s.cls("point-rejected")
        return
    # the motif probabilities the function reports
    ok, mp = s.call("get_motif_probs", lf.get_motif_probs)
    if not ok:
        return
    if pi_in is None:
        if info["fixed_pi"]:
            pi = np.full(n, 1.0 / n)  # JC69 / K80 are defined with equal frequencies
            got = _arr(mp)
            s.check(np.allclose(got, pi, rtol=0, atol=1e-12), "mprobs/equal-frequency-model", f"{info['label']}: reported {got}")
        else:
            d = mp.to_dict()
            pi = np.array([d[w] for w in words], float)  # model's own default frequencies (protein)
    else:
        pi = word_probs(rule, words, mono, pi_in)
        if rule in ("tuple", "conditional"):
            d = mp.to_dict()
            got = np.array([d[w] for w in words], float)
            s.check(np.allclose(got, pi, rtol=0, atol=1e-9), f"mprobs/roundtrip/{rule}", f"{info['label']}: max diff {np.abs(got - pi).max():.3e}")
        elif rule == "monomer":
            d = mp.to_dict()
            got = np.array([d[m] for m in mono], float)
            s.check(np.allclose(got, pi_in, rtol=0, atol=1e-9), "mprobs/roundtrip/monomer", f"{info['label']}: got {got} want {pi_in}")
        else:
            # position specific: the function must report the positional marginals of the supplied word distribution
            for k in range(len(pi_in)):
                want = np.array([sum(p for w, p in zip(words, pi) if w[k] == m) for m in mono])
                dk = mp[str(k)].to_dict() if isinstance(mp, dict) and str(k) in mp else None
                if dk is None:
                    s.fail("mprobs/roundtrip/monomers", f"no entry for position {k} in {type(mp).__name__}")
                    break
                got = np.array([dk[m] for m in mono], float)
                s.check(np.allclose(got, want, rtol=0, atol=1e-9), "mprobs/roundtrip/monomers", f"position {k}: got {got} want {want}")
            # and the word distribution used for calibration is the normalised product of those marginals
            margs = [[sum(p for w, p in zip(words, pi) if w[k] == m) for m in mono] for k in range(len(pi_in))]
            pi = word_probs("monomers", words, mono, margs)
    if not (abs(pi.sum() - 1) < 1e-9 and (pi > 0).all()):
        raise HarnessError("harness word distribution invalid")

    bnames = [f"bin{i}" for i in range(bins["n"])] if bins["n"] > 1 else [None]
    lengths = {"a": pt["s"], "b": pt["t"], "c": pt["s"] + pt["t"], "z": 0.0, "d": pt["u"]}
    groups = {"a": ["a", "b", "c", "z"]}
    if pt["het"] is not None and info["params"]:
        groups["d"] = ["d"]
    else:
        groups["a"].append("d")

    # ---- rate classes
    rates = {None: 1.0}
    if bins["n"] > 1:
        bp = np.array(bins["bprobs"], float)
        bp = bp / bp.sum()
        ok, gbp = s.call("get_param_value/bprobs", lf.get_param_value, "bprobs")
        if ok:
            s.check(np.allclose(np.array(gbp, float), bp, rtol=0, atol=1e-12), "rates/bprobs-roundtrip", f"got {gbp} want {bp}")
        pname = "rate" if bins["ordered"] == "rate" else f"{bins['ordered']}_factor"
        vals = []
        for b in bnames:
            ok, r = s.call(f"get_param_value/{'rate' if pname == 'rate' else 'factor'}", lf.get_param_value, pname, bin=b)
            if not ok:
                return
            vals.append(float(r))
        vals = np.array(vals)
        tag = f"{bins['dist']}-{'rate' if pname == 'rate' else 'param'}"
        s.check(np.isfinite(vals).all() and (vals >= 0).all(), f"rates/non-negative/{tag}", f"multipliers {vals}")
        s.check(abs(float((bp * vals).sum()) - 1.0) <= 1e-10, f"rates/mean-one/{tag}", f"sum(bprob*multiplier) = {(bp * vals).sum()!r}; bprobs {bp}, multipliers {vals}")
        if bins["dist"] == "free":
            # MonotonicDefn: "an ordered array of floats with weighted average of 1.0"
            s.check(bool((np.diff(vals) >= -1e-12).all()), f"rates/monotonic/{tag}", f"multipliers {vals}")
        if pname == "rate":
            rates = dict(zip(bnames, vals))
        else:
            rates = {b: 1.0 for b in bnames}
        if bins.get("extra"):
            # a parameter partitioned across the bins without order: WeightedPartitionDefn, "weighted average of 1.0"
            ev = []
            for b in bnames:
                ok, r = s.call("get_param_value/factor", lf.get_param_value, f"{bins['extra']}_factor", bin=b)
                if not ok:
                    return
                ev.append(float(r))
            ev = np.array(ev)
            s.check(np.isfinite(ev).all() and (ev >= 0).all(), "rates/non-negative/partitioned-param", f"multipliers {ev}")
            s.check(abs(float((bp * ev).sum()) - 1.0) <= 1e-10, "rates/mean-one/partitioned-param", f"sum(bprob*multiplier) = {(bp * ev).sum()!r}; bprobs {bp}, multipliers {ev}")
    q_per_bin = bins["n"] > 1 and (bins["ordered"] != "rate" or bool(bins.get("extra")))

    # ---- Q
    Qs = {}
    q_valid = True  # the reference exp(Qt) is only defined for a valid rate matrix
    for g, edges in groups.items():
        for b in bnames if q_per_bin else [None]:
            kw = {} if b is None else {"bin": b}
            ok, Q = s.call("get_rate_matrix_for_edge", lf.get_rate_matrix_for_edge, g, calibrated=True, allowed=oob, **kw)
            if not ok:
                s.cls("point-rejected")
                return
            Q = _arr(Q)
            if Q.shape != (n, n) or not np.isfinite(Q).all():
                s.fail("Q/finite", f"{info['label']}: shape {Q.shape}, finite {np.isfinite(Q).all()}")
                return
            nq = _norm_inf(Q)
            off = Q - np.diag(np.diag(Q))
            if not (np.abs(Q.sum(axis=1)).max() <= 1e-10 * max(1.0, nq) and off.min() >= 0.0):
                q_valid = False
            s.check(np.abs(Q.sum(axis=1)).max() <= 1e-10 * max(1.0, nq), "Q/row-sums-zero", f"{info['label']}: max |row sum| {np.abs(Q.sum(axis=1)).max():.3e}, ||Q|| {nq:.3e}")
            s.check(off.min() >= 0.0, "Q/off-diagonal-non-negative", f"{info['label']}: min off-diagonal {off.min():.3e}")
            s.check((np.diag(Q) <= 0).all(), "Q/diagonal-non-positive", f"{info['label']}: max diagonal {np.diag(Q).max():.3e}")
            cal = -float((pi * np.diag(Q)).sum())
            s.check(abs(cal - 1.0) <= 1e-10, f"Q/calibration/{rule}", f"{info['label']}: -sum(pi_i q_ii) = {cal!r}")
            if kind in ("rev", "stationary"):
                r = np.abs(pi @ Q).max()
                s.check(r <= 1e-10 * max(1.0, nq), f"stationary/piQ/{rule}", f"{info['label']}: max |pi Q| {r:.3e}")
            if kind == "rev":
                F = pi[:, None] * Q
                r = np.abs(F - F.T).max()
                s.check(r <= 1e-10 * max(1.0, nq), f"reversible/detailed-balance/{rule}", f"{info['label']}: max |pi_i q_ij - pi_j q_ji| {r:.3e}")
            for bb in bnames if b is None else [b]:
                Qs[(g, bb)] = Q
    # expected substitutions per unit branch length over the rate classes
    if bins["n"] > 1:
        tot = sum(bp[i] * rates[b] * -float((pi * np.diag(Qs[("a", b)])).sum()) for i, b in enumerate(bnames))
        s.check(abs(tot - 1.0) <= 1e-9, f"rates/expected-substitutions-per-length/{bins['dist']}", f"{info['label']}: sum_b bprob_b rate_b (-sum pi_i q_ii) = {tot!r}")

    # ---- branch length = expected number of substitutions (get_lengths_as_ens; the root of the star tree has the
    # supplied distribution, so ENS(e) = pi . int_0^t exp(Qs) ds . (-diag Q); equal to t when pi is stationary)
    if bins["n"] == 1 and q_valid and not (info["stationary_class"] and kind == "general"):
        # _get_motif_probs_by_node_tr raises NotImplementedError for position-specific monomer probabilities (explicit refusal)
        ens_allowed = oob + ((NotImplementedError,) if (kind == "rev" and rule == "monomers") else ())
        ens_tag = "monomer-probs" if (rule in ("monomer", "monomers") and not info["stationary_class"]) else "word-probs"
        ok, ens = s.call(f"get_lengths_as_ens/{ens_tag}", lf.get_lengths_as_ens, allowed=ens_allowed)
        if ok:
            for g, edges in groups.items():
                Q = Qs[(g, None)]
                for e in edges:
                    t = float(lengths[e])
                    got = ens.get(e) if hasattr(ens, "get") else None
                    if got is None or not np.isfinite(got):
                        s.fail("ens/finite", f"{info['label']} edge {e}: {got!r}")
                        continue
                    ke = max(1.0, _norm_inf(Q) * t)
                    if kind in ("rev", "stationary"):
                        etag = "stationary-class" if info["stationary_class"] else "stationary-integrated"
                        s.check(abs(float(got) - t) <= 1e-8 * ke + 1e-6 * t * t, f"ens/equals-length/{etag}", f"{info['label']} edge {e}: ENS {got!r}, length {t!r}")
                    else:
                        want = ref_ens(pi, Q, t)
                        s.check(abs(float(got) - want) <= 1e-8 * ke + 1e-6 * t * t, f"ens/equals-integral/general/{_eig_condition(Q)}", f"{info['label']} edge {e} length {t!r} ||Qt|| {ke:.3g}: ENS {got!r}, pi.int exp(Qs)ds.(-diag Q) = {want!r}")
            s.cls("ens:" + ("trivial" if info["stationary_class"] else "integrated"))

    # ---- uncalibrated Q: documented as Q * length (* bin rate), expm of which is the psub
    for g, edges in groups.items():
        e = edges[1] if len(edges) > 1 else edges[0]
        for b in bnames:
            kw = {} if b is None else {"bin": b}
            ok, Qu = s.call("get_rate_matrix_for_edge/uncalibrated", lf.get_rate_matrix_for_edge, e, calibrated=False, **kw)
            if not ok:
                continue
            want = Qs[(g, b)] * lengths[e] * rates[b]
            tagq = "rate-bins" if (b is not None and bins["ordered"] == "rate") else "plain"
            s.check(np.allclose(_arr(Qu), want, rtol=1e-10, atol=1e-12), f"Q-uncalibrated/equals-Q-times-distance/{tagq}", f"{info['label']} edge {e} bin {b}: max diff {np.abs(_arr(Qu) - want).max():.3e} (length {lengths[e]}, rate {rates[b]})")

    # ---- P under every back-end
    reference = {}
    for (g, b), Q in Qs.items():
        for e in groups[g]:
            reference[(e, b)] = ref_expm(Q, lengths[e] * rates[b])
    scale = {(e, b): max(1.0, _norm_inf(Qs[(g, b)]) * lengths[e] * rates[b]) for (g, b) in Qs for e in groups[g]}
    eye = np.eye(n)
    results = {}
    for expm in EXPMS:
        if expm == "eigen" and kind != "rev":
            continue  # unchecked eigen is documented as limited to 'not too asymmetric' Q: nothing is claimed
        if expm == "either":
            lfx = lf
        else:
            lfx = _build_lf(s, sm, info, bins, pt, expm, pi_in, words, mono)
            if lfx is None:
                continue
            if lfx is _REFUSED:
                if expm == "checked":
                    s.cls("checked-raised")
                    results[expm] = ({}, True)
                continue
        # eigen without the precision test is only claimed on reversible models; the precision-tested eigen
        # route on non-reversible models gets the looser back-end tolerance and its own signature family
        tol = None if (expm == "eigen" and kind != "rev") else (1e-9 if (expm == "pade" or kind == "rev") else 1e-8)
        accurate = tol is not None
        fam = "P" if (expm == "pade" or kind == "rev") else "P-eigen-on-general-model"
        raised = False
        Ps = {}
        for (e, b) in reference:
            kw = {} if b is None else {"bin": b}
            allowed = (ArithmeticError, LinAlgError) if (expm == "checked" or (expm == "eigen" and kind != "rev")) else ()
            ok, P = s.call(f"get_psub_for_edge/{expm}", lfx.get_psub_for_edge, e, allowed=allowed, **kw)
            if not ok:
                raised = raised or isinstance(P, allowed or ())
                continue
            P = _arr(P)
            if P.shape != (n, n) or not np.isfinite(P).all():
                s.fail(f"P/finite/{expm}", f"{info['label']}: edge {e}: non-finite entries")
                continue
            Ps[(e, b)] = P
            k = scale[(e, b)]
            what = f"{info['label']} edge {e} bin {b} length {lengths[e]!r} ||Qt|| {k:.3g}"
            if accurate:
                s.check(np.abs(P.sum(axis=1) - 1).max() <= tol * 0.1 * k, f"{fam}/row-sums-one/{expm}", f"{what}: max |row sum - 1| {np.abs(P.sum(axis=1) - 1).max():.3e}")
                s.check(P.min() >= -1e-12 and P.max() <= 1 + 1e-10 * k, f"{fam}/entries-in-unit-interval/{expm}", f"{what}: min {P.min():.3e} max-1 {P.max() - 1:.3e}")
            if e == "z":
                s.check(np.abs(P - eye).max() <= (1e-12 if fam == "P" else 1e-9), f"{fam}/identity-at-zero/{expm}", f"{what}: max |P(0) - I| {np.abs(P - eye).max():.3e}")
            if accurate and q_valid:
                r = np.abs(P - reference[(e, b)]).max()
                s.check(r <= tol * k, f"{fam}/equals-expm-Qt/{expm}", f"{what}: max |P - exp(Qt)| {r:.3e}")
                if kind in ("rev", "stationary"):
                    r = np.abs(pi @ P - pi).max()
                    s.check(r <= tol * k, f"stationary/piP/{expm}", f"{what}: max |pi P - pi| {r:.3e}")
        if expm == "checked" and raised:
            s.cls("checked-raised")
        if Ps:
            s.cls("backend:" + expm)
        results[expm] = (Ps, raised)
        # semigroup on the time-homogeneous edges a, b, c
        if accurate:
            for b in bnames:
                if all((x, b) in Ps for x in "abc"):
                    r = np.abs(Ps[("a", b)] @ Ps[("b", b)] - Ps[("c", b)]).max()
                    k = scale[("c", b)]
                    s.check(r <= tol * k, f"{fam}/semigroup/{expm}", f"{info['label']} bin {b} s={pt['s']!r} t={pt['t']!r}: max |P(s)P(t) - P(s+t)| {r:.3e}")
    # back-ends agree pairwise
    names = [x for x in EXPMS if x in results]
    for i, x in enumerate(names):
        for y in names[i + 1 :]:
            if kind != "rev" and "eigen" in (x, y):
                continue  # eigen without the precision test is only claimed on reversible models
            for kk in results[x][0]:
                if kk in results[y][0]:
                    r = np.abs(results[x][0][kk] - results[y][0][kk]).max()
                    s.check(r <= 1e-8 * scale[kk], f"{'P' if kind == 'rev' else 'P-eigen-on-general-model'}/back-ends-agree/{x}-{y}", f"{info['label']} edge {kk[0]} bin {kk[1]}: max diff {r:.3e}")
    if "checked" in results and results["checked"][1] and "either" in results and "pade" in results and len(Qs) == len(bnames) and not q_per_bin:
        # a single Q and 'checked' refused its eigen decomposition, so 'either' must have fallen back to Pade
        # (with several Q matrices the fallback is per matrix and the refusal does not say which one failed)
        for kk in results["either"][0]:
            if kk in results["pade"][0] and kk not in results["checked"][0]:
                r = np.abs(results["either"][0][kk] - results["pade"][0][kk]).max()
                s.check(r <= 1e-12, "P/either-falls-back-to-pade", f"{info['label']} edge {kk[0]}: 'checked' raised but either differs from pade by {r:.3e}")

    # ---- all-matrices observers: exp of the uncalibrated matrices are the psubs
    if bins["n"] > 1 and bins["ordered"] == "rate":
        ok, allq = s.call("get_all_rate_matrices/uncalibrated", lf.get_all_rate_matrices, calibrated=False)
        ok2, allp = s.call("get_all_psubs", lf.get_all_psubs)
        if ok and ok2:
            qk = {tuple(str(x) for x in k): v for k, v in allq.items()}
            pk = {tuple(str(x) for x in k): v for k, v in allp.items()}
            s.check(set(qk) == set(pk) and len(qk) == len(bnames) * 5, "all-matrices/keys", f"rate matrices keyed {sorted(qk)[:3]}…, psubs keyed {sorted(pk)[:3]}…")
            for k in sorted(set(qk) & set(pk)):
                b, e = k if k[0].startswith("bin") else (k[1], k[0])
                if (e, b) not in scale:
                    continue
                r = np.abs(ref_expm(_arr(qk[k]), 1.0) - _arr(pk[k])).max()
                s.check(r <= 1e-9 * scale[(e, b)], "all-matrices/expm-of-uncalibrated-Q-is-psub", f"{info['label']} {k}: max diff {r:.3e}")

    npar = len(info["params"])
    default_params = npar > 0 and all(v == 0.0 for v in pt["logp"][:npar])  # models without parameters: vacuous
    unequal = pi_in is None and not info["fixed_pi"] or (pi_in is not None and pmode != "equal")
    return bool(unequal and (not default_params or bins["n"] > 1) and pt["s"] > 0 and pt["t"] > 0)


# ------------------------------------------------- direct exponentiator check
@st.composite
def expm_cases(draw):
    # scalars are drawn before the long lists: Hypothesis degrades draws that follow large amounts of data
    kind = draw(st.sampled_from(["reversible", "reversible", "general", "general", "chain", "triangular", "triangular", "nearly-triangular"]))
    if kind in ("chain", "triangular"):
        # the eigen decomposition of these is accepted by the precision test mostly for 3-5 states
        n = draw(st.sampled_from([3, 3, 3, 4, 4, 5, 6, 8, 20]))
    else:
        n = draw(st.sampled_from([2, 3, 4, 4, 5, 6, 8, 20]))
    eps = 0.0 if draw(st.sampled_from([True, False, False, False, False])) else 10 ** draw(_fl(-13.0, -3.0))
    t = draw(length_st())
    speed = 10 ** draw(_fl(-1.0, 1.0))
    w = draw(st.lists(_fl(0.05, 1.0), min_size=n, max_size=n))
    m = n * n
    logr = draw(st.lists(_fl(-2.0, 2.0), min_size=m, max_size=m))
    return {"n": n, "kind": kind, "w": w, "logr": logr, "eps": eps, "t": t, "speed": speed}


def build_q(case):
    n = case["n"]
    w = np.array(case["w"], float)
    pi = w / w.sum()
    R = 10.0 ** np.array(case["logr"], float).reshape(n, n)
    kind = case["kind"]
    if kind == "reversible":
        S = np.triu(R, 1)
        S = S + S.T
        Q = S * pi[None, :]
    elif kind == "general":
        Q = R.copy()
    elif kind == "chain":
        # i -> i+1 at one common rate, tiny back rates: one repeated eigenvalue, defective when eps = 0
        Q = np.zeros((n, n))
        for i in range(n - 1):
            Q[i, i + 1] = 1.0
            Q[i + 1, i] = case["eps"]
    elif kind == "triangular":
        Q = np.triu(R, 1)
        for i in range(n - 1):
            Q[i, i + 1 :] *= 1.0 / Q[i, i + 1 :].sum()  # all leaving rates equal one: repeated eigenvalue -1
        Q = Q + case["eps"] * np.tril(np.ones((n, n)), -1)
    else:  # nearly triangular general matrix
        Q = np.triu(R, 1) + case["eps"] * np.tril(R, -1)
    np.fill_diagonal(Q, 0.0)
    Q = Q - np.diag(Q.sum(axis=1))
    if kind in ("reversible", "general"):
        Q = Q / -float((pi * np.diag(Q)).sum())
    return Q * case["speed"], pi


def exec_expm(case) -> Soft:
    import scipy.linalg
    from cogent3.evolve.substitution_calculation import ExpDefn
    from cogent3.maths import matrix_exponentiation as me
    from cogent3.maths.matrix_exponential_integration import expected_number_subs
    from numpy.linalg import LinAlgError

    s = Soft("C05/expm/")
    Q, pi = build_q(case)
    t = float(case["t"])
    n = case["n"]
    kind = case["kind"]
    k = max(1.0, _norm_inf(Q) * t)
    want = ref_expm(Q, t)
    if np.abs(scipy.linalg.expm(Q * t) - want).max() > 1e-9 * k:
        s.cls("scipy-expm-inaccurate")
    s.cls("kind:" + kind, f"n:{n}", "t:zero" if t == 0 else ("t:tiny" if t < 1e-2 else "t:regular"), "norm:" + ("<1" if k <= 1 else "<10" if k < 10 else ">=10"))
    eig_ok = kind == "reversible"

    def compare(name, P, tol=1e-9):
        P = np.array(P, float)
        if P.shape != (n, n) or not np.isfinite(P).all():
            s.fail(f"{name}/finite", f"{kind} n={n} t={t!r}")
            return
        what = f"{kind} n={n} eps={case['eps']:.3g} t={t!r} ||Qt||={k:.3g}"
        r = np.abs(P - want).max()
        s.check(r <= tol * k, f"{name}/equals-exp-Qt", f"{what}: max diff {r:.3e}")
        r = np.abs(P.sum(axis=1) - 1).max()
        s.check(r <= 0.1 * tol * k, f"{name}/row-sums-one", f"{what}: {r:.3e}")
        s.check(P.min() >= -1e-3 * tol, f"{name}/non-negative", f"{what}: min {P.min():.3e}")
        if t == 0:
            r = np.abs(P - np.eye(n)).max()
            s.check(r <= (1e-12 if tol <= 1e-9 else 1e-9), f"{name}/identity-at-zero", f"{what}: {r:.3e}")

    ok, P = s.call("Pade", lambda: me.PadeExponentiator(Q.copy())(t))
    if ok:
        compare("Pade", P)
        pade = np.array(P, float)
    else:
        pade = None
    ok, P = s.call("Robust", lambda: me.RobustExponentiator(Q.copy())(t))
    if ok:
        compare("Robust", P)
    if _norm_inf(Q) * t <= 8.0:
        ok, P = s.call("Taylor", lambda: me.TaylorExponentiator(Q.copy())(t))
        if ok:
            # the fixed 21 term series has converged to double precision for ||Qt|| <= 2; beyond that the
            # class stops by numpy.allclose (rtol 1e-5), so only that much is claimed
            compare("Taylor", P, tol=1e-9 if _norm_inf(Q) * t <= 2.0 else 1e-4)
        s.cls("taylor")
    if eig_ok:
        ok, P = s.call("Fast", lambda: me.FastExponentiator(Q.copy())(t))
        if ok:
            compare("Fast", P)
        ok, P = s.call("Checked", lambda: me.CheckedExponentiator(Q.copy())(t), allowed=(ArithmeticError, LinAlgError))
        if ok:
            compare("Checked", P)
        ok, P = s.call("SemiSymmetric", lambda: me.SemiSymmetricExponentiator(pi.copy(), Q.copy())(t))
        if ok:
            compare("SemiSymmetric", P)
    # the integral behind get_lengths_as_ens: expected number of substitutions from pi over time t
    ok, got = s.call("expected_number_subs", expected_number_subs, pi.copy(), Q.copy(), t)
    if ok:
        ens = ref_ens(pi, Q, t)
        r = abs(float(got) - ens)
        s.check(r <= 1e-8 * k + 1e-6 * t * t * max(1.0, _norm_inf(Q)), f"ens/equals-integral/{_eig_condition(Q)}", f"{kind} n={n} eps={case['eps']:.3g} t={t!r} ||Qt||={k:.3g}: expected_number_subs {float(got)!r}, pi.int exp(Qs)ds.(-diag Q) = {ens!r}")
    # the back-ends as selected by the likelihood machinery
    for setting in EXPMS:
        ok, make = s.call(f"ExpDefn/{setting}", lambda: ExpDefn.calc(None, setting))
        if not ok:
            continue
        allowed = (ArithmeticError, LinAlgError) if setting in ("checked", "eigen") and not eig_ok else ()
        ok, P = s.call(f"ExpDefn/{setting}", lambda: make(Q.copy())(t), allowed=allowed)
        if not ok:
            if setting == "checked" and isinstance(P, (ArithmeticError, LinAlgError)):
                s.cls("checked-raised")
                ok2, P2 = s.call("ExpDefn/either", lambda: ExpDefn.calc(None, "either")(Q.copy())(t))
                if ok2 and pade is not None:
                    r = np.abs(np.array(P2, float) - pade).max()
                    s.check(r <= 1e-12, "either-falls-back-to-pade", f"{kind} n={n} eps={case['eps']}: 'checked' raised, either differs from Pade by {r:.3e}")
            continue
        if setting == "pade" or eig_ok:
            compare(f"setting-{setting}", P)
        elif setting != "eigen":
            compare(f"eigen-on-general-matrix/setting-{setting}", P, tol=1e-8)
    s.nontrivial = n >= 3 and t > 0
    return s


# ------------------------------------------------------ discrete-time models
@st.composite
def discrete_cases(draw):
    name = draw(st.sampled_from(["BH", "DT", "DT2"]))
    ncol = draw(st.sampled_from(range(6, 41))) * (2 if name == "DT2" else 1)
    seqs = [draw(st.lists(st.sampled_from("ACGT"), min_size=ncol, max_size=ncol)) for _ in range(3)]
    # related sequences: rows 1, 2 copy row 0 except at some columns
    for r in (1, 2):
        keep = draw(st.lists(st.booleans(), min_size=ncol, max_size=ncol))
        seqs[r] = [a if k else c for a, c, k in zip(seqs[0], seqs[r], keep)]
    return {"model": name, "seqs": ["".join(x) for x in seqs], "evals": draw(st.sampled_from([0, 5, 25, 60]))}


def exec_discrete(case) -> Soft:
    import cogent3

    s = Soft("C05/discrete/")
    name = case["model"]
    s.cls("model:" + name, f"evals:{case['evals']}")
    tree = cogent3.make_tree("(a:0.1,b:0.2,c:0.3)")
    key = "discrete:" + name
    if key not in _MODEL_CACHE:
        ok, sm = s.call("get_model", (lambda: cogent3.get_model("DT", motif_length=2)) if name == "DT2" else (lambda: cogent3.get_model(name)))
        if not ok:
            return s
        _MODEL_CACHE[key] = sm
    sm = _MODEL_CACHE[key]
    ok, aln = s.call("make_aligned_seqs", cogent3.make_aligned_seqs, dict(zip("abc", case["seqs"])), moltype="dna")
    if not ok:
        return s
    ok, lf = s.call("make_likelihood_function", sm.make_likelihood_function, tree)
    if not ok:
        return s
    ok, _ = s.call("set_alignment", lf.set_alignment, aln)
    if not ok:
        return s
    if case["evals"]:
        ok, _ = s.call("optimise", lambda: lf.optimise(local=True, max_evaluations=case["evals"], limit_action="ignore", show_progress=False))
        if not ok:
            return s
    n = 16 if name == "DT2" else 4
    for e in "abc":
        ok, P = s.call("get_psub_for_edge", lf.get_psub_for_edge, e)
        if not ok:
            continue
        P = _arr(P)
        s.check(P.shape == (n, n) and np.isfinite(P).all(), "P/finite", f"{name} edge {e}: shape {P.shape}")
        if P.shape == (n, n) and np.isfinite(P).all():
            s.check(np.abs(P.sum(axis=1) - 1).max() <= 1e-10, "P/row-sums-one", f"{name} edge {e}: {np.abs(P.sum(axis=1) - 1).max():.3e}")
            s.check(P.min() >= 0 and P.max() <= 1 + 1e-12, "P/entries-in-unit-interval", f"{name} edge {e}: min {P.min():.3e} max {P.max():.3e}")
    ok, mp = s.call("get_motif_probs", lf.get_motif_probs)
    if ok:
        v = _arr(mp)
        s.check(abs(v.sum() - 1) <= 1e-10 and v.min() >= 0, "mprobs/distribution", f"{name}: sum {v.sum()!r} min {v.min():.3e}")
    ok, lnL = s.call("lnL", lambda: lf.lnL)
    if ok:
        s.check(np.isfinite(lnL) and lnL <= 0, "lnL/finite-non-positive", f"{name}: lnL {lnL!r}")
    s.nontrivial = case["evals"] > 0 and len(set(case["seqs"])) > 1
    return s


# ------------------------------ free rate classes reached through the optimiser
FREE_OPT = {
    "F81": ["rate"],
    "HKY85": ["rate", "kappa"],
    "TN93": ["rate", "kappa_y"],
    "GTR": ["rate", "A/G"],
    "GN": ["rate", "A>G"],
}


@st.composite
def freebins_cases(draw):
    name = draw(st.sampled_from(sorted(FREE_OPT)))
    ordered = draw(st.sampled_from(FREE_OPT[name]))
    n = draw(st.sampled_from([2, 2, 3, 4]))
    evals = draw(st.sampled_from([0, 8, 25, 60]))
    ncol = draw(st.sampled_from(range(12, 49)))
    seqs = [draw(st.lists(st.sampled_from("ACGT"), min_size=ncol, max_size=ncol)) for _ in range(3)]
    for r in (1, 2):
        keep = draw(st.lists(st.sampled_from([True, True, False]), min_size=ncol, max_size=ncol))
        seqs[r] = [a if k else c for a, c, k in zip(seqs[0], seqs[r], keep)]
    return {"model": name, "ordered": ordered, "n": n, "evals": evals, "seqs": ["".join(x) for x in seqs]}


def exec_freebins(case) -> Soft:
    """the documented way to move free rate classes off their default: optimise them on an alignment, then read the
    state back through the public observers and apply the identities of the property to what they report"""
    import cogent3

    s = Soft("C05/freebins/")
    name, ordered, n = case["model"], case["ordered"], case["n"]
    s.cls("model:" + name, "ordered:" + ("rate" if ordered == "rate" else "param"), f"bins:{n}", f"evals:{case['evals']}")
    key = json.dumps(["freebins", name, ordered])
    if key not in _MODEL_CACHE:
        ok, sm = s.call("get_model", cogent3.get_model, name, ordered_param=ordered, distribution="free")
        if not ok:
            return s
        _MODEL_CACHE[key] = sm
    sm = _MODEL_CACHE[key]
    general = name == "GN"
    tree = cogent3.make_tree("(a:0.1,b:0.2,c:0.3)")
    ok, aln = s.call("make_aligned_seqs", cogent3.make_aligned_seqs, dict(zip("abc", case["seqs"])), moltype="dna")
    if not ok:
        return s
    ok, lf = s.call("make_likelihood_function", sm.make_likelihood_function, tree, bins=n)
    if not ok:
        return s
    ok, _ = s.call("set_alignment", lf.set_alignment, aln)
    if not ok:
        return s
    if case["evals"]:
        ok, _ = s.call("optimise", lambda: lf.optimise(local=True, max_evaluations=case["evals"], limit_action="ignore", show_progress=False))
        if not ok:
            return s
    bnames = [f"bin{i}" for i in range(n)]
    ok, bp = s.call("get_param_value/bprobs", lf.get_param_value, "bprobs")
    if not ok:
        return s
    bp = np.array(bp, float)
    s.check(bp.shape == (n,) and np.isfinite(bp).all() and (bp >= 0).all() and abs(bp.sum() - 1) <= 1e-10, "bprobs/distribution", f"{bp}")
    if bp.shape != (n,):
        return s
    pname = "rate" if ordered == "rate" else f"{ordered}_factor"
    vals = []
    for b in bnames:
        ok, r = s.call("get_param_value/multiplier", lf.get_param_value, pname, bin=b)
        if not ok:
            return s
        vals.append(float(r))
    vals = np.array(vals)
    tag = "rate" if ordered == "rate" else "param"
    s.check(np.isfinite(vals).all() and (vals >= 0).all(), f"rates/non-negative/{tag}", f"multipliers {vals}")
    s.check(abs(float((bp * vals).sum()) - 1.0) <= 1e-9, f"rates/mean-one/{tag}", f"sum(bprob*multiplier) = {(bp * vals).sum()!r}; bprobs {bp}, multipliers {vals}")
    s.check(bool((np.diff(vals) >= -1e-12).all()), f"rates/monotonic/{tag}", f"multipliers {vals}")
    moved = bool(np.abs(vals - np.arange(1, n + 1) / ((n + 1) / 2.0)).max() > 1e-6 or np.abs(bp - 1.0 / n).max() > 1e-6)
    s.cls("classes:moved" if moved else "classes:default")
    ok, mp = s.call("get_motif_probs", lf.get_motif_probs)
    if not ok:
        return s
    words = [str(w) for w in sm.get_alphabet()]
    d = mp.to_dict()
    pi = np.array([d[w] for w in words], float)
    s.check(abs(pi.sum() - 1) <= 1e-10 and (pi >= 0).all(), "mprobs/distribution", f"{pi}")
    rates = dict(zip(bnames, vals)) if ordered == "rate" else {b: 1.0 for b in bnames}
    for e in "abc":
        ok, t = s.call("get_param_value/length", lf.get_param_value, "length", edge=e)
        if not ok:
            continue
        t = float(t)
        for b in bnames:
            ok, Q = s.call("get_rate_matrix_for_edge", lf.get_rate_matrix_for_edge, e, calibrated=True, bin=b)
            ok2, P = s.call("get_psub_for_edge", lf.get_psub_for_edge, e, bin=b)
            if not (ok and ok2):
                continue
            Q, P = _arr(Q), _arr(P)
            if Q.shape != (4, 4) or not np.isfinite(Q).all() or P.shape != (4, 4) or not np.isfinite(P).all():
                s.fail("Q-P/finite", f"{name} edge {e} bin {b}")
                continue
            nq = _norm_inf(Q)
            off = Q - np.diag(np.diag(Q))
            valid = np.abs(Q.sum(axis=1)).max() <= 1e-10 * max(1.0, nq) and off.min() >= 0.0
            s.check(valid, "Q/rate-matrix", f"{name} edge {e} bin {b}: max |row sum| {np.abs(Q.sum(axis=1)).max():.3e}, min off-diagonal {off.min():.3e}")
            s.check(abs(-float((pi * np.diag(Q)).sum()) - 1.0) <= 1e-9, "Q/calibration", f"{name} edge {e} bin {b}: -sum(pi_i q_ii) = {-float((pi * np.diag(Q)).sum())!r}")
            if not general:
                F = pi[:, None] * Q
                s.check(np.abs(F - F.T).max() <= 1e-9 * max(1.0, nq), "reversible/detailed-balance", f"{name} edge {e} bin {b}: {np.abs(F - F.T).max():.3e}")
            k = max(1.0, nq * t * rates[b])
            s.check(np.abs(P.sum(axis=1) - 1).max() <= 1e-9 * k and P.min() >= -1e-12, "P/row-stochastic", f"{name} edge {e} bin {b}: max |row sum - 1| {np.abs(P.sum(axis=1) - 1).max():.3e}, min {P.min():.3e}")
            if valid:
                r = np.abs(P - ref_expm(Q, t * rates[b])).max()
                s.check(r <= (1e-8 if general else 1e-9) * k, "P/equals-expm-Q-length-rate", f"{name} edge {e} bin {b} length {t!r} rate {rates[b]!r}: max diff {r:.3e}")
    if not general:
        ok, ens = s.call("get_lengths_as_ens", lf.get_lengths_as_ens)
        if ok:
            for e in "abc":
                ok, t = s.call("get_param_value/length", lf.get_param_value, "length", edge=e)
                if ok:
                    s.check(abs(float(ens[e]) - float(t)) <= 1e-9 * max(1.0, float(t)), "ens/equals-length", f"{name} edge {e}: ENS {ens[e]!r} length {t!r}")
    s.nontrivial = moved and len(set(case["seqs"])) > 1
    return s


SUBS = [
    Sub("nucleotide", exec_lf, strategy=nuc_cases(), quick=1440, thorough=64_000, shards_quick=16),
    Sub("dinucleotide", exec_lf, strategy=dinuc_cases(), quick=192, thorough=8_000, shards_quick=16),
    Sub("codon", exec_lf, strategy=codon_cases(), quick=64, thorough=3_200, shards_quick=16, weight=30.0),
    Sub("protein", exec_lf, strategy=protein_cases(), quick=96, thorough=4_800, shards_quick=8),
    Sub("trinucleotide", exec_lf, strategy=trinuc_cases(), quick=32, thorough=1_600, shards_quick=16, weight=20.0),
    Sub("expm", exec_expm, strategy=expm_cases(), quick=3200, thorough=96_000, shards_quick=16),
    Sub("freebins", exec_freebins, strategy=freebins_cases(), quick=160, thorough=6_000, shards_quick=8),
    Sub("discrete", exec_discrete, strategy=discrete_cases(), quick=240, thorough=8_000, shards_quick=8),
]

KNOWN_PREDICATES = {}

META = {
    "technique": "Hypothesis-generated models, parameter vectors, motif probabilities, rate classes and branch lengths; algebraic identities on the reported Q and P with harness-derived word distributions; differential against a harness-written uniformisation exp(Qt) and between the exponentiation back-ends; direct differential test of the exponentiator classes on harness-built (incl. near-defective) rate matrices",
    "level_text": "Every registered continuous-time model and generated predicate-built nucleotide, dinucleotide, trinucleotide, protein and codon models (each motif-probability model; non-standard genetic codes; the gap motif as a state) are evaluated at generated parameter points; for each point the calibrated and uncalibrated rate matrices and the transition matrices for lengths 0, s, t, s+t in every rate class and under each expm setting are checked for zero row sums, non-negative off-diagonals, unit expected rate at the model's word distribution, unit mean of the rate-class multipliers, row-stochasticity, P(0)=I, P(s)P(t)=P(s+t), equality with the harness's exp(Qt), pairwise agreement of the back-ends, stationarity and detailed balance where the model class promises them.",
    "level_note": "Trusts about 100 lines of harness code (uniformisation exp(Qt), the ENS integral, word distributions). The unchecked eigen back-end is compared with the reference only on reversible models; parameters are explored in [1e-4, 1e4] plus the declared bounds 1e-6 and 1e6. Free rate classes are set through the partition behind them or by a short optimisation, the multipliers are only checked for what the class docstrings promise. ENS is not compared for models with rate classes.",
    "design_ref": "DESIGN.md section 1, C05",
}
