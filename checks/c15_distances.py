"""C15 — closed-form distance estimators equal their published formulas and
NJ / UPGMA recover the generating tree from additive / ultrametric matrices.

Oracles (all written here, none taken from cogent3):

* estimators: the 4x4 pair count table is built by a plain loop over the
  columns in which both symbols are canonical; p-distance, Hamming, JC69, TN93
  (Tamura & Nei 1993), paralinear (Lake 1994) and LogDet (Lockhart 1994, with
  and without the Tamura-Kumar 2002 coefficient) are evaluated on it with
  exact rational arithmetic (``fractions``) up to the final ``log``/``sqrt``;
  the 4x4 determinant is an exact Gaussian elimination.  Whether a formula is
  defined is decided exactly, values are compared at 1e-9.
* trees: a nested-list tree model; the additive (ultrametric) matrix is the
  model's path-length matrix, and the reconstructed tree is read structurally
  (children / name / length) and compared for bipartitions (rooted clusters),
  all tip-to-tip path lengths and, for UPGMA, the height of every tip.
"""

from __future__ import annotations

import itertools
import math
from fractions import Fraction

from hypothesis import strategies as st

from vlib.core import Soft, Sub

PROPERTY_ID = "C15"
LEVEL = "exploration"
RULE = (
    "estimators: a case is a generated DNA/RNA alignment (2-6 rows, 8-200 columns) built from a base sequence with unequal "
    "composition by per-row substitution masks (transitions, two kinds of transversion, low/mid/high rates) and "
    "non-canonical masks (gaps, ?, N and two/three-fold IUPAC codes), with rows that are exact copies, copies that differ "
    "only in non-canonical columns, independent (saturated) rows, pairs with exactly 3/4 of the sites different and pairs "
    "without a shared canonical column; a conserved ACGT block is inserted in most cases; plus a column permutation, a row "
    "permutation and the choice Alignment/ArrayAlignment. Every pair x {pdist, hamming, jc69, tn93, paralinear, logdet, "
    "logdet without TK adjustment} is compared with the harness formulas; symmetry, zero diagonal, column-permutation and "
    "row-order invariance and agreement of aln.distance_matrix / get_distance_calculator / fast_slow_dist are checked. "
    "Non-trivial = some pair shows transitions and transversions and the composition is not uniform. "
    "nj: a case is an unrooted tree (3-12 tips, dyadic / float / short-internal positive branch lengths; caterpillar, "
    "random binary or multifurcating shape), a tip naming, a key order and a key style for the distance dictionary; nj, "
    "gnj(keep=1), DistanceMatrix.quick_tree and the quick_tree app must return the generating bipartitions and path lengths "
    "(for a multifurcating generator: a binary refinement of it with the generating path lengths). "
    "Non-trivial = at least 5 tips and either at least 3 cherries (not a caterpillar) or a multifurcation. "
    "upgma: a case is a rooted binary ultrametric tree (3-12 tips, strictly increasing node heights) with a tip naming and "
    "key order; upgma must return the generating clusters, path lengths and tip heights. Non-trivial = at least 5 tips and "
    "not a caterpillar. Distinct = distinct case encodings."
)
ASSUMPTIONS = [
    "moltypes dna and rna only, old-style Alignment / ArrayAlignment (the only classes offering distance_matrix(calc=<fast calculator>))",
    "non-canonical columns (gap, ?, N, IUPAC ambiguity in either sequence) are excluded pairwise, as the calculator docstrings state",
    "a pair without any shared canonical column has no defined distance (NaN expected); a pair with shared columns and no difference has distance 0 "
    "(for paralinear / LogDet 0 or NaN is accepted, the formula is 0 or 0*inf there)",
    "paralinear / LogDet are only compared for pairs whose four diagonal counts are all positive (the implementation's 0.5 pseudo-count is neither copied nor asserted against)",
    "pairs whose exact log argument (TN93) is within 1e-4 of zero, or whose exact determinant (paralinear / LogDet) is within 1e-5 of zero, are not compared (ill-conditioned, classed near-boundary)",
    "estimator values compared at rtol 1e-9 (relative to max(1,|want|)); undefined must coincide exactly outside the near-boundary band",
    "aln.distance_matrix may raise the documented ArithmeticError only when the oracle finds an undefined or near-boundary pair",
    "NJ generators have strictly positive branch lengths (>= 0.001); for binary generators the topology is unique and must be returned, for multifurcating "
    "generators (1 in 6) the binary result must contain every generating bipartition and reproduce all path lengths; UPGMA generators have strictly increasing node heights (increments >= 0.001); tolerance 1e-9",
    "distance dictionaries given to nj contain every unordered pair at least once (both orders, one order, or a mixture); those given to upgma contain both orders",
]

CANON = "ACGT"
A, C, G, T = 0, 1, 2, 3
NONCANON = "-?NRYWSKMBDHV"
TS = {"A": "G", "G": "A", "C": "T", "T": "C"}
TV1 = {"A": "C", "C": "A", "G": "T", "T": "G"}
TV2 = {"A": "T", "T": "A", "G": "C", "C": "G"}
CALCS = ["pdist", "hamming", "jc69", "tn93", "paralinear", "logdet", "logdet_notk"]
UNDEF = "undefined"
SKIP = "skip"


# ------------------------------------------------------------ estimator oracle
def pair_counts(a: str, b: str):
    """4x4 counts over the columns where both symbols are canonical (T and U are the same state)"""
    idx = {"A": A, "C": C, "G": G, "T": T, "U": T}
    n = [[0] * 4 for _ in range(4)]
    for x, y in zip(a, b):
        i = idx.get(x)
        j = idx.get(y)
        if i is None or j is None:
            continue
        n[i][j] += 1
    return n


def masked(seq: str) -> str:
    return "".join(ch if ch in "ACGTU" else "*" for ch in seq)


def det_exact(m):
    """exact determinant of a square matrix of Fractions (Gaussian elimination)"""
    m = [row[:] for row in m]
    n = len(m)
    det = Fraction(1)
    for c in range(n):
        piv = next((r for r in range(c, n) if m[r][c] != 0), None)
        if piv is None:
            return Fraction(0)
        if piv != c:
            m[c], m[piv] = m[piv], m[c]
            det = -det
        det *= m[c][c]
        for r in range(c + 1, n):
            f = m[r][c] / m[c][c]
            if f:
                for k in range(c, n):
                    m[r][k] -= f * m[c][k]
    return det


def oracle(n):
    """{calc: float | UNDEF | SKIP} for one pair count table, plus descriptive facts"""
    N = sum(sum(r) for r in n)
    same = sum(n[i][i] for i in range(4))
    diffs = N - same
    out = {}
    facts = {"N": N, "diffs": diffs}
    if N == 0:
        return {c: UNDEF for c in CALCS}, facts
    if diffs == 0:
        return {c: 0.0 for c in CALCS}, facts
    p = Fraction(diffs, N)
    out["pdist"] = float(p)
    out["hamming"] = float(diffs)
    # JC69
    out["jc69"] = UNDEF if p >= Fraction(3, 4) else -0.75 * math.log(float(1 - Fraction(4, 3) * p))
    # TN93
    row = [sum(n[i]) for i in range(4)]
    col = [sum(n[i][j] for i in range(4)) for j in range(4)]
    g = [Fraction(row[i] + col[i], 2 * N) for i in range(4)]
    gR, gY = g[A] + g[G], g[C] + g[T]
    P1 = Fraction(n[A][G] + n[G][A], N)
    P2 = Fraction(n[C][T] + n[T][C], N)
    Q = Fraction(sum(n[i][j] + n[j][i] for i in (A, G) for j in (C, T)), N)
    facts.update(ts=P1 + P2 > 0, tv=Q > 0, uniform=all(x == Fraction(1, 4) for x in g))
    if g[A] * g[G] == 0 or g[C] * g[T] == 0:
        out["tn93"] = UNDEF
    else:
        k1 = 2 * g[A] * g[G] / gR
        k2 = 2 * g[T] * g[C] / gY
        k3 = 2 * (gR * gY - g[A] * g[G] * gY / gR - g[T] * g[C] * gR / gY)
        w = [1 - P1 / k1 - Q / (2 * gR), 1 - P2 / k2 - Q / (2 * gY), 1 - Q / (2 * gR * gY)]
        if any(abs(x) < Fraction(1, 10**4) for x in w):
            out["tn93"] = SKIP
        elif any(x < 0 for x in w):
            out["tn93"] = UNDEF
        else:
            out["tn93"] = -float(k1) * math.log(float(w[0])) - float(k2) * math.log(float(w[1])) - float(k3) * math.log(float(w[2]))
    # paralinear / LogDet
    if any(n[i][i] == 0 for i in range(4)):
        out["paralinear"] = out["logdet"] = out["logdet_notk"] = SKIP
        facts["pseudo_count_domain"] = True
    else:
        J = [[Fraction(n[i][j], N) for j in range(4)] for i in range(4)]
        det = det_exact(J)
        fx = [Fraction(row[i], N) for i in range(4)]
        fy = [Fraction(col[i], N) for i in range(4)]
        if abs(det) < Fraction(1, 10**5):
            out["paralinear"] = out["logdet"] = out["logdet_notk"] = SKIP
        elif det < 0:
            out["paralinear"] = out["logdet"] = out["logdet_notk"] = UNDEF
        else:
            prod = Fraction(1)
            for i in range(4):
                prod *= fx[i] * fy[i]
            larg = math.log(float(det)) - 0.5 * math.log(float(prod))
            out["paralinear"] = -larg / 4
            hom = 1 - sum(((fx[i] + fy[i]) / 2) ** 2 for i in range(4))
            out["logdet"] = -float(hom) / 3 * larg
            out["logdet_notk"] = -math.log(float(det)) / 4 - math.log(4)
    return out, facts


# --------------------------------------------------------- estimator generator
BASE_ALPHABETS = ["ACGT", "AAAACCGT", "ACCCGGGGTT", "AACGGGGTTTTT", "ACGTTTTT", "AC", "ACG", "AGT"]
SUB_MASKS = {
    "none": ".",
    "low": "." * 40 + "ssv",
    "mid": "." * 12 + "sssvw",
    "high": "." * 3 + "sssvvww",
}
NOISE_MASKS = {
    "none": "",
    "gaps": "----",
    "some": "--?NRY",
    "heavy": "------??NNRYWSKMBDHV",
}


def apply_mask(seq: str, mask: str) -> str:
    out = []
    for ch, m in zip(seq, mask):
        if m == ".":
            out.append(ch)
        elif m == "s":
            out.append(TS.get(ch, ch))
        elif m == "v":
            out.append(TV1.get(ch, ch))
        elif m == "w":
            out.append(TV2.get(ch, ch))
        else:
            out.append(m)
    return "".join(out)


def _text(alphabet: str, L: int):
    return st.text(alphabet=st.sampled_from(list(alphabet)), min_size=L, max_size=L)


@st.composite
def est_cases(draw):
    mode = draw(st.sampled_from(["divergent"] * 10 + ["dups"] * 3 + ["gapdups"] * 3 + ["saturated"] * 2 + ["exact075", "disjoint"]))
    n = draw(st.sampled_from([2, 3, 3, 4, 4, 5, 6]))
    L = draw(st.sampled_from([8, 12, 16, 20, 24, 32, 40, 48, 60, 80, 120, 200]))
    if mode == "exact075":
        L = 16 + 4 * draw(st.integers(0, 12))
    base_alpha = draw(st.sampled_from(BASE_ALPHABETS))
    base = draw(_text(base_alpha, L))
    noise = draw(st.sampled_from(["none", "none", "gaps", "some", "heavy"]))
    rows = []
    kinds = []
    for i in range(n):
        if mode == "divergent" or i == 0:
            kind = "mut"
        elif mode == "dups":
            kind = draw(st.sampled_from(["copy", "copy", "mut"]))
        elif mode == "gapdups":
            kind = draw(st.sampled_from(["gapcopy", "gapcopy", "copy", "mut"]))
        elif mode == "saturated":
            kind = draw(st.sampled_from(["indep", "indep", "mut"]))
        elif mode == "exact075":
            kind = "q3" if i == 1 else draw(st.sampled_from(["mut", "copy"]))
        else:  # disjoint
            kind = "disjoint" if i == 1 else draw(st.sampled_from(["mut", "gapcopy"]))
        kinds.append(kind)
        if kind == "mut":
            rate = draw(st.sampled_from(["low", "mid", "mid", "high", "low", "none"]))
            alpha = SUB_MASKS[rate] + (NOISE_MASKS[noise] if mode != "exact075" else "")
            seq = apply_mask(base, draw(_text(alpha, L)))
        elif kind == "copy":
            seq = rows[draw(st.integers(0, i - 1))]
        elif kind == "gapcopy":
            src = rows[draw(st.integers(0, i - 1))]
            alpha = "." * draw(st.sampled_from([2, 6, 20])) + NOISE_MASKS[draw(st.sampled_from(["gaps", "some", "heavy"]))]
            seq = apply_mask(src, draw(_text(alpha, L)))
        elif kind == "indep":
            seq = draw(_text(draw(st.sampled_from(BASE_ALPHABETS[:5])), L))
        elif kind == "q3":
            # exactly three of every four columns differ from row 0 (which is canonical everywhere in this mode)
            kindmask = draw(_text("svw", L))
            seq = apply_mask(rows[0], "".join("." if k % 4 == 0 else kindmask[k] for k in range(L)))
        else:  # disjoint: canonical exactly where row 0 is not
            cut = draw(st.integers(1, L - 1))
            rows[0] = rows[0][:cut] + "-" * (L - cut)
            seq = "-" * cut + draw(_text("ACGT", L - cut))
        rows.append(seq)
    block = mode not in ("exact075", "disjoint") and draw(st.integers(0, 6)) > 0
    if block:
        pos = draw(st.integers(0, L))
        rows = [r[:pos] + "ACGT" + r[pos:] for r in rows]
        L += 4
    moltype = draw(st.sampled_from(["dna", "dna", "rna"]))
    if moltype == "rna":
        rows = [r.replace("T", "U") for r in rows]
    names = draw(st.permutations([f"s{i}" for i in range(n)]))
    return {
        "mode": mode,
        "moltype": moltype,
        "array_align": draw(st.booleans()),
        "rows": [[names[i], rows[i]] for i in range(n)],
        "colperm": draw(st.permutations(list(range(L)))),
        "roworder": draw(st.permutations(list(range(n)))),
        "calc": draw(st.sampled_from(CALCS[:6])),
    }


# ----------------------------------------------------------- estimator execute
def _isnan(x) -> bool:
    try:
        return math.isnan(float(x))
    except (TypeError, ValueError):
        return False


def _same(a, b, rtol=1e-12) -> bool:
    if a is None or b is None:
        return a is None and b is None
    a, b = float(a), float(b)
    if math.isnan(a) or math.isnan(b):
        return math.isnan(a) and math.isnan(b)
    if math.isinf(a) or math.isinf(b):
        return a == b
    return abs(a - b) <= rtol * max(1.0, abs(a), abs(b))


def _run_calc(calc, aln):
    """pairwise distance dict {(a, b): float} from a directly constructed calculator"""
    from cogent3.evolve.fast_distance import get_distance_calculator

    if calc == "logdet_notk":
        c = get_distance_calculator("logdet", moltype=aln.moltype, alignment=aln, use_tk_adjustment=False)
    else:
        c = get_distance_calculator(calc, moltype=aln.moltype, alignment=aln)
    c.run(show_progress=False)
    return c.get_pairwise_distances()


def _make_aln(rows, moltype, array_align):
    from cogent3 import make_aligned_seqs

    return make_aligned_seqs(dict(rows), moltype=moltype, array_align=array_align)


def _dm_dict(dm):
    return {(str(a), str(b)): float(v) for (a, b), v in dm.to_dict().items()}


def exec_est(case) -> Soft:
    s = Soft("C15/est/")
    rows = [(str(nm), str(sq)) for nm, sq in case["rows"]]
    names = [r[0] for r in rows]
    seqs = dict(rows)
    n = len(rows)
    L = len(rows[0][1])
    moltype = case["moltype"]
    ok, aln = s.call("make_aligned_seqs", _make_aln, rows, moltype, bool(case["array_align"]))
    if not ok:
        return s
    s.cls("mode:" + case["mode"], "moltype:" + moltype, "ArrayAlignment" if case["array_align"] else "Alignment", f"rows:{n}")

    # ---- model
    pairs = list(itertools.combinations(names, 2))
    want = {}
    facts = {}
    msk = {nm: masked(seqs[nm]) for nm in names}
    gap_equal = set()  # rows with a partner that is equal on shared canonical columns but is not the same row
    for a, b in pairs:
        cnt = pair_counts(seqs[a], seqs[b])
        o, f = oracle(cnt)
        if msk[a] == msk[b]:
            o = {c: 0.0 for c in CALCS}
            f["identical"] = True
        elif f["diffs"] == 0:
            gap_equal.update([a, b])
        want[(a, b)] = o
        facts[(a, b)] = f
    if any(ch not in "ACGTU" for sq in seqs.values() for ch in sq):
        s.cls("non-canonical")
    if any(ch in "-?" for sq in seqs.values() for ch in sq):
        s.cls("gaps")
    if any(ch in "NRYWSKMBDHV" for sq in seqs.values() for ch in sq):
        s.cls("ambiguity-codes")
    if any(f.get("identical") for f in facts.values()):
        s.cls("identical-rows")
    if gap_equal:
        s.cls("gap-equal-rows")
    if any(f["N"] == 0 and not f.get("identical") for f in facts.values()):
        s.cls("no-shared-columns")
    if any(f["N"] and f["diffs"] * 4 >= f["N"] * 3 for f in facts.values()):
        s.cls("saturated-pair")
    if any(f["N"] and f["diffs"] * 4 == f["N"] * 3 for f in facts.values()):
        s.cls("p-exactly-0.75")
    for c in CALCS:
        vals = [want[p][c] for p in pairs]
        if UNDEF in vals:
            s.cls(f"undefined:{c}")
        if SKIP in vals:
            s.cls(f"not-compared:{c}")
        if any(isinstance(v, float) and v > 0 for v in vals):
            s.cls(f"value:{c}")
    s.nontrivial = any(f.get("ts") and f.get("tv") and not f.get("uniform") for f in facts.values())

    # ---- every estimator against the formulas
    evals = 0
    direct = {}
    for c in CALCS:
        ok, dm = s.call(f"{c}/run", _run_calc, c, aln)
        if not ok:
            continue
        ok, got = s.call(f"{c}/to_dict", _dm_dict, dm)
        if not ok:
            continue
        direct[c] = (dm, got)
        lp = c in ("paralinear", "logdet", "logdet_notk")
        for a, b in pairs:
            w = want[(a, b)][c]
            f = facts[(a, b)]
            evals += 1
            if (a, b) not in got or (b, a) not in got:
                s.fail(f"{c}/missing-pair", f"{(a, b)} absent from to_dict() of {names}")
                continue
            g1, g2 = got[(a, b)], got[(b, a)]
            s.check(_same(g1, g2, 0.0), f"{c}/symmetry", f"d[{a},{b}]={g1!r} d[{b},{a}]={g2!r}")
            if w == SKIP:
                continue
            if a in gap_equal or b in gap_equal:
                circ = "value/no-shared-columns" if f["N"] == 0 else "value/gap-equal-rows"
                sig = circ  # one root cause for all estimators: the duplicate shortcut
            else:
                sig = f"{c}/value"
            what = f"{c} {a}={seqs[a]!r} {b}={seqs[b]!r} (rows {names}; shared canonical columns {f['N']}, differences {f['diffs']})"
            if w == UNDEF:
                s.check(_isnan(g1), sig + ("" if sig.startswith("value/") else "/defined-where-formula-is-not"), f"{what}: got {g1!r}, the formula is undefined")
            elif w == 0.0 and lp:
                s.check(_isnan(g1) or g1 == 0.0, sig, f"{what}: got {g1!r} want 0 (or undefined)")
            else:
                if _isnan(g1):
                    s.fail(sig + ("" if sig.startswith("value/") else "/undefined-where-formula-is-defined"), f"{what}: got nan want {w!r}")
                else:
                    s.close(g1, w, sig, what, rtol=1e-9)
        # zero diagonal, accessors
        ok, arr = s.call(f"{c}/array", lambda: [[float(x) for x in r] for r in dm.array])
        if ok:
            dn = [str(x) for x in dm.names]
            s.eq(sorted(dn), sorted(names), f"{c}/names", "DistanceMatrix.names")
            if sorted(dn) == sorted(names) and len(arr) == n:
                s.check(all(arr[i][i] == 0.0 for i in range(n)), f"{c}/diagonal", f"diagonal {[arr[i][i] for i in range(n)]}")
                bad = [(dn[i], dn[j]) for i in range(n) for j in range(n) if i != j and not _same(arr[i][j], got.get((dn[i], dn[j])), 0.0)]
                s.check(not bad, f"{c}/array-vs-to_dict", f"{bad[:3]}")
    s.evals = max(1, evals)

    # ---- invariances and entry points for the case's estimator
    c = case["calc"]
    if c not in direct:
        return s
    dm, got = direct[c]
    circ = "/gap-equal-rows" if gap_equal else ""
    perm = [int(k) for k in case["colperm"]]
    if sorted(perm) == list(range(L)):
        prow = [(nm, "".join(sq[k] for k in perm)) for nm, sq in rows]
        ok, aln2 = s.call("make_aligned_seqs", _make_aln, prow, moltype, bool(case["array_align"]))
        if ok:
            ok, dm2 = s.call(f"{c}/run", _run_calc, c, aln2)
            if ok:
                g2 = _dm_dict(dm2)
                bad = [(p, got.get(p), g2.get(p)) for p in got if not _same(got[p], g2.get(p))]
                s.check(not bad, f"{c}/column-order", f"rows {rows}, permutation {perm}: (pair, original, permuted) {bad[:3]}")
    order = [int(k) for k in case["roworder"]]
    if sorted(order) == list(range(n)) and order != list(range(n)):
        rrow = [rows[k] for k in order]
        ok, aln3 = s.call("make_aligned_seqs", _make_aln, rrow, moltype, bool(case["array_align"]))
        if ok:
            ok, dm3 = s.call(f"{c}/run", _run_calc, c, aln3)
            if ok:
                g3 = _dm_dict(dm3)
                # transposing an ill-conditioned count table may flip the sign of a numerically zero determinant
                cmp = [p for p in got if (want.get(p) or want.get((p[1], p[0])) or {}).get(c) != SKIP]
                bad = [(p, got.get(p), g3.get(p)) for p in cmp if not _same(got[p], g3.get(p))]
                s.check(not bad, f"row-order{circ}" if circ else f"{c}/row-order", f"{c}: rows {rows} reordered {[r[0] for r in rrow]}: (pair, original, reordered) {bad[:3]}")
                s.cls("row-order-changed")
    if c != "logdet_notk":
        all_defined = all(isinstance(want[p][c], float) for p in pairs)
        allowed = () if all_defined and not gap_equal else (ArithmeticError,)
        ok, dm4 = s.call(f"{c}/aln.distance_matrix", lambda: aln.distance_matrix(calc=c), allowed=allowed)
        if ok:
            g4 = _dm_dict(dm4)
            bad = [(p, got.get(p), g4.get(p)) for p in got if not _same(got[p], g4.get(p), 0.0)]
            s.check(not bad and len(g4) == len(got), f"{c}/aln.distance_matrix-vs-calculator", f"rows {rows}: {bad[:3]}")
            s.cls("distance_matrix:returned")
        else:
            s.cls("distance_matrix:ArithmeticError")

        def app_run():
            from cogent3.app.dist import fast_slow_dist

            return fast_slow_dist(fast_calc=c, moltype=moltype)(aln)

        ok, dm5 = s.call(f"{c}/fast_slow_dist", app_run)
        if ok:
            if not hasattr(dm5, "to_dict") or type(dm5).__name__ == "NotCompleted":
                s.fail(f"{c}/fast_slow_dist/not-completed", f"rows {rows}: {str(dm5)[:300]}")
            else:
                g5 = _dm_dict(dm5)
                bad = [(p, got.get(p), g5.get(p)) for p in got if not _same(got[p], g5.get(p), 0.0)]
                s.check(not bad and len(g5) == len(got), f"{c}/fast_slow_dist-vs-calculator", f"rows {rows}: {bad[:3]}")
    return s


# ------------------------------------------------------------------ tree model
def m_tips(node):
    if not node["kids"]:
        return [node["name"]]
    out = []
    for k in node["kids"]:
        out.extend(m_tips(k))
    return out


def m_clusters(node):
    """frozensets of tips below every non-root internal node"""
    acc = set()

    def walk(nd, root):
        if not nd["kids"]:
            return frozenset([nd["name"]])
        mine = frozenset()
        for k in nd["kids"]:
            mine |= walk(k, False)
        if not root:
            acc.add(mine)
        return mine

    walk(node, True)
    return acc


def m_splits(node):
    alltips = frozenset(m_tips(node))
    ref = min(alltips)
    out = set()
    for c in m_clusters(node):
        other = alltips - c
        if len(c) < 2 or len(other) < 2:
            continue
        out.add(other if ref in c else c)
    return out


def m_depths(node):
    """{tip: [(node id, cumulative length from root), ...]}"""
    depth = {}

    def walk(nd, anc, root):
        here = (anc[-1][1] if anc else 0.0) + (0.0 if root else float(nd["len"] or 0.0))
        cur = anc + [(id(nd), here)]
        if not nd["kids"]:
            depth[nd["name"]] = cur
        for k in nd["kids"]:
            walk(k, cur, False)

    walk(node, [], True)
    return depth


def m_paths(node):
    depth = m_depths(node)
    out = {}
    for a, b in itertools.combinations(sorted(depth), 2):
        pa, pb = depth[a], depth[b]
        i = 0
        while i < min(len(pa), len(pb)) and pa[i][0] == pb[i][0]:
            i += 1
        lca = pa[i - 1][1]
        out[(a, b)] = (pa[-1][1] - lca) + (pb[-1][1] - lca)
    return out


def m_total_length(node, root=True):
    return (0.0 if root else float(node["len"])) + sum(m_total_length(k, False) for k in node["kids"])


def m_polytomy(node, root=True):
    return len(node["kids"]) > (3 if root else 2) or any(m_polytomy(k, False) for k in node["kids"])


def m_cherries(node):
    cnt = 0
    kids = node["kids"]
    if kids and sum(1 for k in kids if not k["kids"]) >= 2:
        cnt += 1
    return cnt + sum(m_cherries(k) for k in kids)


def observe_real(tree):
    def rd(nd):
        return {"name": nd.name, "len": nd.length, "kids": [rd(ch) for ch in nd.children]}

    return rd(tree)


def _brief(nd):
    def nw(x):
        lab = "" if x["name"] is None or x["kids"] else str(x["name"])
        ln = "" if x["len"] is None else f":{x['len']:g}"
        if x["kids"]:
            return "(" + ",".join(nw(k) for k in x["kids"]) + ")" + lab + ln
        return lab + ln

    return nw(nd)[:500]


TIP_NAMES = ["t0", "t1", "t2", "t3", "t4", "t5", "t6", "t7", "t8", "t9", "t10", "t11", "Human", "Mouse", "x_1", "b"]
DYADIC = [0.125, 0.25, 0.5, 0.75, 1.0, 1.5, 2.0, 3.0]


@st.composite
def _length(draw, style, internal):
    if style == "dyadic":
        return draw(st.sampled_from(DYADIC))
    if style == "short-internal":
        if internal:
            return draw(st.floats(0.001, 0.01, allow_nan=False, allow_infinity=False))
        return draw(st.floats(0.5, 3.0, allow_nan=False, allow_infinity=False))
    return draw(st.floats(0.001, 3.0, allow_nan=False, allow_infinity=False))


@st.composite
def nj_cases(draw):
    n = draw(st.sampled_from([3, 4, 5, 6, 6, 7, 7, 8, 8, 9, 9, 10, 11, 12]))
    names = draw(st.permutations(TIP_NAMES))[:n]
    style = draw(st.sampled_from(["dyadic", "dyadic", "float", "short-internal"]))
    shape = draw(st.sampled_from(["random", "random", "random", "random", "polytomy", "caterpillar"]))
    nodes = [{"name": nm, "len": draw(_length(style, False)), "kids": []} for nm in names]
    root_deg = 3
    if shape == "polytomy" and n > 3:
        root_deg = draw(st.sampled_from([3, 3, 4]))
    while len(nodes) > root_deg:
        if shape == "polytomy":
            k = min(draw(st.sampled_from([2, 3, 3, 4])), len(nodes) - root_deg + 1)
            idx = draw(st.lists(st.integers(0, len(nodes) - 1), min_size=k, max_size=k, unique=True))
        elif shape == "caterpillar":
            idx = [len(nodes) - 1, draw(st.integers(0, len(nodes) - 2))]
        else:
            i = draw(st.integers(0, len(nodes) - 1))
            j = draw(st.integers(0, len(nodes) - 2))
            idx = [i, j + 1 if j >= i else j]
        kids = [nodes[k] for k in idx]
        nodes = [x for k, x in enumerate(nodes) if k not in idx]
        nodes.append({"name": None, "len": draw(_length(style, True)), "kids": kids})
    tree = {"name": "root", "len": None, "kids": nodes}
    return {
        "tree": tree,
        "style": style,
        "order": draw(st.permutations(sorted(names))),
        "keys": draw(st.sampled_from(["both", "both", "one", "mixed"])),
        "flip": draw(st.integers(0, 2**30)),
    }


def _dist_dict(model, order, keys, flip):
    paths = m_paths(model)
    d = {}
    k = 0
    for a in order:
        for b in order:
            if a == b:
                continue
            v = paths[(a, b)] if (a, b) in paths else paths[(b, a)]
            first = (a, b) not in d and (b, a) not in d
            if keys == "both":
                d[(a, b)] = v
            elif first:
                if keys == "mixed" and (flip >> (k % 30)) & 1:
                    d[(b, a)] = v
                else:
                    d[(a, b)] = v
                k += 1
    return d


def compare_tree(s: Soft, sig, real_tree, model, what, rooted, tol=1e-9, refine_ok=False):
    ok, got = s.call(sig + "/observe", observe_real, real_tree)
    if not ok:
        return None
    want_tips = sorted(m_tips(model))
    got_tips = m_tips(got)
    if not s.eq(sorted(map(str, got_tips)), want_tips, sig + "/tips", what):
        return None
    if rooted:
        wc = {c for c in m_clusters(model) if len(c) > 1}
        gc = {c for c in m_clusters(got) if len(c) > 1}
        s.check(wc == gc, sig + "/clusters", f"{what}: got {_brief(got)}; lost {sorted(map(sorted, wc - gc))[:3]} extra {sorted(map(sorted, gc - wc))[:3]}")
    else:
        ws, gs = m_splits(model), m_splits(got)
        s.check(ws <= gs if refine_ok else ws == gs, sig + "/topology", f"{what}: got {_brief(got)}; lost {sorted(map(sorted, ws - gs))[:3]} extra {sorted(map(sorted, gs - ws))[:3]}")
    lens_ok = True

    def all_len(nd, root=True):
        return (root or nd["len"] is not None) and all(all_len(k, False) for k in nd["kids"])

    if not all_len(got):
        s.fail(sig + "/missing-length", f"{what}: got {_brief(got)}")
        lens_ok = False
    if lens_ok:
        wp, gp = m_paths(model), m_paths(got)
        bad = [(k, gp.get(k), v) for k, v in wp.items() if gp.get(k) is None or abs(gp[k] - v) > tol * max(1.0, abs(v))]
        s.check(not bad, sig + "/path-lengths", f"{what}: got {_brief(got)}; (pair, got, want) {bad[:3]}")
    return got


def exec_nj(case) -> Soft:
    from cogent3.evolve.fast_distance import DistanceMatrix
    from cogent3.phylo.nj import gnj, nj

    s = Soft("C15/nj/")
    model = case["tree"]
    order = [str(x) for x in case["order"]]
    n = len(order)
    dists = _dist_dict(model, order, case["keys"], int(case["flip"]))
    what = f"generator {_brief(model)} key order {order} keys={case['keys']}"
    cherries = m_cherries(model) if n > 3 else 0
    poly = m_polytomy(model)  # a binary result can only refine a multifurcating generator (extra edges of length 0)
    s.cls(f"tips:{n}", "style:" + case["style"], "keys:" + case["keys"], "multifurcating" if poly else "caterpillar" if cherries <= 2 else "non-caterpillar")
    s.nontrivial = n >= 5 and (cherries >= 3 or poly)
    snapshot = dict(dists)

    ok, t1 = s.call("nj", lambda: nj(dict(dists), show_progress=False))
    if ok:
        compare_tree(s, "nj", t1, model, what, rooted=False, refine_ok=poly)
        ok, gd = s.call("nj/get_distances", t1.get_distances)
        if ok:
            wp = m_paths(model)
            bad = [(k, gd.get(k), v) for k, v in wp.items() if gd.get(k) is None or abs(gd[k] - v) > 1e-9 * max(1.0, v)]
            s.check(not bad, "nj/get_distances", f"{what}: (pair, got, want) {bad[:3]}")
    ok, res = s.call("gnj", lambda: list(gnj(dict(dists), keep=1, show_progress=False)))
    if ok:
        if s.eq(len(res), 1, "gnj/number-of-trees", what):
            score, t2 = res[0]
            compare_tree(s, "gnj", t2, model, what, rooted=False, refine_ok=poly)
            s.close(score, m_total_length(model), "gnj/score-is-tree-length", what, rtol=1e-9)
    ok, dm = s.call("DistanceMatrix", lambda: DistanceMatrix(dict(dists)))
    if ok:
        ok, t3 = s.call("DistanceMatrix.quick_tree", dm.quick_tree)
        if ok:
            compare_tree(s, "DistanceMatrix.quick_tree", t3, model, what, rooted=False, refine_ok=poly)
        ok, t4 = s.call("nj[DistanceMatrix]", lambda: nj(dm, show_progress=False))
        if ok:
            compare_tree(s, "nj[DistanceMatrix]", t4, model, what, rooted=False, refine_ok=poly)

        def app_run():
            from cogent3.app.tree import quick_tree

            return quick_tree()(dm)

        ok, t5 = s.call("app.quick_tree", app_run)
        if ok:
            if type(t5).__name__ == "NotCompleted" or not hasattr(t5, "children"):
                s.fail("app.quick_tree/not-completed", f"{what}: {str(t5)[:300]}")
            else:
                compare_tree(s, "app.quick_tree", t5, model, what, rooted=False, refine_ok=poly)
    s.check(dists == snapshot, "input-mutated", what)
    s.evals = 5
    return s


# ----------------------------------------------------------------------- upgma
@st.composite
def upgma_cases(draw):
    n = draw(st.sampled_from([3, 4, 5, 6, 6, 7, 7, 8, 8, 9, 9, 10, 11, 12]))
    names = draw(st.permutations(TIP_NAMES))[:n]
    style = draw(st.sampled_from(["dyadic", "dyadic", "float"]))
    shape = draw(st.sampled_from(["random", "random", "random", "random", "random", "caterpillar"]))
    # nodes carry their height; edge lengths are derived so that the tree is ultrametric
    nodes = [{"name": nm, "h": 0.0, "kids": []} for nm in names]
    while len(nodes) > 1:
        if shape == "caterpillar":
            i, j = len(nodes) - 1, draw(st.integers(0, len(nodes) - 2))
        else:
            i = draw(st.integers(0, len(nodes) - 1))
            j = draw(st.integers(0, len(nodes) - 2))
            if j >= i:
                j += 1
        a, b = nodes[i], nodes[j]
        inc = draw(st.sampled_from(DYADIC)) if style == "dyadic" else draw(st.floats(0.001, 2.0, allow_nan=False, allow_infinity=False))
        h = max(a["h"], b["h"]) + inc
        nodes = [x for k, x in enumerate(nodes) if k not in (i, j)]
        nodes.append({"name": None, "h": h, "kids": [a, b]})

    def finish(nd, parent_h):
        out = {"name": nd["name"], "len": None if parent_h is None else parent_h - nd["h"], "kids": [finish(k, nd["h"]) for k in nd["kids"]]}
        return out

    tree = finish(nodes[0], None)
    tree["name"] = "root"
    return {"tree": tree, "height": nodes[0]["h"], "style": style, "order": draw(st.permutations(sorted(names)))}


def exec_upgma(case) -> Soft:
    from cogent3.cluster.UPGMA import upgma

    s = Soft("C15/upgma/")
    model = case["tree"]
    order = [str(x) for x in case["order"]]
    n = len(order)
    # the matrix is 2 x height of the last common ancestor, computed from the model's edge lengths
    dists = _dist_dict(model, order, "both", 0)
    what = f"generator {_brief(model)} key order {order}"
    clusters = {c for c in m_clusters(model) if len(c) > 1}
    cherries = m_cherries(model)
    s.cls(f"tips:{n}", "style:" + case["style"], "caterpillar" if cherries <= 1 else "non-caterpillar")
    s.nontrivial = n >= 5 and cherries >= 2
    snapshot = dict(dists)
    ok, t = s.call("upgma", lambda: upgma(dict(dists)))
    if ok:
        got = compare_tree(s, "upgma", t, model, what, rooted=True)
        if got is not None:
            depth = m_depths(got)
            H = float(case["height"])
            bad = [(k, v[-1][1]) for k, v in sorted(depth.items()) if abs(v[-1][1] - H) > 1e-9 * max(1.0, H)]
            s.check(not bad, "upgma/tip-heights", f"{what}: got {_brief(got)}; root height {H}, (tip, root-to-tip) {bad[:3]}")
            s.check(len(got["kids"]) == 2 or n < 2, "upgma/root-degree", f"{what}: got {_brief(got)}")
    s.check(dists == snapshot, "input-mutated", what)
    return s


SUBS = [
    Sub("estimators", exec_est, strategy=est_cases(), quick=1000, thorough=16 * 8000, shards_quick=16, weight=4.0),
    Sub("nj", exec_nj, strategy=nj_cases(), quick=1500, thorough=16 * 12000, shards_quick=8),
    Sub("upgma", exec_upgma, strategy=upgma_cases(), quick=800, thorough=16 * 8000, shards_quick=8),
]

KNOWN_PREDICATES = {}

META = {
    "technique": "Hypothesis-generated alignments against exact-rational re-implementations of the published distance formulas (plus metamorphic column/row permutations and entry-point differentials); generated trees -> additive / ultrametric matrices -> NJ / UPGMA reconstruction compared with a nested-list tree model",
    "level_text": "Each run generates several hundred alignments (gaps, ambiguity codes, duplicate rows, saturated and exactly-p=0.75 pairs, skewed and incomplete base composition) and evaluates every pair under seven estimators against formulas written in the harness with exact rational arithmetic, and about two thousand trees with positive branch lengths whose path-length matrices must be reconstructed exactly (bipartitions/clusters and all path lengths at 1e-9) by nj, gnj, DistanceMatrix.quick_tree, the quick_tree app and upgma.",
    "level_note": "Trusts the harness formulas (about 80 lines) and tree model (about 80 lines). Bounded to 6 rows x 204 columns and 12 tips in the quick tier; near-singular log arguments are excluded from value comparison; the 0.5 pseudo-count branch of paralinear/LogDet is not exercised as an oracle clause.",
    "design_ref": "DESIGN.md section 1, C15",
}
