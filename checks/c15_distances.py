"""C15 — closed-form distance estimators equal their published formulas and
NJ / UPGMA recover the generating tree from additive / ultrametric matrices.

Oracles (all written here, none taken from cogent3):

* estimators: the r x r pair count table (r = 4 for DNA/RNA, r = 21 for the
  protein moltype: 20 residues plus U) is built by a plain loop over the
  columns in which both symbols are canonical; p-distance, Hamming, JC69, TN93
  (Tamura & Nei 1993; nucleic acids only), paralinear (Lake 1994) and LogDet
  (Lockhart 1994, with and without the Tamura-Kumar 2002 coefficient) for r
  states are evaluated on it with exact rational / integer arithmetic up to
  the final ``log``; the determinant is an exact fraction-free (Bareiss)
  elimination on twice the table, whose empty diagonal cells hold the
  documented pseudo-count of 0.5.  Whether a formula is defined is decided
  exactly, values are compared at 1e-9.
* trees: a nested-list tree model; the additive (ultrametric) matrix is the
  model's path-length matrix, and the reconstructed tree is read structurally
  (children / name / length) and compared for bipartitions (rooted clusters),
  all tip-to-tip path lengths and, for UPGMA, the height of every tip.
"""

from __future__ import annotations

import itertools
import math
from fractions import Fraction

from hypothesis import strategies as st

from vlib.core import Soft, Sub

PROPERTY_ID = "C15"
LEVEL = "exploration"
RULE = (
    "estimators: a case is a generated DNA, RNA or protein alignment (2-6 rows, 8-221 columns) built from a base sequence with unequal "
    "composition by per-row substitution masks (transitions, two kinds of transversion, low/mid/high rates) and "
    "non-canonical masks (gaps, ?, N and two/three-fold IUPAC codes), with rows that are exact copies, copies that differ "
    "only in non-canonical columns, independent (saturated) rows, pairs with exactly 3/4 of the sites different and pairs "
    "without a shared canonical column; a conserved ACGT block is inserted in most cases; plus a column permutation, a row "
    "permutation and the choice Alignment/ArrayAlignment. Protein cases (2 in 5) use the same construction over the 21 canonical "
    "states of the protein moltype (full, skewed and 2-7 residue compositions, with and without U), three substitution kinds, "
    "the non-canonical symbols - ? X B Z and a conserved block of all 20 / all 21 / four residues or none, so that pair tables "
    "with a fully occupied diagonal and tables needing the 0.5 pseudo-count both occur. Every pair x {pdist, hamming, jc69, tn93, "
    "paralinear, logdet, logdet without TK adjustment} (protein: without jc69 / tn93, which must refuse the alignment with "
    "ValueError) is compared with the harness formulas for r states, including paralinear / LogDet on tables with empty diagonal "
    "cells (documented 0.5 pseudo-count); symmetry, zero diagonal, column-permutation and "
    "row-order invariance and agreement of aln.distance_matrix / get_distance_calculator / fast_slow_dist are checked; "
    "DistanceMatrix.drop_invalid and aln.distance_matrix(drop_invalid=True) must keep exactly the rows without an undefined "
    "distance (None when fewer than two remain) with unchanged values; aln.quick_tree(calc=, drop_invalid=) must have exactly "
    "the kept rows as tips and the path lengths of nj on the same distances. "
    "Non-trivial = some pair shows transitions and transversions (protein: at least three kinds of difference) and the composition is not uniform. "
    "nj: a case is an unrooted tree (3-12 tips, thorough tier 3-30; dyadic / float / short-internal / small-integer positive branch lengths; caterpillar, "
    "random binary or multifurcating shape), a tip naming, a key order and a key style for the distance dictionary; nj, "
    "gnj(keep=1), DistanceMatrix.quick_tree and the quick_tree app must return the generating bipartitions and path lengths "
    "(for a multifurcating generator: a binary refinement of it with the generating path lengths). For integer branch lengths "
    "a DNA alignment is built with one homoplasy-free two-state column per unit of branch length (plus constant, all-gap and all-N "
    "columns), whose hamming / p-distance matrix is the additive matrix: aln.distance_matrix must equal it and "
    "Alignment/ArrayAlignment.quick_tree(calc=hamming|pdist) must return the generating tree. "
    "Non-trivial = at least 5 tips and either at least 3 cherries (not a caterpillar) or a multifurcation. "
    "upgma: a case is a rooted binary ultrametric tree (3-12 tips, thorough tier 3-30; strictly increasing node heights) with a tip naming, "
    "key order and input form (dict, DistanceMatrix or both); upgma must return the generating clusters, path lengths and tip heights. Non-trivial = at least 5 tips and "
    "not a caterpillar. Distinct = distinct case encodings."
)
ASSUMPTIONS = [
    "moltypes dna, rna and protein, old-style Alignment / ArrayAlignment (the only classes offering distance_matrix(calc=<fast calculator>)); "
    "text and bytes alignments (accepted by pdist / hamming) are not generated: the old-style classes change such data on construction "
    "(upper-casing; '-' stored as 'T' in a text ArrayAlignment), which is outside this property",
    "the canonical states of the protein moltype are the 21 characters ACDEFGHIKLMNPQRSTUVWY (checked against list(aln.moltype) at run time, "
    "a mismatch is a harness error); r = 21 in the paralinear / LogDet formulas for protein, as the number of states of the moltype; "
    "jc69 / tn93 list dna and rna as their only valid moltypes and must raise ValueError for protein",
    "non-canonical columns (gap, ?, N / X, IUPAC ambiguity incl. B, Z in either sequence) are excluded pairwise, as the calculator docstrings state",
    "a pair without any shared canonical column has no defined distance (NaN expected); a pair with shared columns and no difference has distance 0 "
    "(for paralinear / LogDet 0 or NaN is accepted, the formula is 0 or 0*inf there)",
    "paralinear / LogDet on a pair table with empty diagonal cells: each empty diagonal cell holds 0.5 and the table is then normalised by its new sum "
    "(comment in _logdetcommon; pinned by test_paralinear_distance, test_logdet_variance, test_logdet_missing_states); the distance is undefined (NaN) "
    "when the determinant of that matrix is <= 0 (test_*_for_determinant_lte_zero)",
    "pairs whose exact log argument (TN93) is within 1e-4 of zero, or whose exact determinant (paralinear / LogDet) is zero, within 1e-5 of zero (4 states) "
    "or belongs to a frequency matrix with 2-norm condition number above 1e4, are not compared (ill-conditioned, classed near-boundary)",
    "estimator values compared at rtol 1e-9 (relative to max(1,|want|)); undefined must coincide exactly outside the near-boundary band",
    "aln.distance_matrix may raise the documented ArithmeticError only when the oracle finds an undefined or near-boundary pair; with drop_invalid=True it must not raise",
    "drop_invalid drops every name whose row / column holds a NaN (docstring 'drops all rows / columns with an invalid entry') and returns None when fewer than two "
    "names remain (test_dropping_from_matrix); the expected kept set is read from the calculator's own full matrix, whose entries are checked against the formulas",
    "aln.quick_tree is called only when at least two rows remain (what it does when every row is dropped is not specified); with drop_invalid=False and an undefined pair the documented ArithmeticError is allowed; "
    "for non-additive matrices its path lengths are compared with nj of the same distances (a wiring check), exactness is checked in the nj sub-check",
    "NJ generators have strictly positive branch lengths (>= 0.001); for binary generators the topology is unique and must be returned, for multifurcating "
    "generators (1 in 6) the binary result must contain every generating bipartition and reproduce all path lengths; UPGMA generators have strictly increasing node heights (increments >= 0.001); tolerance 1e-9",
    "distance dictionaries given to nj contain every unordered pair at least once (both orders, one order, or a mixture); those given to upgma contain both orders; "
    "upgma also receives a DistanceMatrix (the call form of doc/examples/calculate_UPGMA_cluster.rst)",
    "trees of 13-30 tips are generated in the thorough tier only",
]

CANON = "ACGT"
A, C, G, T = 0, 1, 2, 3
NONCANON = "-?NRYWSKMBDHV"
# the canonical states of cogent3's (old-style) PROTEIN moltype: the 20 standard residues plus U (selenocysteine)
PROT = "ACDEFGHIKLMNPQRSTUVWY"
PROT20 = "ACDEFGHIKLMNPQRSTVWY"
NONCANON_PROT = "-?XBZ"
STATES = {"dna": "ACGT", "rna": "ACGU", "protein": PROT}
TS = {"A": "G", "G": "A", "C": "T", "T": "C"}
TV1 = {"A": "C", "C": "A", "G": "T", "T": "G"}
TV2 = {"A": "T", "T": "A", "G": "C", "C": "G"}
# protein substitution kinds: three fixed-point-free rotations of a residue ordering that keeps similar residues adjacent
_PORDER = "ILVMFYWHKRDENQSTAGCPU"
PSUB = {k: {ch: _PORDER[(i + step) % len(_PORDER)] for i, ch in enumerate(_PORDER)} for k, step in (("s", 1), ("v", 4), ("w", 10))}
NSUB = {"s": TS, "v": TV1, "w": TV2}
CALCS = ["pdist", "hamming", "jc69", "tn93", "paralinear", "logdet", "logdet_notk"]
NUC_ONLY = ("jc69", "tn93")
LOGDET_LIKE = ("paralinear", "logdet", "logdet_notk")
UNDEF = "undefined"
SKIP = "skip"
COND_MAX = 1e4  # 2-norm condition number of the frequency matrix above which paralinear / LogDet values are not compared


def calcs_for(moltype: str):
    return [c for c in CALCS if moltype != "protein" or c not in NUC_ONLY]


# ------------------------------------------------------------ estimator oracle
def state_index(moltype: str):
    if moltype == "protein":
        return {ch: i for i, ch in enumerate(PROT)}
    return {"A": A, "C": C, "G": G, "T": T, "U": T}


def pair_counts(a: str, b: str, moltype: str = "dna"):
    """r x r counts over the columns where both symbols are canonical (T and U are the same nucleic acid state)"""
    idx = state_index(moltype)
    r = len(STATES[moltype])
    n = [[0] * r for _ in range(r)]
    for x, y in zip(a, b):
        i = idx.get(x)
        j = idx.get(y)
        if i is None or j is None:
            continue
        n[i][j] += 1
    return n


def masked(seq: str, moltype: str = "dna") -> str:
    keep = "ACGTU" if moltype != "protein" else PROT
    return "".join(ch if ch in keep else "*" for ch in seq)


def det_int(m):
    """exact determinant of a square matrix of ints (fraction-free Bareiss elimination)"""
    m = [row[:] for row in m]
    n = len(m)
    sign = 1
    prev = 1
    for c in range(n - 1):
        piv = next((r for r in range(c, n) if m[r][c] != 0), None)
        if piv is None:
            return 0
        if piv != c:
            m[c], m[piv] = m[piv], m[c]
            sign = -sign
        for r in range(c + 1, n):
            for k in range(c + 1, n):
                m[r][k] = (m[r][k] * m[c][c] - m[r][c] * m[c][k]) // prev  # the division is exact
        prev = m[c][c]
    return sign * m[n - 1][n - 1]


def _cond(m) -> float:
    """2-norm condition number (floating point; only used to decide whether a value is compared)"""
    import numpy

    try:
        c = float(numpy.linalg.cond(numpy.array(m, dtype=float)))
    except numpy.linalg.LinAlgError:
        return math.inf
    return math.inf if math.isnan(c) else c


def oracle(n, nucleic=True):
    """{calc: float | UNDEF | SKIP} for one r x r pair count table, plus descriptive facts"""
    r = len(n)
    calcs = [c for c in CALCS if nucleic or c not in NUC_ONLY]
    N = sum(sum(row) for row in n)
    same = sum(n[i][i] for i in range(r))
    diffs = N - same
    out = {}
    facts = {"N": N, "diffs": diffs}
    if N == 0:
        return {c: UNDEF for c in calcs}, facts
    if diffs == 0:
        return {c: 0.0 for c in calcs}, facts
    p = Fraction(diffs, N)
    out["pdist"] = float(p)
    out["hamming"] = float(diffs)
    row = [sum(n[i]) for i in range(r)]
    col = [sum(n[i][j] for i in range(r)) for j in range(r)]
    g = [Fraction(row[i] + col[i], 2 * N) for i in range(r)]
    if nucleic:
        # JC69
        out["jc69"] = UNDEF if p >= Fraction(3, 4) else -0.75 * math.log(float(1 - Fraction(4, 3) * p))
        # TN93
        gR, gY = g[A] + g[G], g[C] + g[T]
        P1 = Fraction(n[A][G] + n[G][A], N)
        P2 = Fraction(n[C][T] + n[T][C], N)
        Q = Fraction(sum(n[i][j] + n[j][i] for i in (A, G) for j in (C, T)), N)
        facts.update(ts=P1 + P2 > 0, tv=Q > 0, uniform=all(x == Fraction(1, 4) for x in g))
        if g[A] * g[G] == 0 or g[C] * g[T] == 0:
            out["tn93"] = UNDEF
        else:
            k1 = 2 * g[A] * g[G] / gR
            k2 = 2 * g[T] * g[C] / gY
            k3 = 2 * (gR * gY - g[A] * g[G] * gY / gR - g[T] * g[C] * gR / gY)
            w = [1 - P1 / k1 - Q / (2 * gR), 1 - P2 / k2 - Q / (2 * gY), 1 - Q / (2 * gR * gY)]
            if any(abs(x) < Fraction(1, 10**4) for x in w):
                out["tn93"] = SKIP
            elif any(x < 0 for x in w):
                out["tn93"] = UNDEF
            else:
                out["tn93"] = -float(k1) * math.log(float(w[0])) - float(k2) * math.log(float(w[1])) - float(k3) * math.log(float(w[2]))
    else:
        kinds = sum(1 for i in range(r) for j in range(r) if i != j and n[i][j])
        facts.update(ts=diffs > 0, tv=kinds >= 3, uniform=all(x == g[0] for x in g))
    # paralinear / LogDet on the table whose empty diagonal cells hold the documented pseudo-count of 0.5.  Everything is
    # evaluated on twice the table (integers): J = M / S, and S cancels in det(J) / sqrt(prod fx * prod fy)
    M = [[2 * n[i][j] for j in range(r)] for i in range(r)]
    empty = [i for i in range(r) if n[i][i] == 0]
    for i in empty:
        M[i][i] = 1
    facts["pseudo_count_domain"] = bool(empty)
    S = sum(sum(rw) for rw in M)
    d = det_int(M)
    cond = _cond(M) if d else math.inf
    facts["cond"] = cond
    if d == 0 or cond > COND_MAX or (r == 4 and abs(Fraction(d, S**r)) < Fraction(1, 10**5)):
        out["paralinear"] = out["logdet"] = out["logdet_notk"] = SKIP
    elif d < 0:
        out["paralinear"] = out["logdet"] = out["logdet_notk"] = UNDEF
    else:
        rs = [sum(M[i]) for i in range(r)]
        cs = [sum(M[i][j] for i in range(r)) for j in range(r)]
        larg = math.log(d) - 0.5 * sum(math.log(x) for x in rs + cs)  # log(det J / sqrt(prod fx * prod fy))
        out["paralinear"] = -larg / r
        hom = 1 - sum(Fraction(rs[i] + cs[i], 2 * S) ** 2 for i in range(r))
        out["logdet"] = -float(hom) / (r - 1) * larg
        out["logdet_notk"] = -(math.log(d) - r * math.log(S)) / r - math.log(r)
    return out, facts


# --------------------------------------------------------- estimator generator
BASE_ALPHABETS = ["ACGT", "AAAACCGT", "ACCCGGGGTT", "AACGGGGTTTTT", "ACGTTTTT", "AC", "ACG", "AGT"]
PROT_ALPHABETS = [PROT20, "AAAALLLLGGGSSSVVEEKKDTPRINQFYHMCW", PROT, "AAAALLLGGSVEKU", "GASTLVK", "KRDEH", "ACDE", "AL"]
SUB_MASKS = {
    "none": ".",
    "low": "." * 40 + "ssv",
    "mid": "." * 12 + "sssvw",
    "high": "." * 3 + "sssvvww",
}
NOISE_MASKS = {
    "none": "",
    "gaps": "----",
    "some": "--?NRY",
    "heavy": "------??NNRYWSKMBDHV",
}
PROT_NOISE_MASKS = {
    "none": "",
    "gaps": "----",
    "some": "--?XBZ",
    "heavy": "------??XXXXBBZZ",
}
# conserved blocks inserted into every row: they decide which diagonal cells of the count tables are occupied
NUC_BLOCKS = ["ACGT"] * 6 + [""]
PROT_BLOCKS = [PROT20] * 3 + [PROT] * 3 + ["ACDE", "", ""]


def apply_mask(seq: str, mask: str, sub=NSUB) -> str:
    out = []
    for ch, m in zip(seq, mask):
        if m == ".":
            out.append(ch)
        elif m in "svw":
            out.append(sub[m].get(ch, ch))
        else:
            out.append(m)
    return "".join(out)


def _text(alphabet: str, L: int):
    return st.text(alphabet=st.sampled_from(list(alphabet)), min_size=L, max_size=L)


@st.composite
def est_cases(draw):
    protein = draw(st.sampled_from([False, False, False, True, True]))
    alphabets = PROT_ALPHABETS if protein else BASE_ALPHABETS
    sub = PSUB if protein else NSUB
    noise_masks = PROT_NOISE_MASKS if protein else NOISE_MASKS
    modes = ["divergent"] * 10 + ["dups"] * 3 + ["gapdups"] * 3 + ["saturated"] * 2 + ["disjoint"] + ([] if protein else ["exact075"])
    mode = draw(st.sampled_from(modes))
    n = draw(st.sampled_from([2, 3, 3, 4, 4, 5, 6]))
    L = draw(st.sampled_from([8, 12, 16, 20, 24, 32, 40, 48, 60, 80, 120, 200]))
    if mode == "exact075":
        L = 16 + 4 * draw(st.integers(0, 12))
    base_alpha = draw(st.sampled_from(alphabets))
    base = draw(_text(base_alpha, L))
    noise = draw(st.sampled_from(["none", "none", "gaps", "some", "heavy"]))
    rows = []
    kinds = []
    for i in range(n):
        if mode == "divergent" or i == 0:
            kind = "mut"
        elif mode == "dups":
            kind = draw(st.sampled_from(["copy", "copy", "mut"]))
        elif mode == "gapdups":
            kind = draw(st.sampled_from(["gapcopy", "gapcopy", "copy", "mut"]))
        elif mode == "saturated":
            kind = draw(st.sampled_from(["indep", "indep", "mut"]))
        elif mode == "exact075":
            kind = "q3" if i == 1 else draw(st.sampled_from(["mut", "copy"]))
        else:  # disjoint
            kind = "disjoint" if i == 1 else draw(st.sampled_from(["mut", "gapcopy"]))
        kinds.append(kind)
        if kind == "mut":
            rate = draw(st.sampled_from(["low", "mid", "mid", "high", "low", "none"]))
            alpha = SUB_MASKS[rate] + (noise_masks[noise] if mode != "exact075" else "")
            seq = apply_mask(base, draw(_text(alpha, L)), sub)
        elif kind == "copy":
            seq = rows[draw(st.integers(0, i - 1))]
        elif kind == "gapcopy":
            src = rows[draw(st.integers(0, i - 1))]
            alpha = "." * draw(st.sampled_from([2, 6, 20])) + noise_masks[draw(st.sampled_from(["gaps", "some", "heavy"]))]
            seq = apply_mask(src, draw(_text(alpha, L)), sub)
        elif kind == "indep":
            seq = draw(_text(draw(st.sampled_from(alphabets[:5])), L))
        elif kind == "q3":
            # exactly three of every four columns differ from row 0 (which is canonical everywhere in this mode)
            kindmask = draw(_text("svw", L))
            seq = apply_mask(rows[0], "".join("." if k % 4 == 0 else kindmask[k] for k in range(L)), sub)
        else:  # disjoint: canonical exactly where row 0 is not
            cut = draw(st.integers(1, L - 1))
            rows[0] = rows[0][:cut] + "-" * (L - cut)
            seq = "-" * cut + draw(_text(alphabets[0], L - cut))
        rows.append(seq)
    block = ""
    if mode not in ("exact075", "disjoint"):
        block = draw(st.sampled_from(PROT_BLOCKS if protein else NUC_BLOCKS))
    if block:
        pos = draw(st.integers(0, L))
        rows = [r[:pos] + block + r[pos:] for r in rows]
        L += len(block)
    moltype = "protein" if protein else draw(st.sampled_from(["dna", "dna", "rna"]))
    if moltype == "rna":
        rows = [r.replace("T", "U") for r in rows]
    names = draw(st.permutations([f"s{i}" for i in range(n)]))
    return {
        "mode": mode,
        "moltype": moltype,
        "array_align": draw(st.booleans()),
        "rows": [[names[i], rows[i]] for i in range(n)],
        "colperm": draw(st.permutations(list(range(L)))),
        "roworder": draw(st.permutations(list(range(n)))),
        "calc": draw(st.sampled_from([c for c in CALCS[:6] if not (protein and c in NUC_ONLY)])),
        "drop": draw(st.booleans()),
    }


# ----------------------------------------------------------- estimator execute
def _isnan(x) -> bool:
    try:
        return math.isnan(float(x))
    except (TypeError, ValueError):
        return False


def _same(a, b, rtol=1e-12) -> bool:
    if a is None or b is None:
        return a is None and b is None
    a, b = float(a), float(b)
    if math.isnan(a) or math.isnan(b):
        return math.isnan(a) and math.isnan(b)
    if math.isinf(a) or math.isinf(b):
        return a == b
    return abs(a - b) <= rtol * max(1.0, abs(a), abs(b))


def _run_calc(calc, aln, label=None):
    """pairwise distance dict {(a, b): float} from a directly constructed calculator (moltype given as object, or by its label)"""
    from cogent3.evolve.fast_distance import get_distance_calculator

    mt = aln.moltype if label is None else label
    if calc == "logdet_notk":
        c = get_distance_calculator("logdet", moltype=mt, alignment=aln, use_tk_adjustment=False)
    else:
        c = get_distance_calculator(calc, moltype=mt, alignment=aln)
    c.run(show_progress=False)
    return c.get_pairwise_distances()


def _make_aln(rows, moltype, array_align):
    from cogent3 import make_aligned_seqs

    return make_aligned_seqs(dict(rows), moltype=moltype, array_align=array_align)


def _dm_dict(dm):
    return {(str(a), str(b)): float(v) for (a, b), v in dm.to_dict().items()}


def exec_est(case) -> Soft:
    s = Soft("C15/est/")
    rows = [(str(nm), str(sq)) for nm, sq in case["rows"]]
    names = [r[0] for r in rows]
    seqs = dict(rows)
    n = len(rows)
    L = len(rows[0][1])
    moltype = case["moltype"]
    if moltype not in STATES:
        raise ValueError(f"unknown moltype in case: {moltype!r}")
    protein = moltype == "protein"
    calcs = calcs_for(moltype)
    states = set(STATES[moltype]) | ({"T", "U"} if not protein else set())
    ok, aln = s.call("make_aligned_seqs", _make_aln, rows, moltype, bool(case["array_align"]))
    if not ok:
        return s
    s.cls("mode:" + case["mode"], "moltype:" + moltype, "ArrayAlignment" if case["array_align"] else "Alignment", f"rows:{n}")

    # ---- model
    pairs = list(itertools.combinations(names, 2))
    want = {}
    facts = {}
    msk = {nm: masked(seqs[nm], moltype) for nm in names}
    gap_equal = set()  # rows with a partner that is equal on shared canonical columns but is not the same row
    for a, b in pairs:
        cnt = pair_counts(seqs[a], seqs[b], moltype)
        o, f = oracle(cnt, nucleic=not protein)
        if msk[a] == msk[b]:
            o = {c: 0.0 for c in calcs}
            f["identical"] = True
        elif f["diffs"] == 0:
            gap_equal.update([a, b])
        want[(a, b)] = o
        facts[(a, b)] = f
    if any(ch not in states for sq in seqs.values() for ch in sq):
        s.cls("non-canonical")
    if any(ch in "-?" for sq in seqs.values() for ch in sq):
        s.cls("gaps")
    if any(ch in ("XBZ" if protein else "NRYWSKMBDHV") for sq in seqs.values() for ch in sq):
        s.cls("ambiguity-codes")
    if protein and any("U" in sq for sq in seqs.values()):
        s.cls("selenocysteine")
    if any(f.get("identical") for f in facts.values()):
        s.cls("identical-rows")
    if gap_equal:
        s.cls("gap-equal-rows")
    if any(f["N"] == 0 and not f.get("identical") for f in facts.values()):
        s.cls("no-shared-columns")
    if any(f["N"] and f["diffs"] * 4 >= f["N"] * 3 for f in facts.values()):
        s.cls("saturated-pair")
    if any(f["N"] and f["diffs"] * 4 == f["N"] * 3 for f in facts.values()):
        s.cls("p-exactly-0.75")
    tag = "protein/" if protein else ""
    for c in calcs:
        vals = [want[p][c] for p in pairs]
        if UNDEF in vals:
            s.cls(f"undefined:{tag}{c}")
        if SKIP in vals:
            s.cls(f"not-compared:{tag}{c}")
        if any(isinstance(v, float) and v > 0 for v in vals):
            s.cls(f"value:{tag}{c}")
        if c == "paralinear":
            # how often the pseudo-count clause is reached (a compared value / undefined on a table with an empty diagonal cell)
            pc = [want[p][c] for p in pairs if facts[p].get("pseudo_count_domain") and not facts[p].get("identical")]
            if any(isinstance(v, float) and v > 0 for v in pc):
                s.cls(f"pseudo-count:{tag}value")
            if UNDEF in pc:
                s.cls(f"pseudo-count:{tag}undefined")
            if SKIP in pc:
                s.cls(f"pseudo-count:{tag}not-compared")
            full = [want[p][c] for p in pairs if facts[p].get("pseudo_count_domain") is False]
            if any(isinstance(v, float) and v > 0 for v in full):
                s.cls(f"full-diagonal:{tag}value")
    s.nontrivial = any(f.get("ts") and f.get("tv") and not f.get("uniform") for f in facts.values())

    # ---- every estimator against the formulas
    evals = 0
    direct = {}
    if protein:
        ok, st_real = s.call("moltype-states", lambda: "".join(str(x) for x in aln.moltype))
        if ok and sorted(st_real) != sorted(PROT):
            raise ValueError(f"harness assumption broken: canonical protein states are {st_real!r}, modelled {PROT!r}")
        for c in NUC_ONLY:
            # documented: jc69 / tn93 are for dna and rna only (valid_moltypes; ValueError)
            ok, _v = s.call(f"{c}/protein", _run_calc, c, aln, allowed=(ValueError,))
            s.check(not ok, f"{c}/protein-accepted", f"{c} calculator accepted a protein alignment {rows}")
    for c in calcs:
        ok, dm = s.call(f"{c}/run", _run_calc, c, aln)
        if not ok:
            continue
        ok, got = s.call(f"{c}/to_dict", _dm_dict, dm)
        if not ok:
            continue
        direct[c] = (dm, got)
        lp = c in LOGDET_LIKE
        for a, b in pairs:
            w = want[(a, b)][c]
            f = facts[(a, b)]
            evals += 1
            if (a, b) not in got or (b, a) not in got:
                s.fail(f"{c}/missing-pair", f"{(a, b)} absent from to_dict() of {names}")
                continue
            g1, g2 = got[(a, b)], got[(b, a)]
            s.check(_same(g1, g2, 0.0), f"{c}/symmetry", f"d[{a},{b}]={g1!r} d[{b},{a}]={g2!r}")
            if w == SKIP:
                continue
            if a in gap_equal or b in gap_equal:
                circ = "value/no-shared-columns" if f["N"] == 0 else "value/gap-equal-rows"
                sig = circ  # one root cause for all estimators: the duplicate shortcut
            else:
                sig = f"{c}/value" + ("/protein" if protein else "") + ("/pseudo-count" if lp and f.get("pseudo_count_domain") else "")
            what = f"{c} {a}={seqs[a]!r} {b}={seqs[b]!r} (rows {names}; shared canonical columns {f['N']}, differences {f['diffs']})"
            if w == UNDEF:
                s.check(_isnan(g1), sig + ("" if sig.startswith("value/") else "/defined-where-formula-is-not"), f"{what}: got {g1!r}, the formula is undefined")
            elif w == 0.0 and lp:
                s.check(_isnan(g1) or g1 == 0.0, sig, f"{what}: got {g1!r} want 0 (or undefined)")
            else:
                if _isnan(g1):
                    s.fail(sig + ("" if sig.startswith("value/") else "/undefined-where-formula-is-defined"), f"{what}: got nan want {w!r}")
                else:
                    s.close(g1, w, sig, what, rtol=1e-9)
        # zero diagonal, accessors
        ok, arr = s.call(f"{c}/array", lambda: [[float(x) for x in r] for r in dm.array])
        if ok:
            dn = [str(x) for x in dm.names]
            s.eq(sorted(dn), sorted(names), f"{c}/names", "DistanceMatrix.names")
            if sorted(dn) == sorted(names) and len(arr) == n:
                s.check(all(arr[i][i] == 0.0 for i in range(n)), f"{c}/diagonal", f"diagonal {[arr[i][i] for i in range(n)]}")
                bad = [(dn[i], dn[j]) for i in range(n) for j in range(n) if i != j and not _same(arr[i][j], got.get((dn[i], dn[j])), 0.0)]
                s.check(not bad, f"{c}/array-vs-to_dict", f"{bad[:3]}")
    s.evals = max(1, evals)

    # ---- invariances and entry points for the case's estimator
    c = case["calc"]
    if c not in direct:
        return s
    dm, got = direct[c]
    circ = "/gap-equal-rows" if gap_equal else ""
    perm = [int(k) for k in case["colperm"]]
    if sorted(perm) == list(range(L)):
        prow = [(nm, "".join(sq[k] for k in perm)) for nm, sq in rows]
        ok, aln2 = s.call("make_aligned_seqs", _make_aln, prow, moltype, bool(case["array_align"]))
        if ok:
            ok, dm2 = s.call(f"{c}/run", _run_calc, c, aln2, moltype)  # moltype by label: get_distance_calculator(c, moltype="protein", alignment=aln)
            if ok:
                g2 = _dm_dict(dm2)
                bad = [(p, got.get(p), g2.get(p)) for p in got if not _same(got[p], g2.get(p))]
                s.check(not bad, f"{c}/column-order", f"rows {rows}, permutation {perm}: (pair, original, permuted) {bad[:3]}")
    order = [int(k) for k in case["roworder"]]
    if sorted(order) == list(range(n)) and order != list(range(n)):
        rrow = [rows[k] for k in order]
        ok, aln3 = s.call("make_aligned_seqs", _make_aln, rrow, moltype, bool(case["array_align"]))
        if ok:
            ok, dm3 = s.call(f"{c}/run", _run_calc, c, aln3)
            if ok:
                g3 = _dm_dict(dm3)
                # transposing an ill-conditioned count table may flip the sign of a numerically zero determinant
                cmp = [p for p in got if (want.get(p) or want.get((p[1], p[0])) or {}).get(c) != SKIP]
                bad = [(p, got.get(p), g3.get(p)) for p in cmp if not _same(got[p], g3.get(p))]
                s.check(not bad, f"row-order{circ}" if circ else f"{c}/row-order", f"{c}: rows {rows} reordered {[r[0] for r in rrow]}: (pair, original, reordered) {bad[:3]}")
                s.cls("row-order-changed")
    if c != "logdet_notk":
        all_defined = all(isinstance(want[p][c], float) for p in pairs)
        allowed = () if all_defined and not gap_equal else (ArithmeticError,)
        ok, dm4 = s.call(f"{c}/aln.distance_matrix", lambda: aln.distance_matrix(calc=c), allowed=allowed)
        if ok:
            g4 = _dm_dict(dm4)
            bad = [(p, got.get(p), g4.get(p)) for p in got if not _same(got[p], g4.get(p), 0.0)]
            s.check(not bad and len(g4) == len(got), f"{c}/aln.distance_matrix-vs-calculator", f"rows {rows}: {bad[:3]}")
            s.cls("distance_matrix:returned")
        else:
            s.cls("distance_matrix:ArithmeticError")

        def app_run():
            from cogent3.app.dist import fast_slow_dist

            return fast_slow_dist(fast_calc=c, moltype=moltype)(aln)

        ok, dm5 = s.call(f"{c}/fast_slow_dist", app_run)
        if ok:
            if not hasattr(dm5, "to_dict") or type(dm5).__name__ == "NotCompleted":
                s.fail(f"{c}/fast_slow_dist/not-completed", f"rows {rows}: {str(dm5)[:300]}")
            else:
                g5 = _dm_dict(dm5)
                bad = [(p, got.get(p), g5.get(p)) for p in got if not _same(got[p], g5.get(p), 0.0)]
                s.check(not bad and len(g5) == len(got), f"{c}/fast_slow_dist-vs-calculator", f"rows {rows}: {bad[:3]}")

        # ---- drop_invalid: every row / column holding an undefined distance is dropped (None when fewer than two remain)
        invalid = sorted({a for (a, b), v in got.items() if _isnan(v)})
        kept = [nm for nm in names if nm not in invalid]
        s.cls("drop_invalid:nothing-to-drop" if not invalid else "drop_invalid:none-left" if len(kept) < 2 else "drop_invalid:some-dropped")

        def check_dropped(sig, dmx):
            what = f"{c}: rows {rows}; rows with an undefined distance {invalid}"
            if len(kept) < 2:
                s.check(dmx is None, sig + "/too-few-left-not-None", f"{what}: got {str(dmx)[:200]}")
                return
            if dmx is None or not hasattr(dmx, "to_dict"):
                s.fail(sig + "/no-matrix", f"{what}: got {dmx!r}")
                return
            gx = _dm_dict(dmx)
            s.eq(sorted(str(x) for x in dmx.names), sorted(kept), sig + "/names", what)
            wantx = {k: v for k, v in got.items() if k[0] in kept and k[1] in kept}
            bad = [(k, v, gx.get(k)) for k, v in wantx.items() if not _same(v, gx.get(k), 0.0)]
            s.check(not bad and len(gx) == len(wantx), sig + "/values", f"{what}: (pair, full matrix, after dropping) {bad[:3]}")

        ok, dm6 = s.call(f"{c}/DistanceMatrix.drop_invalid", dm.drop_invalid)
        if ok:
            check_dropped("DistanceMatrix.drop_invalid", dm6)
            again = _dm_dict(dm)
            s.check(all(_same(v, again.get(k), 0.0) for k, v in got.items()) and len(again) == len(got), "DistanceMatrix.drop_invalid/receiver-changed", f"{c}: rows {rows}")
        if case.get("drop"):
            ok, dm7 = s.call(f"{c}/aln.distance_matrix[drop_invalid]", lambda: aln.distance_matrix(calc=c, drop_invalid=True))
            if ok:
                check_dropped("aln.distance_matrix[drop_invalid]", dm7)

        # ---- Alignment.quick_tree(calc=): the neighbour joining tree of the same distances, on the rows that were kept
        drop = bool(case.get("drop"))
        tips_want = kept if drop else names
        if len(tips_want) >= 2:
            allowed = (ArithmeticError,) if invalid and not drop else ()
            ok, qt = s.call(f"{c}/aln.quick_tree", lambda: aln.quick_tree(calc=c, drop_invalid=drop, show_progress=False), allowed=allowed)
            if ok:
                s.cls("aln.quick_tree:returned")
                what = f"aln.quick_tree(calc={c!r}, drop_invalid={drop}) rows {rows}"
                ok, obs = s.call("aln.quick_tree/observe", observe_real, qt)
                if ok and s.eq(sorted(str(x) for x in m_tips(obs)), sorted(tips_want), "aln.quick_tree/tips", what):
                    from cogent3.phylo.nj import nj

                    sub = {k: v for k, v in got.items() if k[0] in tips_want and k[1] in tips_want}
                    if not any(_isnan(v) for v in sub.values()):
                        ok, ref = s.call("nj", lambda: nj(sub, show_progress=False))
                        if ok:
                            gp, rp = m_paths(obs), m_paths(observe_real(ref))
                            bad = [(k, gp.get(k), v) for k, v in rp.items() if gp.get(k) is None or abs(gp[k] - v) > 1e-9 * max(1.0, abs(v))]
                            s.check(not bad, "aln.quick_tree/differs-from-nj-of-its-distance-matrix", f"{what}: (pair, quick_tree, nj) {bad[:3]}")
            else:
                s.cls("aln.quick_tree:ArithmeticError")
    return s


# ------------------------------------------------------------------ tree model
def m_tips(node):
    if not node["kids"]:
        return [node["name"]]
    out = []
    for k in node["kids"]:
        out.extend(m_tips(k))
    return out


def m_clusters(node):
    """frozensets of tips below every non-root internal node"""
    acc = set()

    def walk(nd, root):
        if not nd["kids"]:
            return frozenset([nd["name"]])
        mine = frozenset()
        for k in nd["kids"]:
            mine |= walk(k, False)
        if not root:
            acc.add(mine)
        return mine

    walk(node, True)
    return acc


def m_splits(node):
    alltips = frozenset(m_tips(node))
    ref = min(alltips)
    out = set()
    for c in m_clusters(node):
        other = alltips - c
        if len(c) < 2 or len(other) < 2:
            continue
        out.add(other if ref in c else c)
    return out


def m_depths(node):
    """{tip: [(node id, cumulative length from root), ...]}"""
    depth = {}

    def walk(nd, anc, root):
        here = (anc[-1][1] if anc else 0.0) + (0.0 if root else float(nd["len"] or 0.0))
        cur = anc + [(id(nd), here)]
        if not nd["kids"]:
            depth[nd["name"]] = cur
        for k in nd["kids"]:
            walk(k, cur, False)

    walk(node, [], True)
    return depth


def m_paths(node):
    depth = m_depths(node)
    out = {}
    for a, b in itertools.combinations(sorted(depth), 2):
        pa, pb = depth[a], depth[b]
        i = 0
        while i < min(len(pa), len(pb)) and pa[i][0] == pb[i][0]:
            i += 1
        lca = pa[i - 1][1]
        out[(a, b)] = (pa[-1][1] - lca) + (pb[-1][1] - lca)
    return out


def m_total_length(node, root=True):
    return (0.0 if root else float(node["len"])) + sum(m_total_length(k, False) for k in node["kids"])


def m_polytomy(node, root=True):
    return len(node["kids"]) > (3 if root else 2) or any(m_polytomy(k, False) for k in node["kids"])


def m_cherries(node):
    cnt = 0
    kids = node["kids"]
    if kids and sum(1 for k in kids if not k["kids"]) >= 2:
        cnt += 1
    return cnt + sum(m_cherries(k) for k in kids)


def observe_real(tree):
    def rd(nd):
        return {"name": nd.name, "len": nd.length, "kids": [rd(ch) for ch in nd.children]}

    return rd(tree)


def _brief(nd):
    def nw(x):
        lab = "" if x["name"] is None or x["kids"] else str(x["name"])
        ln = "" if x["len"] is None else f":{x['len']:g}"
        if x["kids"]:
            return "(" + ",".join(nw(k) for k in x["kids"]) + ")" + lab + ln
        return lab + ln

    return nw(nd)[:500]


TIP_NAMES = ["t0", "t1", "t2", "t3", "t4", "t5", "t6", "t7", "t8", "t9", "t10", "t11", "Human", "Mouse", "x_1", "b"]
MORE_TIP_NAMES = TIP_NAMES + [f"t{i}" for i in range(12, 30)]
SIZES_QUICK = [3, 4, 5, 6, 6, 7, 7, 8, 8, 9, 9, 10, 11, 12]
SIZES_THOROUGH = SIZES_QUICK + [13, 14, 15, 16, 18, 20, 22, 24, 27, 30]
DYADIC = [0.125, 0.25, 0.5, 0.75, 1.0, 1.5, 2.0, 3.0]


@st.composite
def _length(draw, style, internal):
    if style == "dyadic":
        return draw(st.sampled_from(DYADIC))
    if style == "columns":
        return draw(st.sampled_from([1, 1, 2, 3, 5]))
    if style == "short-internal":
        if internal:
            return draw(st.floats(0.001, 0.01, allow_nan=False, allow_infinity=False))
        return draw(st.floats(0.5, 3.0, allow_nan=False, allow_infinity=False))
    return draw(st.floats(0.001, 3.0, allow_nan=False, allow_infinity=False))


@st.composite
def nj_cases(draw, tier="quick"):
    n = draw(st.sampled_from(SIZES_THOROUGH if tier == "thorough" else SIZES_QUICK))
    names = draw(st.permutations(MORE_TIP_NAMES if n > len(TIP_NAMES) else TIP_NAMES))[:n]
    style = draw(st.sampled_from(["dyadic", "dyadic", "float", "short-internal", "columns"]))
    shape = draw(st.sampled_from(["random", "random", "random", "random", "polytomy", "caterpillar"]))
    nodes = [{"name": nm, "len": draw(_length(style, False)), "kids": []} for nm in names]
    root_deg = 3
    if shape == "polytomy" and n > 3:
        root_deg = draw(st.sampled_from([3, 3, 4]))
    while len(nodes) > root_deg:
        if shape == "polytomy":
            k = min(draw(st.sampled_from([2, 3, 3, 4])), len(nodes) - root_deg + 1)
            idx = draw(st.lists(st.integers(0, len(nodes) - 1), min_size=k, max_size=k, unique=True))
        elif shape == "caterpillar":
            idx = [len(nodes) - 1, draw(st.integers(0, len(nodes) - 2))]
        else:
            i = draw(st.integers(0, len(nodes) - 1))
            j = draw(st.integers(0, len(nodes) - 2))
            idx = [i, j + 1 if j >= i else j]
        kids = [nodes[k] for k in idx]
        nodes = [x for k, x in enumerate(nodes) if k not in idx]
        nodes.append({"name": None, "len": draw(_length(style, True)), "kids": kids})
    tree = {"name": "root", "len": None, "kids": nodes}
    return {
        "tree": tree,
        "style": style,
        "order": draw(st.permutations(sorted(names))),
        "keys": draw(st.sampled_from(["both", "both", "one", "mixed"])),
        "flip": draw(st.integers(0, 2**30)),
        # style "columns" only: the alignment that realises the tree (one two-state column per unit of branch length)
        "aln": {
            "array_align": draw(st.booleans()),
            "calc": draw(st.sampled_from(["hamming", "pdist"])),
            "states": draw(st.lists(st.sampled_from(["AG", "CT", "AC", "GT", "TA", "GC"]), min_size=1, max_size=7)),
            "gap_column": draw(st.booleans()),
        }
        if style == "columns"
        else None,
    }


def _dist_dict(model, order, keys, flip):
    paths = m_paths(model)
    d = {}
    k = 0
    for a in order:
        for b in order:
            if a == b:
                continue
            v = paths[(a, b)] if (a, b) in paths else paths[(b, a)]
            first = (a, b) not in d and (b, a) not in d
            if keys == "both":
                d[(a, b)] = v
            elif first:
                if keys == "mixed" and (flip >> (k % 30)) & 1:
                    d[(b, a)] = v
                else:
                    d[(a, b)] = v
                k += 1
    return d


def compare_tree(s: Soft, sig, real_tree, model, what, rooted, tol=1e-9, refine_ok=False):
    ok, got = s.call(sig + "/observe", observe_real, real_tree)
    if not ok:
        return None
    want_tips = sorted(m_tips(model))
    got_tips = m_tips(got)
    if not s.eq(sorted(map(str, got_tips)), want_tips, sig + "/tips", what):
        return None
    if rooted:
        wc = {c for c in m_clusters(model) if len(c) > 1}
        gc = {c for c in m_clusters(got) if len(c) > 1}
        s.check(wc == gc, sig + "/clusters", f"{what}: got {_brief(got)}; lost {sorted(map(sorted, wc - gc))[:3]} extra {sorted(map(sorted, gc - wc))[:3]}")
    else:
        ws, gs = m_splits(model), m_splits(got)
        s.check(ws <= gs if refine_ok else ws == gs, sig + "/topology", f"{what}: got {_brief(got)}; lost {sorted(map(sorted, ws - gs))[:3]} extra {sorted(map(sorted, gs - ws))[:3]}")
    lens_ok = True

    def all_len(nd, root=True):
        return (root or nd["len"] is not None) and all(all_len(k, False) for k in nd["kids"])

    if not all_len(got):
        s.fail(sig + "/missing-length", f"{what}: got {_brief(got)}")
        lens_ok = False
    if lens_ok:
        wp, gp = m_paths(model), m_paths(got)
        bad = [(k, gp.get(k), v) for k, v in wp.items() if gp.get(k) is None or abs(gp[k] - v) > tol * max(1.0, abs(v))]
        s.check(not bad, sig + "/path-lengths", f"{what}: got {_brief(got)}; (pair, got, want) {bad[:3]}")
    return got


def realise_alignment(model, spec):
    """rows {tip: sequence} in which every unit of branch length is one column separating the tips below that branch
    from all others (no homoplasy), so that the Hamming distance of two rows is the path length between the tips"""
    tips = m_tips(model)
    cols = []
    states = [str(x) for x in spec["states"]]
    counter = [0]

    def walk(nd, root):
        if not root:
            k = int(nd["len"])
            if k != nd["len"] or k < 1:
                raise ValueError("columns style needs positive integer branch lengths")
            below = set(m_tips(nd))
            x, y = states[counter[0] % len(states)]
            counter[0] += 1
            cols.extend([{t: (x if t in below else y) for t in tips}] * k)
        for ch in nd["kids"]:
            walk(ch, False)

    walk(model, True)
    valid = len(cols) + 1
    cols.append({t: "A" for t in tips})  # a constant column
    if spec.get("gap_column"):
        cols.insert(len(cols) // 2, {t: "-" for t in tips})  # excluded from every pair
        cols.append({t: "N" for t in tips})
    return {t: "".join(c[t] for c in cols) for t in tips}, valid


def _scaled(nd, f):
    return {"name": nd["name"], "len": None if nd["len"] is None else nd["len"] / f, "kids": [_scaled(k, f) for k in nd["kids"]]}


def exec_nj(case) -> Soft:
    from cogent3.evolve.fast_distance import DistanceMatrix
    from cogent3.phylo.nj import gnj, nj

    s = Soft("C15/nj/")
    model = case["tree"]
    order = [str(x) for x in case["order"]]
    n = len(order)
    dists = _dist_dict(model, order, case["keys"], int(case["flip"]))
    what = f"generator {_brief(model)} key order {order} keys={case['keys']}"
    cherries = m_cherries(model) if n > 3 else 0
    poly = m_polytomy(model)  # a binary result can only refine a multifurcating generator (extra edges of length 0)
    s.cls(f"tips:{n}", "style:" + case["style"], "keys:" + case["keys"], "multifurcating" if poly else "caterpillar" if cherries <= 2 else "non-caterpillar")
    s.nontrivial = n >= 5 and (cherries >= 3 or poly)
    snapshot = dict(dists)

    ok, t1 = s.call("nj", lambda: nj(dict(dists), show_progress=False))
    if ok:
        compare_tree(s, "nj", t1, model, what, rooted=False, refine_ok=poly)
        ok, gd = s.call("nj/get_distances", t1.get_distances)
        if ok:
            wp = m_paths(model)
            bad = [(k, gd.get(k), v) for k, v in wp.items() if gd.get(k) is None or abs(gd[k] - v) > 1e-9 * max(1.0, v)]
            s.check(not bad, "nj/get_distances", f"{what}: (pair, got, want) {bad[:3]}")
    ok, res = s.call("gnj", lambda: list(gnj(dict(dists), keep=1, show_progress=False)))
    if ok:
        if s.eq(len(res), 1, "gnj/number-of-trees", what):
            score, t2 = res[0]
            compare_tree(s, "gnj", t2, model, what, rooted=False, refine_ok=poly)
            s.close(score, m_total_length(model), "gnj/score-is-tree-length", what, rtol=1e-9)
    ok, dm = s.call("DistanceMatrix", lambda: DistanceMatrix(dict(dists)))
    if ok:
        ok, t3 = s.call("DistanceMatrix.quick_tree", dm.quick_tree)
        if ok:
            compare_tree(s, "DistanceMatrix.quick_tree", t3, model, what, rooted=False, refine_ok=poly)
        ok, t4 = s.call("nj[DistanceMatrix]", lambda: nj(dm, show_progress=False))
        if ok:
            compare_tree(s, "nj[DistanceMatrix]", t4, model, what, rooted=False, refine_ok=poly)

        def app_run():
            from cogent3.app.tree import quick_tree

            return quick_tree()(dm)

        ok, t5 = s.call("app.quick_tree", app_run)
        if ok:
            if type(t5).__name__ == "NotCompleted" or not hasattr(t5, "children"):
                s.fail("app.quick_tree/not-completed", f"{what}: {str(t5)[:300]}")
            else:
                compare_tree(s, "app.quick_tree", t5, model, what, rooted=False, refine_ok=poly)
    s.check(dists == snapshot, "input-mutated", what)
    s.evals = 5
    spec = case.get("aln")
    if spec and case["style"] == "columns":
        # Alignment.quick_tree(calc=) on an alignment whose hamming / p-distance matrix is exactly the additive matrix
        from cogent3 import make_aligned_seqs

        seqs, valid = realise_alignment(model, spec)
        calc = str(spec["calc"])
        s.cls("aln.quick_tree:" + calc, "aln.quick_tree:" + ("ArrayAlignment" if spec["array_align"] else "Alignment"))
        ok, aln = s.call("make_aligned_seqs", lambda: make_aligned_seqs({nm: seqs[nm] for nm in order}, moltype="dna", array_align=bool(spec["array_align"])))
        if ok:
            want_model = model if calc == "hamming" else _scaled(model, float(valid))
            whata = f"{what}; aln.quick_tree(calc={calc!r}) of rows {[(nm, seqs[nm]) for nm in order]}"
            ok, t6 = s.call("aln.quick_tree", lambda: aln.quick_tree(calc=calc, show_progress=False))
            if ok:
                compare_tree(s, "aln.quick_tree", t6, want_model, whata, rooted=False, refine_ok=poly)
            ok, dm2 = s.call("aln.distance_matrix", lambda: aln.distance_matrix(calc=calc))
            if ok:
                wp = m_paths(want_model)
                gd = {(str(a), str(b)): float(v) for (a, b), v in dm2.to_dict().items()}
                bad = [(k, gd.get(k), v) for k, v in wp.items() if gd.get(k) is None or abs(gd[k] - v) > 1e-12 * max(1.0, v)]
                s.check(not bad, "aln.distance_matrix/not-the-path-lengths", f"{whata}: (pair, got, want) {bad[:3]}")
            s.evals += 2
    return s


# ----------------------------------------------------------------------- upgma
@st.composite
def upgma_cases(draw, tier="quick"):
    n = draw(st.sampled_from(SIZES_THOROUGH if tier == "thorough" else SIZES_QUICK))
    names = draw(st.permutations(MORE_TIP_NAMES if n > len(TIP_NAMES) else TIP_NAMES))[:n]
    style = draw(st.sampled_from(["dyadic", "dyadic", "float"]))
    shape = draw(st.sampled_from(["random", "random", "random", "random", "random", "caterpillar"]))
    # nodes carry their height; edge lengths are derived so that the tree is ultrametric
    nodes = [{"name": nm, "h": 0.0, "kids": []} for nm in names]
    while len(nodes) > 1:
        if shape == "caterpillar":
            i, j = len(nodes) - 1, draw(st.integers(0, len(nodes) - 2))
        else:
            i = draw(st.integers(0, len(nodes) - 1))
            j = draw(st.integers(0, len(nodes) - 2))
            if j >= i:
                j += 1
        a, b = nodes[i], nodes[j]
        inc = draw(st.sampled_from(DYADIC)) if style == "dyadic" else draw(st.floats(0.001, 2.0, allow_nan=False, allow_infinity=False))
        h = max(a["h"], b["h"]) + inc
        nodes = [x for k, x in enumerate(nodes) if k not in (i, j)]
        nodes.append({"name": None, "h": h, "kids": [a, b]})

    def finish(nd, parent_h):
        out = {"name": nd["name"], "len": None if parent_h is None else parent_h - nd["h"], "kids": [finish(k, nd["h"]) for k in nd["kids"]]}
        return out

    tree = finish(nodes[0], None)
    tree["name"] = "root"
    return {"tree": tree, "height": nodes[0]["h"], "style": style, "order": draw(st.permutations(sorted(names))), "form": draw(st.sampled_from(["dict", "DistanceMatrix", "both"]))}


def exec_upgma(case) -> Soft:
    from cogent3.cluster.UPGMA import upgma

    s = Soft("C15/upgma/")
    model = case["tree"]
    order = [str(x) for x in case["order"]]
    n = len(order)
    # the matrix is 2 x height of the last common ancestor, computed from the model's edge lengths
    dists = _dist_dict(model, order, "both", 0)
    what = f"generator {_brief(model)} key order {order}"
    clusters = {c for c in m_clusters(model) if len(c) > 1}
    cherries = m_cherries(model)
    s.cls(f"tips:{n}", "style:" + case["style"], "caterpillar" if cherries <= 1 else "non-caterpillar")
    s.nontrivial = n >= 5 and cherries >= 2
    snapshot = dict(dists)
    form = str(case.get("form", "dict"))
    s.cls("input:" + form)

    def verify(sig, t):
        got = compare_tree(s, sig, t, model, what, rooted=True)
        if got is not None:
            depth = m_depths(got)
            H = float(case["height"])
            bad = [(k, v[-1][1]) for k, v in sorted(depth.items()) if abs(v[-1][1] - H) > 1e-9 * max(1.0, H)]
            s.check(not bad, sig + "/tip-heights", f"{what}: got {_brief(got)}; root height {H}, (tip, root-to-tip) {bad[:3]}")
            s.check(len(got["kids"]) == 2 or n < 2, sig + "/root-degree", f"{what}: got {_brief(got)}")

    evals = 0
    if form in ("dict", "both"):
        ok, t = s.call("upgma", lambda: upgma(dict(dists)))
        evals += 1
        if ok:
            verify("upgma", t)
    if form in ("DistanceMatrix", "both"):
        # the documented call form upgma(calculator.get_pairwise_distances()), i.e. a DistanceMatrix
        from cogent3.evolve.fast_distance import DistanceMatrix

        ok, dm = s.call("DistanceMatrix", lambda: DistanceMatrix(dict(dists)))
        if ok:
            before = [[float(x) for x in r] for r in dm.array]
            ok, t = s.call("upgma[DistanceMatrix]", lambda: upgma(dm))
            evals += 1
            if ok:
                verify("upgma[DistanceMatrix]", t)
            s.check([[float(x) for x in r] for r in dm.array] == before, "upgma[DistanceMatrix]/input-mutated", what)
    s.evals = max(1, evals)
    s.check(dists == snapshot, "input-mutated", what)
    return s


SUBS = [
    Sub("estimators", exec_est, strategy=est_cases(), quick=1000, thorough=16 * 8000, shards_quick=16, weight=4.0),
    Sub("nj", exec_nj, strategy=lambda tier: nj_cases(tier), quick=1500, thorough=16 * 12000, shards_quick=8),
    Sub("upgma", exec_upgma, strategy=lambda tier: upgma_cases(tier), quick=800, thorough=16 * 8000, shards_quick=8),
]

KNOWN_PREDICATES = {}

META = {
    "technique": "Hypothesis-generated alignments against exact-rational re-implementations of the published distance formulas (plus metamorphic column/row permutations and entry-point differentials); generated trees -> additive / ultrametric matrices -> NJ / UPGMA reconstruction compared with a nested-list tree model",
    "level_text": "Each run generates about a thousand DNA, RNA and protein alignments (gaps, ambiguity codes, duplicate rows, saturated and exactly-p=0.75 pairs, skewed and incomplete composition) and evaluates every pair under seven (protein: five) estimators against formulas for r states written in the harness with exact rational arithmetic, including the 0.5 pseudo-count branch of paralinear/LogDet, plus drop_invalid and Alignment.quick_tree; and about two thousand trees with positive branch lengths whose path-length matrices must be reconstructed exactly (bipartitions/clusters and all path lengths at 1e-9) by nj, gnj, DistanceMatrix.quick_tree, the quick_tree app, Alignment.quick_tree on a homoplasy-free alignment realising the tree, and upgma (dict and DistanceMatrix input).",
    "level_note": "Trusts the harness formulas (about 100 lines) and tree model (about 80 lines). Bounded to 6 rows x 221 columns and 12 tips in the quick tier (30 tips in the thorough tier); near-singular log arguments and ill-conditioned frequency matrices are excluded from value comparison; text / bytes alignments and new-style alignments are not generated; bootstrap consensus of quick_tree is not checked.",
    "design_ref": "DESIGN.md section 1, C15",
}
