"""C07 — incrementally recalculated likelihoods equal a fresh calculation.

Oracle: after every step of a generated history the value reported by the
long-lived likelihood function / calculator is compared with a value computed
by an object that has no history: a newly constructed likelihood function on
which every parameter is set as a constant to the value the harness recorded
(or, after an optimiser step, to the value the function reports), and a
newly made calculator without undo buffer evaluated at the same vector.
"""

from __future__ import annotations

import math
import numpy

from hypothesis import strategies as st

from vlib.core import Soft, Sub

PROPERTY_ID = "C07"
LEVEL = "exploration"
RULE = (
    "lf_history sub-check: a case is a model (HKY85, GTR, TN93, F81, GN, gamma-binned HKY85, GeneralStationary), a tree of 3-5 "
    "tips, an alignment and a history of 1-10 steps drawn from set_param_rule (global / edge subsets / single edge, value or "
    "init, constant or free, independent or shared), set_motif_probs, set_alignment, updates_postponed blocks of 2-4 such steps, "
    "a short optimise, and export/import of the parameter rules. After every step lf.lnL is compared with a newly built function "
    "holding the recorded values as constants. calculator sub-check: a calculator made from a partly constrained function is "
    "driven through 2-12 change vectors (single and multiple changes, reverts to the previous vector, repeats, values at and "
    "beyond the bounds, changes through calc.change with explicit (index, value) lists) and compared after every evaluation with "
    "a newly made calculator without undo. Non-trivial = a history of >= 4 steps containing a revert or a postponed block "
    "followed by another change; distinct = distinct case encodings."
)
ASSUMPTIONS = [
    "tolerance on log-likelihoods: 1e-9 * max(1, |lnL|) (the fresh-function comparison was bitwise exact in probes)",
    "the fresh function is built from values reported by get_param_value / get_motif_probs after each step; for steps that set a value the reported value is also compared with the value set (relative 1e-12)",
    "an evaluation that raises inside the calculator (value outside the feasible region) is an allowed outcome; the next evaluation must again agree with a fresh calculator",
    "optimise is limited to <= 20 evaluations with limit_action='ignore'; only consistency of reported values and reported lnL is asserted after it",
]

MODELS = ["HKY85", "GTR", "TN93", "F81", "GN", "HKY85+G", "GS"]
TREES = [
    ("(a:0.1,b:0.2,c:0.3)", ["a", "b", "c"], ["a", "b", "c"]),
    ("((a:0.1,b:0.2):0.05,c:0.3,d:0.1)", ["a", "b", "c", "d"], ["a", "b", "c", "d", "edge.0"]),
    ("((a:0.1,b:0.2):0.05,(c:0.3,d:0.1):0.2,e:0.4)", ["a", "b", "c", "d", "e"], ["a", "b", "c", "d", "e", "edge.0", "edge.1"]),
    ("(a:0.3,b:0.2,c:0.3,d:0.15)", ["a", "b", "c", "d"], ["a", "b", "c", "d"]),
]
RATE_PARAMS = {
    "HKY85": ["kappa"],
    "HKY85+G": ["kappa"],
    "GTR": ["A/C", "A/G", "A/T", "C/G", "C/T"],
    "TN93": ["kappa_r", "kappa_y"],
    "F81": [],
    "GN": ["A>C", "A>G", "A>T", "C>A", "C>G", "C>T", "G>A", "G>C", "G>T", "T>A", "T>C"],
    "GS": None,  # discovered at run time
}


# -------------------------------------------------------------- generator
@st.composite
def aln_st(draw, tips, gaps_ok):
    n = draw(st.integers(6, 20))
    alpha = "ACGT" * 5 + ("N-R" if gaps_ok else "")
    base = draw(st.lists(st.sampled_from("ACGT"), min_size=n, max_size=n))
    rows = {}
    for t in tips:
        row = list(base)
        for i in range(n):
            if draw(st.integers(0, 3)) == 0:
                row[i] = draw(st.sampled_from(alpha))
        rows[t] = "".join(row)
    return rows


def mprobs_st():
    return st.lists(st.floats(0.05, 1.0), min_size=4, max_size=4).map(lambda v: [x / sum(v) for x in v])


@st.composite
def param_step(draw, model, edges):
    pars = RATE_PARAMS[model]
    choices = ["length"] * 2 + (pars or []) * 2
    if model == "HKY85+G":
        choices.append("rate_shape")
    if model == "GS":
        choices = ["length", "GSPAR"]
    par = draw(st.sampled_from(choices))
    value = round(draw(st.floats(0.05, 4.0)), 4)
    if par == "GSPAR":
        value = round(draw(st.floats(0.9, 1.1)), 4)  # GeneralStationary rejects many combinations as infeasible
    if model == "HKY85+G" and par == "kappa":
        # with rate bins an "independent" kappa would also differ between bins; keep it global
        return {"op": "set_param", "par": par, "scope": None, "value": value, "const": draw(st.booleans()), "indep": None}
    if par == "rate_shape":
        return {"op": "set_param", "par": par, "scope": None, "value": value, "const": draw(st.booleans()), "indep": None}
    scope_kind = draw(st.sampled_from(["global", "edge", "edges", "edges"]))
    if scope_kind == "global":
        scope = None
    elif scope_kind == "edge":
        scope = [draw(st.sampled_from(edges))]
    else:
        k = draw(st.integers(2, len(edges)))
        scope = sorted(draw(st.permutations(edges))[:k])
    indep = draw(st.sampled_from([None, True, False])) if scope is None or len(scope) > 1 else None
    if par == "length":
        value = round(draw(st.floats(0.001, 2.0)), 4)
    return {"op": "set_param", "par": par, "scope": scope, "value": value, "const": draw(st.booleans()), "indep": indep, "idx": draw(st.integers(0, 50))}


@st.composite
def lf_cases(draw):
    model = draw(st.sampled_from(MODELS))
    newick, tips, edges = draw(st.sampled_from(TREES))
    gaps_ok = model != "GS"
    aln = draw(aln_st(tips, gaps_ok))
    steps = []
    for _ in range(draw(st.integers(1, 10))):
        kind = draw(st.sampled_from(["param"] * 6 + ["mprobs", "alignment", "postponed", "postponed", "optimise", "rules"]))
        if kind == "param" and model == "HKY85+G" and draw(st.integers(0, 5)) == 0:
            # the bin probabilities are parameters too (kept well inside the bounds the optimiser puts on them)
            w = draw(st.lists(st.sampled_from([0.02, 0.05, 0.3, 1.0]), min_size=3, max_size=3))
            steps.append({"op": "set_bprobs", "probs": [x / sum(w) for x in w]})
        elif kind == "param":
            steps.append(draw(param_step(model, edges)))
        elif kind == "mprobs":
            steps.append({"op": "set_mprobs", "probs": draw(mprobs_st())})
        elif kind == "alignment":
            steps.append({"op": "set_alignment", "rows": draw(aln_st(tips, gaps_ok))})
        elif kind == "postponed":
            inner = []
            for _ in range(draw(st.integers(2, 4))):
                k2 = draw(st.sampled_from(["param", "param", "param", "mprobs"]))
                inner.append(draw(param_step(model, edges)) if k2 == "param" else {"op": "set_mprobs", "probs": draw(mprobs_st())})
            steps.append({"op": "postponed", "steps": inner})
        elif kind == "optimise":
            steps.append({"op": "optimise", "max_evals": draw(st.integers(1, 20))})
        else:
            steps.append({"op": "rules"})
    case = {"model": model, "tree": newick, "edges": edges, "aln": aln, "steps": steps}
    if model == "HKY85+G" and not any(st_["op"] == "set_bprobs" for st_ in steps) and draw(st.booleans()):
        case["bins"] = 4
    return case


# ---------------------------------------------------------------- helpers
def make_model(name):
    from cogent3 import DNA, get_model

    if name == "HKY85+G":
        return get_model("HKY85", ordered_param="rate", distribution="gamma"), {"bins": 3}
    if name == "GS":
        from cogent3.evolve.ns_substitution_model import GeneralStationary

        return GeneralStationary(DNA.alphabet), {}
    return get_model(name), {}


def build_lf(case, rows):
    from cogent3 import make_aligned_seqs, make_tree

    sm, kw = make_model(case["model"])
    if "bins" in kw and case.get("bins"):
        kw["bins"] = case["bins"]
    lf = sm.make_likelihood_function(make_tree(case["tree"]), **kw)
    lf.set_alignment(make_aligned_seqs(dict(rows), moltype="dna"))
    return lf


def scoped_params(lf):
    return [p for p in lf.get_param_names() if p not in ("mprobs", "bprobs", "rate")]


def fresh_lnl(case, rows, lf):
    """lnL of a newly built function with every parameter constant at the value lf reports"""
    f = build_lf(case, rows)
    mp = lf.get_motif_probs()
    f.set_motif_probs(mp.to_dict() if hasattr(mp, "to_dict") else dict(mp), is_constant=True)
    if "bprobs" in lf.get_param_names():
        # the bin probabilities of a rate-heterogeneity model are free parameters too
        f.set_param_rule("bprobs", value=numpy.array(lf.get_param_value("bprobs"), dtype=float), is_constant=True)
    for par in scoped_params(lf):
        if par == "rate_shape":
            f.set_param_rule(par, value=float(lf.get_param_value(par)), is_constant=True)
            continue
        for e in case["edges"]:
            v = float(lf.get_param_value(par, edge=e))
            f.set_param_rule(par, edge=e, value=v, is_constant=True)
    return f.lnL


def _prob_floor_tag(lf):
    """names the circumstance in which exported rules are documented to differ from the state:
    Setting.get_param_rule_dict lifts every exported probability vector above 1e-6"""
    for par in ("bprobs", "mprobs"):
        if par in lf.get_param_names():
            try:
                v = numpy.asarray(lf.get_param_value(par), dtype=float)
            except Exception:  # noqa: BLE001
                continue
            if v.size and float(v.min()) <= 1e-6:
                return "[probability-below-1e-6]"
    return ""


def apply_param(lf, st_, gs_pars):
    par = st_["par"]
    if par == "GSPAR":
        par = gs_pars[st_.get("idx", 0) % len(gs_pars)]
    kw = {}
    if st_["scope"] is not None:
        if len(st_["scope"]) == 1:
            kw["edge"] = st_["scope"][0]
        else:
            kw["edges"] = list(st_["scope"])
    if st_["indep"] is not None:
        kw["is_independent"] = st_["indep"]
    if st_["const"]:
        kw.update(value=st_["value"], is_constant=True)
    else:
        kw.update(init=st_["value"])
    lf.set_param_rule(par, **kw)
    return par


def _infeasible():  # see GS_OK below
    """GeneralStationary documents ParameterOutOfBoundsError for rate combinations without a valid stationary solution"""
    from cogent3.maths.optimisers import ParameterOutOfBoundsError

    return (ParameterOutOfBoundsError,)


class _GSOK(dict):
    """GeneralStationary may reject a rate combination (ParameterOutOfBoundsError) at whichever call
    first evaluates it: set_param_rule, set_motif_probs, set_alignment, lnL, optimise, make_calculator"""

    def get(self, model, default=()):
        return _infeasible() if model == "GS" else default


GS_OK = _GSOK()


def close(a, b, rtol=1e-9):
    if a is None or b is None:
        return False
    if math.isnan(a) or math.isnan(b):
        # vectors beyond the bounds have no likelihood: nan from both the incremental
        # and the fresh calculator is agreement, nan from one of them is not
        return math.isnan(a) and math.isnan(b)
    if math.isinf(a) or math.isinf(b):
        return a == b
    return abs(a - b) <= rtol * max(1.0, abs(a), abs(b))


# ------------------------------------------------------------ lf histories
def exec_lf(case) -> Soft:
    s = Soft("C07/")
    model = case["model"]
    rows = dict(case["aln"])
    ok, lf = s.call("construct", build_lf, case, rows, allowed=GS_OK.get(case["model"], ()))
    if not ok:
        return s
    gs_pars = [p for p in scoped_params(lf) if p != "length"] if model == "GS" else []
    s.cls("model:" + model)
    n_steps = 0
    postponed_then_change = False
    seen_postponed = False

    def verify(tag, what):
        ok, got = s.call(tag + "/lnL", lambda: float(lf.lnL), allowed=GS_OK.get(case["model"], ()))
        if not ok:
            return
        ok, want = s.call(tag + "/fresh", fresh_lnl, case, rows, lf, allowed=GS_OK.get(case["model"], ()))
        if not ok:
            return
        if not close(got, want):
            s.fail(tag + "/lnL-vs-fresh", f"{what}: incremental lnL {got!r} != fresh function {want!r} (diff {got - want:.3e})")

    verify("initial", "after construction")
    for i, st_ in enumerate(case["steps"]):
        op = st_["op"]
        what = f"model {model} tree {case['tree']} step {i} {st_} after {case['steps'][:i]}"
        if op == "set_param":
            ok, par = s.call("set_param_rule", apply_param, lf, st_, gs_pars, allowed=_infeasible())
            if not ok:
                s.cls("infeasible-value-rejected")
                return s
            # the value set must be what is reported for the edges in scope
            scope = st_["scope"] or case["edges"]
            if st_["par"] != "rate_shape":
                for e in scope[:2]:
                    okv, v = s.call("get_param_value", lambda: float(lf.get_param_value(par, edge=e)))
                    if okv:
                        s.check(close(v, st_["value"], 1e-12), "set_param_rule/value-not-applied", f"{what}: edge {e} reports {v}")
            if seen_postponed:
                postponed_then_change = True
            verify("set_param_rule", what)
        elif op == "set_bprobs":
            ok, _ = s.call("set_bprobs", lambda: lf.set_param_rule("bprobs", init=numpy.array(st_["probs"], dtype=float)))
            if not ok:
                return s
            okv, v = s.call("get_param_value", lambda: [float(x) for x in lf.get_param_value("bprobs")])
            if okv:
                s.check(all(close(a_, b_, 1e-9) for a_, b_ in zip(v, st_["probs"])), "set_param_rule/value-not-applied", f"{what}: bprobs reported {v}")
            verify("set_param_rule", what)
        elif op == "set_mprobs":
            ok, _ = s.call("set_motif_probs", lambda: lf.set_motif_probs(dict(zip("ACGT", st_["probs"]))), allowed=GS_OK.get(case["model"], ()))
            if not ok:
                return s
            verify("set_motif_probs", what)
        elif op == "set_alignment":
            from cogent3 import make_aligned_seqs

            rows = dict(st_["rows"])
            ok, _ = s.call("set_alignment", lambda: lf.set_alignment(make_aligned_seqs(dict(rows), moltype="dna")), allowed=GS_OK.get(case["model"], ()))
            if not ok:
                return s
            verify("set_alignment", what)
        elif op == "postponed":
            def block():
                with lf.updates_postponed():
                    for inner in st_["steps"]:
                        if inner["op"] == "set_param":
                            apply_param(lf, inner, gs_pars)
                        else:
                            lf.set_motif_probs(dict(zip("ACGT", inner["probs"])))

            ok, _ = s.call("updates_postponed", block, allowed=_infeasible())
            if not ok:
                s.cls("infeasible-value-rejected")
                return s
            seen_postponed = True
            verify("updates_postponed", what)
        elif op == "optimise":
            before = None
            okb, before = s.call("optimise/before", lambda: float(lf.lnL), allowed=GS_OK.get(case["model"], ()))
            ok, _ = s.call("optimise", lambda: lf.optimise(local=True, max_evaluations=st_["max_evals"], limit_action="ignore", show_progress=False), allowed=GS_OK.get(case["model"], ()))
            if not ok:
                return s
            verify("optimise", what)
            s.cls("optimise")
        elif op == "rules":
            ok, rules = s.call("get_param_rules", lf.get_param_rules)
            if not ok:
                return s

            def rebuild():
                f = build_lf(case, rows)
                f.apply_param_rules(rules)
                return f

            ok, f2 = s.call("apply_param_rules", rebuild, allowed=GS_OK.get(case["model"], ()))
            if ok:
                okl, l2 = s.call("apply_param_rules/lnL", lambda: float(f2.lnL), allowed=GS_OK.get(case["model"], ()))
                okl2, l1 = s.call("rules/lnL", lambda: float(lf.lnL), allowed=GS_OK.get(case["model"], ()))
                if okl and okl2 and not close(l1, l2):
                    s.fail("rules-roundtrip/lnL" + _prob_floor_tag(lf), f"{what}: lnL {l1!r} after export/import {l2!r}")
                okn, (n1, n2) = s.call("rules/nfp", lambda: (lf.get_num_free_params(), f2.get_num_free_params()))
                if okn:
                    s.eq(n2, n1, "rules-roundtrip/num-free-params", what)
            s.cls("rules-roundtrip")
        n_steps += 1
    s.nontrivial = n_steps >= 4 and postponed_then_change
    return s


# -------------------------------------------------------------- calculator
@st.composite
def calc_cases(draw):
    model = draw(st.sampled_from(["HKY85", "GTR", "TN93", "GN", "GS", "HKY85+G"]))
    newick, tips, edges = draw(st.sampled_from(TREES))
    aln = draw(aln_st(tips, model != "GS"))
    setup = []
    for _ in range(draw(st.integers(0, 3))):
        setup.append(draw(param_step(model, edges)))
    moves = []
    for _ in range(draw(st.integers(2, 12))):
        kind = draw(st.sampled_from(["some", "some", "some", "one", "revert", "revert", "repeat", "all", "edge", "change"]))
        mv = {"kind": kind}
        if kind in ("some", "one", "all", "edge", "change"):
            mv["picks"] = draw(st.lists(st.integers(0, 40), min_size=1, max_size=1 if kind == "one" else 4))
            mv["fracs"] = draw(st.lists(st.floats(0.0, 1.0), min_size=len(mv["picks"]), max_size=len(mv["picks"])))
            mv["beyond"] = draw(st.integers(0, 9)) == 0
        moves.append(mv)
    return {"model": model, "tree": newick, "edges": edges, "aln": aln, "setup": setup, "moves": moves}


def exec_calc(case) -> Soft:
    s = Soft("C07/calc/")
    rows = dict(case["aln"])
    ok, lf = s.call("construct", build_lf, case, rows, allowed=GS_OK.get(case["model"], ()))
    if not ok:
        return s
    gs_pars = [p for p in scoped_params(lf) if p != "length"] if case["model"] == "GS" else []
    for st_ in case["setup"]:
        ok, _ = s.call("setup", apply_param, lf, st_, gs_pars, allowed=GS_OK.get(case["model"], ()))
        if not ok:
            return s
    ok, calc = s.call("make_calculator", lf.make_calculator, allowed=GS_OK.get(case["model"], ()))
    if not ok:
        return s
    ok, x0 = s.call("get_value_array", lambda: [float(v) for v in calc.get_value_array()])
    if not ok or not x0:
        return s
    lo, hi = calc.get_bounds_vectors()
    lo, hi = [float(v) for v in lo], [float(v) for v in hi]
    n = len(x0)
    s.cls("model:" + case["model"], f"npar={min(n, 12)}")
    cur = list(x0)
    prev = list(x0)
    history = []
    reverted = False
    after_raise = False
    pending_full = False

    def target(i, frac, beyond):
        # a value inside a sane part of the optimiser's range for coordinate i
        a, b = max(lo[i], -3.0), min(hi[i], 3.0)
        if lo[i] >= 0:  # untransformed, e.g. lengths in [0, 10]
            a, b = max(lo[i], 1e-4), min(hi[i], 2.5)
        v = a + frac * (b - a)
        if beyond:
            v = hi[i] + 0.5 if frac > 0.5 else lo[i] - 0.5
        return v

    for k, mv in enumerate(case["moves"]):
        kind = mv["kind"]
        new = list(cur)
        use_change = False
        if kind == "revert":
            new = list(prev)
            reverted = True
        elif kind == "repeat":
            pass
        else:
            idxs = sorted({p % n for p in mv["picks"]})
            if kind == "all":
                idxs = list(range(n))
            fr = (mv["fracs"] * n)[: len(idxs)]
            for i, f in zip(idxs, fr):
                new[i] = target(i, f, mv["beyond"] and i == idxs[0])
            # after a rejected vector the caller cannot know which vector the calculator is
            # at (change() may have undone the previous step before it failed), so the next
            # evaluation passes the whole vector, as the optimisers do
            use_change = kind == "change" and not pending_full
        what = f"model {case['model']} tree {case['tree']} setup {case['setup']} moves {history + [mv]} vector {new}"
        history.append(mv)
        try:
            if use_change:
                changes = [(i, new[i]) for i in range(n) if new[i] != cur[i]]
                got = float(calc.change(changes)) if changes else float(calc.testfunction())
            else:
                got = float(calc(new))
            raised = None
        except Exception as e:  # noqa: BLE001
            from vlib.core import raised_in_repo

            if not raised_in_repo(e):
                raise
            raised = e
        # the oracle: a newly made calculator without history
        try:
            want = float(lf.make_calculator(with_undo=False)(new))
            want_raised = None
        except Exception as e:  # noqa: BLE001
            want_raised = e
        if raised is not None or want_raised is not None:
            s.cls("evaluation-raised")
            if (raised is None) != (want_raised is None):
                s.fail("raise-mismatch", f"{what}: incremental {'raised ' + repr(raised) if raised else 'returned'}; fresh {'raised ' + repr(want_raised) if want_raised else 'returned'}")
            after_raise = True
            pending_full = True
            # the vector is rejected: the calculator must be left in a coherent state, i.e. the
            # value it reports is the value of the vector it records as current (change() restores
            # last_values; which accepted vector that is, is not specified: an undo of the previous
            # step may already have happened)
            okc, back = s.call("testfunction-after-raise", lambda: float(calc.testfunction()))
            if okc and raised is not None:
                at = [float(v) for v in calc.last_values]
                try:
                    ref = float(lf.make_calculator(with_undo=False)(at))
                except Exception:  # noqa: BLE001
                    ref = None
                if ref is not None and not close(back, ref):
                    s.fail("rollback/value", f"{what}: after the rejected vector the calculator reports {back!r} for its recorded vector {at}, a fresh calculator there gives {ref!r}")
            continue
        pending_full = False
        if not close(got, want):
            sig = "value-vs-fresh"
            if after_raise:
                sig += "[after-rejected-vector]"
            elif kind == "revert":
                sig += "[revert]"
            s.fail(sig, f"{what}: incremental {got!r} != fresh calculator {want!r} (diff {got - want:.3e})")
        okc, tf = s.call("testfunction", lambda: float(calc.testfunction()))
        if okc and not close(tf, got):
            s.fail("testfunction", f"{what}: testfunction {tf!r} != value just returned {got!r}")
        prev, cur = cur, new
    s.nontrivial = len(case["moves"]) >= 4 and reverted
    return s


SUBS = [
    Sub("lf_history", exec_lf, strategy=lf_cases(), quick=240, thorough=64_000, shards_quick=16),
    Sub("calculator", exec_calc, strategy=calc_cases(), quick=360, thorough=96_000, shards_quick=16),
]

KNOWN_PREDICATES = {}

META = {
    "technique": "Hypothesis-generated histories of likelihood-function edits and calculator change vectors, each step compared with a history-free rebuild (fresh function with recorded constants / fresh calculator without undo)",
    "level_text": "Hundreds of generated histories per run over seven model families (incl. non-stationary, gamma-binned and GeneralStationary) exercise scoped and shared parameter rules, motif probabilities, alignment replacement, postponed update blocks, short optimiser runs, rule export/import and calculator change sequences with reverts, repeats and rejected vectors; after every step the incrementally maintained log-likelihood must equal that of an object built from scratch with the same settings (1e-9 relative).",
    "level_note": "Both sides are computed by cogent3 (the oracle is history-freeness, the absolute value is C02's subject). Bins beyond the gamma model's shape parameter and multi-locus functions are not driven.",
    "design_ref": "DESIGN.md section 1, C07",
}
