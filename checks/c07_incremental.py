"""C07 — incrementally recalculated likelihoods equal a fresh calculation.

Oracle: after every step of a generated history the value reported by the
long-lived likelihood function / calculator is compared with a value computed
by an object that has no history: a newly constructed likelihood function on
which every parameter is set as a constant to the value the HARNESS recorded
from the step encodings (after an optimiser step: to the value the function
reports), and a newly made calculator without undo buffer evaluated at the
same vector.  The values the function reports are compared with the harness
record for every parameter and every edge after every step.
"""

from __future__ import annotations

import math
import numpy

from hypothesis import strategies as st

from vlib.core import HarnessError, Soft, Sub

PROPERTY_ID = "C07"
LEVEL = "exploration"
RULE = (
    "lf_history sub-check: a case is a model (HKY85, GTR, TN93, F81, GN, gamma-binned HKY85, GeneralStationary, codon MG94HKY; "
    "optionally built with optimise_motif_probs=True; HKY85 / TN93 / GTR / GN in 2 cases of 5 also with bins=2|3|[names] without a "
    "distribution, loci=[2-3 names] with one alignment per locus, or both), a tree of 3-5 tips, an alignment (one per locus) and a "
    "history of 1-10 steps drawn from "
    "set_param_rule (global / edge subsets / single edge, and for rate parameters of a function with bins / loci also bin= / bins= / "
    "locus= / loci= alone or together with edge= / edges=; value or init, constant or free, independent or shared, optional "
    "lower / upper bounds, inits beyond the bounds), set_motif_probs (of all loci or of one: locus=), set_alignment, set_time_heterogeneity, set_local_clock, "
    "updates_postponed blocks and apply_param_rules batches of 2-4 such steps, REJECTED changes (unknown edge, edge and edges "
    "together, crossed bounds, unknown / derived parameter, unknown dimension, unknown bin / locus, motif probabilities not summing to one) on their "
    "own and inside a postponed block / batch, a short optimise, and export/import of the parameter rules. The history "
    "continues after a rejected change. The harness keeps its own record of the intended settings ((parameter, edge, bin, locus) -> value "
    "and bounds, motif probabilities per locus, bin probabilities) from the step encodings; after every step every reported parameter value is "
    "compared with the record and lf.lnL with a newly built function holding the record as constants. The rules step applies lf.get_param_rules() "
    "to a newly built function, which must report the same lnL and number of free parameters (a failure is tagged [non-rectangular-scope] when two "
    "exported rules of one parameter name overlapping scopes, i.e. when the order of the rules matters). calculator sub-check: a "
    "calculator made from a partly constrained function is driven through 2-12 change vectors (single and multiple changes, "
    "reverts to the previous vector, reverts combined with a change of other coordinates as line searches emit, reverts of only a part of the previous step, repeats, "
    "values at and beyond the bounds, changes through calc.change with explicit (index, value) lists) and compared after every "
    "evaluation with a newly made calculator without undo. Non-trivial = a history of >= 4 steps containing a revert, or a "
    "postponed block / rejected change followed by another change; distinct = distinct case encodings."
)
ASSUMPTIONS = [
    "tolerance on log-likelihoods: 1e-9 * max(1, |lnL|) (the fresh-function comparison was bitwise exact in probes)",
    "the fresh function is built from the harness record of intended settings; the record is re-read from the function only where a step does not determine the values: after optimise, after a reported disagreement (so that one divergence is reported once), and for motif / bin probabilities as long as no step has set them (they derive from the alignment / the default; motif probabilities are re-derived from every new alignment until set_motif_probs is called)",
    "initial state: lengths as written in the tree, every rate parameter 1.0 (ParamDefn.default), bounds length [0, 10], rate parameters [1e-6, 1e6], rate_shape [0.01, 1e10] (class attributes of LengthDefn / RatioParamDefn / GammaDefn)",
    "bounds of a free rule follow _LeafDefn.assign_all: per scope group the widest bounds of the free settings currently in the group (class defaults when all are constant), overridden by lower= / upper=; an init outside them is moved to the nearer bound (the library warns 'Value of ... increased / decreased to keep within bounds'); lower > upper raises ValueError before anything is assigned",
    "a set_param_rule / set_motif_probs call that raises leaves the settings untouched (assign_all collects all settings before assigning any); one that returns has taken effect. So after an exception inside an updates_postponed block or an apply_param_rules batch the intended state is: inner changes before the failing one applied, the failing one and later ones not; 'Temporarily turn off calculation' means calculation is on again once the block is left, by whichever route",
    "rejections asserted: unknown edge -> InvalidScopeError and unknown dimension -> InvalidDimensionError (tests/test_recalculation.py), edge= together with edges= -> TreeError, crossed bounds -> ValueError, derived parameter -> ValueError ('not settable as it is derived from'), unknown parameter -> KeyError, motif probabilities summing to 2 -> ValueError",
    "GeneralStationary may reject a rate combination (ParameterOutOfBoundsError) at whichever call first evaluates it. The rejected change is assigned but not (completely) recalculated: what lnL and get_param_value report between such a rejection and the next accepted change is not specified and not compared; the record keeps the assigned values and the history continues: from the next accepted change on the function must again agree with the record and with a fresh function (a rejected top-level set_motif_probs stops the recording of motif probabilities, a rejected optimise ends the case). For GeneralStationary the fresh function is filled inside one updates_postponed block so that only the final combination is evaluated",
    "set_local_clock is only used on two tips attached to the same internal node other than the root (its docstring: 'only valid for tips connected to the same node'); both lengths become the mean of the current two",
    "set_time_heterogeneity applies one rule per (edge set, rate parameter of the model) with the given is_independent / is_constant / value / init / lower / upper (all bins and loci of the edge set; is_independent=True also splits between bins and loci); not used on the gamma-binned model nor on GeneralStationary",
    "dimensions (class attributes of LengthDefn / SubstitutionParameterDefn; PartitionDefn of mprobs / bprobs): length has the dimension edge only, rate parameters edge x bin x locus, the gamma shape none, motif probabilities locus (x edge, never split by edge here), bin probabilities locus (only ever set for all loci here). A rule names categories per dimension, a dimension not named = all of it (interpret_scopes); is_independent=True makes every selected (edge, bin, locus) its own setting, otherwise the selection shares one (default: shared, for length independent). bins without a distribution are a documented construction (doc/examples/hmm_par_heterogeneity.rst, codon_models.rst, tests test_simulateHetergeneousAlignment), bin and edge scopes together are used by tests/test_evolve/test_likelihood_function.py::test_time_rate_het (the Zhang model), loci by test_get_param_rules_multilocus / test_set_multilocus",
    "set_motif_probs(..., locus=x) changes locus x only (tests/test_evolve/test_parameter_controller.py::test_set_multilocus); the motif probabilities of the other loci are read before such a step and are part of the record from then on. Any set_motif_probs call, whichever locus it names, stops the derivation of motif probabilities from later alignments for all loci (source comment 'should be done per-locus'): modelled as implemented, not asserted as a requirement",
    "get_param_rules is documented as 'returns the [{rule}, ..] that would allow reconstruction': apply_param_rules(rules) on a newly built function of the same construction must reproduce lnL and the number of free parameters whatever the scopes; reported values are read with the full scope (edge=, bin=, locus=), which is unambiguous",
    "unknown bin / locus names in a rule -> InvalidScopeError (same path as an unknown edge)",
    "an evaluation that raises inside the calculator (value outside the feasible region) is an allowed outcome; the next evaluation must again agree with a fresh calculator",
    "optimise is limited to <= 20 evaluations with limit_action='ignore'; only consistency of reported values and reported lnL is asserted after it",
]

MODELS = ["HKY85", "GTR", "TN93", "F81", "GN", "HKY85+G", "GS", "MG94HKY"]
TREES = [
    ("(a:0.1,b:0.2,c:0.3)", ["a", "b", "c"], ["a", "b", "c"]),
    ("((a:0.1,b:0.2):0.05,c:0.3,d:0.1)", ["a", "b", "c", "d"], ["a", "b", "c", "d", "edge.0"]),
    ("((a:0.1,b:0.2):0.05,(c:0.3,d:0.1):0.2,e:0.4)", ["a", "b", "c", "d", "e"], ["a", "b", "c", "d", "e", "edge.0", "edge.1"]),
    ("(a:0.3,b:0.2,c:0.3,d:0.15)", ["a", "b", "c", "d"], ["a", "b", "c", "d"]),
]
TREE_LENGTHS = {
    TREES[0][0]: {"a": 0.1, "b": 0.2, "c": 0.3},
    TREES[1][0]: {"a": 0.1, "b": 0.2, "c": 0.3, "d": 0.1, "edge.0": 0.05},
    TREES[2][0]: {"a": 0.1, "b": 0.2, "c": 0.3, "d": 0.1, "e": 0.4, "edge.0": 0.05, "edge.1": 0.2},
    TREES[3][0]: {"a": 0.3, "b": 0.2, "c": 0.3, "d": 0.15},
}
# pairs of tips attached to the same internal node that is not the root
SISTERS = {TREES[0][0]: [], TREES[1][0]: [["a", "b"]], TREES[2][0]: [["a", "b"], ["c", "d"]], TREES[3][0]: []}
RATE_PARAMS = {
    "HKY85": ["kappa"],
    "HKY85+G": ["kappa"],
    "GTR": ["A/C", "A/G", "A/T", "C/G", "C/T"],
    "TN93": ["kappa_r", "kappa_y"],
    "F81": [],
    "GN": ["A>C", "A>G", "A>T", "C>A", "C>G", "C>T", "G>A", "G>C", "G>T", "T>A", "T>C"],
    "GS": None,  # discovered at run time
    "MG94HKY": ["kappa", "omega"],
}
TIME_HET_MODELS = ["HKY85", "GTR", "TN93", "GN", "MG94HKY"]
# models that are also built with several bins (no distribution: every rate parameter may differ between bins, the
# bin probabilities are a free parameter) and / or several loci (one alignment per locus)
DIM_MODELS = ["HKY85", "TN93", "GTR", "GN"]
BIN_CHOICES = [2, 2, ["slow", "fast"], 3]
LOCI_CHOICES = [["x", "y"], ["x", "y"], ["l1", "l2", "l3"]]
SENSE_CODONS = ["ATG", "GCT", "GCC", "AAA", "AAG", "TTT", "CTG", "GAT", "GAC", "CCC", "TGG", "ACG", "GGT", "CAT", "AGA", "TCA"]
BAD_KINDS = ["unknown-edge", "unknown-edge-in-list", "edge-and-edges", "crossed-bounds", "unknown-par", "derived-par", "unknown-dimension", "mprobs-sum"]
BAD_KINDS_DIMS = ["unknown-bin", "unknown-locus"]  # only where a rate parameter exists
POISON_SIG = "after-error-in-postponed-block/stale-state"


def bin_names(case):
    """names of the bins of the case's function, None when it has a single bin"""
    b = case.get("bins")
    if case["model"] == "HKY85+G":
        b = b or 3
    if not b:
        return None
    return [f"bin{i}" for i in range(b)] if isinstance(b, int) else list(b)


def locus_names(case):
    return list(case["loci"]) if case.get("loci") else None


def default_bounds(par):
    if par == "length":
        return (0.0, 10.0)
    if par == "rate_shape":
        return (1e-2, 1e10)
    return (1e-6, 1e6)


# -------------------------------------------------------------- generator
@st.composite
def aln_st(draw, tips, gaps_ok, codon=False):
    if codon:
        n = draw(st.integers(2, 5))
        alpha = SENSE_CODONS + (["---"] if gaps_ok else [])
        base = draw(st.lists(st.sampled_from(SENSE_CODONS), min_size=n, max_size=n))
    else:
        n = draw(st.integers(6, 20))
        alpha = "ACGT" * 5 + ("N-R" if gaps_ok else "")
        base = draw(st.lists(st.sampled_from("ACGT"), min_size=n, max_size=n))
    rows = {}
    for t in tips:
        row = list(base)
        for i in range(n):
            if draw(st.integers(0, 3)) == 0:
                row[i] = draw(st.sampled_from(alpha))
        rows[t] = "".join(row)
    return rows


def mprobs_st():
    return st.lists(st.floats(0.05, 1.0), min_size=4, max_size=4).map(lambda v: [x / sum(v) for x in v])


@st.composite
def param_step(draw, model, edges, bins=None, loci=None):
    pars = RATE_PARAMS[model]
    choices = ["length"] * 2 + (pars or []) * 2
    if model == "HKY85+G":
        choices.append("rate_shape")
    if model == "GS":
        choices = ["length", "GSPAR"]
    if (bins or loci) and pars and model != "HKY85+G":
        # histories that carve one parameter repeatedly along several dimensions
        choices = ["length"] + pars + pars[:2] * 4
    par = draw(st.sampled_from(choices))
    value = round(draw(st.floats(0.05, 4.0)), 4)
    if par == "GSPAR":
        value = round(draw(st.floats(0.9, 1.1)), 4)  # GeneralStationary rejects many combinations as infeasible
    const = draw(st.booleans())
    step = {"op": "set_param", "par": par, "scope": None, "value": value, "const": const, "indep": None}
    if not const and par != "GSPAR" and draw(st.integers(0, 3)) == 0:
        # every lower offered is below every upper offered, so bounds never cross by accident;
        # an init outside them is moved to the nearer bound
        step["lower"] = draw(st.sampled_from([None, 0.01, 0.2]))
        step["upper"] = draw(st.sampled_from([None, 3.0, 8.0]))
    if par == "rate_shape":
        return step
    if par not in ("length", "GSPAR"):
        # rate parameters have the dimensions edge x bin x locus: the rule may name one / several bins and loci
        if bins and draw(st.integers(0, 2)) < (1 if model == "HKY85+G" else 2):
            k = draw(st.sampled_from([1, 1, 2, len(bins)]))
            step["bins"] = sorted(draw(st.permutations(bins))[:k])
        if loci and draw(st.integers(0, 2)) < 2:
            k = draw(st.sampled_from([1, 1, 2, len(loci)]))
            step["loci"] = sorted(draw(st.permutations(loci))[:k])
    scope_kind = draw(st.sampled_from(["global", "edge", "edges", "edges"] + (["edge"] * 3 if step.get("bins") or step.get("loci") else [])))
    if scope_kind == "global":
        scope = None
    elif scope_kind == "edge":
        scope = [draw(st.sampled_from(edges))]
    else:
        k = draw(st.integers(2, len(edges)))
        scope = sorted(draw(st.permutations(edges))[:k])
    several = scope is None or len(scope) > 1 or (bins and len(step.get("bins") or bins) > 1) or (loci and len(step.get("loci") or loci) > 1)
    indep = draw(st.sampled_from([None, True, False])) if several else None
    if par == "length":
        value = round(draw(st.floats(0.001, 2.0)), 4)
        if not const and draw(st.integers(0, 11)) == 0:
            value = 12.0  # beyond the upper bound of a length: moved to the bound
    step.update(scope=scope, value=value, indep=indep, idx=draw(st.integers(0, 50)))
    return step


@st.composite
def bad_step(draw, model, edges, rule_only=False, dims=False):
    kinds = [k for k in BAD_KINDS if not (rule_only and k == "mprobs-sum")]
    pars = ["length"] + (RATE_PARAMS[model] or [])
    es = draw(st.permutations(edges))
    kind = draw(st.sampled_from(kinds + (BAD_KINDS_DIMS if dims and RATE_PARAMS[model] else [])))
    return {
        "op": "bad",
        "kind": kind,
        "par": draw(st.sampled_from(pars[1:] if kind in BAD_KINDS_DIMS else pars)),
        "edge": es[0],
        "edge2": es[1],
        "value": round(draw(st.floats(0.05, 2.0)), 4),
    }


@st.composite
def lf_cases(draw):
    model = draw(st.sampled_from(MODELS + ["HKY85", "GTR", "TN93", "GN"]))  # the codon model costs ~10x the others: 1 case in 12
    newick, tips, edges = draw(st.sampled_from(TREES[:2] + TREES[3:] if model == "MG94HKY" else TREES))
    gaps_ok = model != "GS"
    codon = model == "MG94HKY"
    case = {"model": model, "tree": newick, "edges": edges}
    if model == "HKY85+G" and draw(st.integers(0, 2)) == 0:
        case["bins"] = 4
    if model in DIM_MODELS and draw(st.integers(0, 4)) < 2:
        # several bins without a distribution, several loci, or both
        which = draw(st.sampled_from(["bins", "loci", "bins", "loci", "both"]))
        if which in ("bins", "both"):
            case["bins"] = draw(st.sampled_from(BIN_CHOICES if which == "bins" else BIN_CHOICES[:3]))
        if which in ("loci", "both"):
            case["loci"] = draw(st.sampled_from(LOCI_CHOICES if which == "loci" else LOCI_CHOICES[:2]))
    bins, loci = bin_names(case), locus_names(case)
    dims = bool(bins or loci)

    def one_aln():
        # one alignment per locus
        return [draw(aln_st(tips, gaps_ok, codon)) for _ in loci] if loci else draw(aln_st(tips, gaps_ok, codon))

    def one_mprobs():
        step = {"op": "set_mprobs", "probs": draw(mprobs_st())}
        if loci and draw(st.integers(0, 3)) > 0:
            step["locus"] = draw(st.sampled_from(loci))
        return step

    aln = one_aln()
    steps = []
    top = ["param"] * 6 + ["mprobs", "alignment", "postponed", "postponed", "optimise", "rules", "bad", "bad"]
    if dims:
        top += ["param"] * 3 + ["rules"] * 2
    if loci:
        top += ["mprobs"] * 2
    if model in TIME_HET_MODELS:
        top.append("time_het")
    if SISTERS[newick]:
        top.append("local_clock")
    for _ in range(draw(st.integers(1, 10))):
        kind = draw(st.sampled_from(top))
        if kind == "param" and bins and draw(st.integers(0, 5 if model == "HKY85+G" else 9)) == 0:
            # the bin probabilities are parameters too (kept well inside the bounds the optimiser puts on them)
            w = draw(st.lists(st.sampled_from([0.02, 0.05, 0.3, 1.0]), min_size=len(bins), max_size=len(bins)))
            steps.append({"op": "set_bprobs", "probs": [x / sum(w) for x in w]})
        elif kind == "param":
            steps.append(draw(param_step(model, edges, bins, loci)))
        elif kind == "mprobs":
            steps.append(one_mprobs())
        elif kind == "alignment":
            steps.append({"op": "set_alignment", "rows": one_aln()})
        elif kind == "postponed":
            via = draw(st.sampled_from(["block", "block", "apply_rules"]))
            inner = []
            for _ in range(draw(st.integers(2, 4))):
                k2 = "param" if via == "apply_rules" else draw(st.sampled_from(["param"] * 6 + ["mprobs", "mprobs", "alignment"]))
                if k2 == "param":
                    inner.append(draw(param_step(model, edges, bins, loci)))
                elif k2 == "mprobs":
                    inner.append(one_mprobs())
                else:
                    inner.append({"op": "set_alignment", "rows": one_aln()})
            if draw(st.integers(0, 2)) == 0:
                inner.insert(draw(st.integers(0, len(inner))), draw(bad_step(model, edges, rule_only=via == "apply_rules", dims=dims)))
            steps.append({"op": "postponed", "steps": inner, "via": via})
        elif kind == "bad":
            bad = draw(bad_step(model, edges, dims=dims))
            steps.append(bad)
            if draw(st.booleans()):
                # a rejected rule followed by an accepted one for the same parameter elsewhere: the
                # parameter is re-evaluated, so anything the rejected rule left behind becomes visible
                steps.append({"op": "set_param", "par": bad["par"], "scope": [bad["edge2"]], "value": round(draw(st.floats(0.05, 2.0)), 4), "const": draw(st.booleans()), "indep": None, "idx": 0})
        elif kind == "time_het":
            sets_kind = draw(st.sampled_from(["each", "one", "two"]))
            perm = draw(st.permutations(edges))
            if sets_kind == "each":
                edge_sets = None
            elif sets_kind == "one":
                edge_sets = [sorted(perm[: draw(st.integers(1, len(edges)))])]
            else:
                k = draw(st.integers(1, len(edges) - 1))
                edge_sets = [sorted(perm[:k]), sorted(perm[k:])]
            const = draw(st.booleans())
            th = {"op": "time_het", "edge_sets": edge_sets, "value": round(draw(st.floats(0.05, 4.0)), 4), "const": const, "indep": None if const else draw(st.sampled_from([None, True, False]))}
            if not const and draw(st.integers(0, 3)) == 0:
                th["lower"] = draw(st.sampled_from([None, 0.01, 0.2]))
                th["upper"] = draw(st.sampled_from([None, 3.0, 8.0]))
            steps.append(th)
        elif kind == "local_clock":
            steps.append({"op": "local_clock", "tips": draw(st.sampled_from(SISTERS[newick]))})
        elif kind == "optimise":
            steps.append({"op": "optimise", "max_evals": draw(st.integers(1, 20))})
        else:
            steps.append({"op": "rules"})
    if dims and draw(st.booleans()):
        steps.append({"op": "rules"})
    case.update(aln=aln, steps=steps)
    if model != "GS" and draw(st.integers(0, 3)) == 0:
        case["opt_mprobs"] = True
    return case


# ---------------------------------------------------------------- helpers
_MODEL_CACHE = {}


def make_model(name):
    from cogent3 import DNA, get_model

    if name == "HKY85+G":
        return get_model("HKY85", ordered_param="rate", distribution="gamma"), {"bins": 3}
    if name == "GS":
        from cogent3.evolve.ns_substitution_model import GeneralStationary

        return GeneralStationary(DNA.alphabet), {}
    if name == "MG94HKY":
        # building the codon model costs ~1 s; the model object holds no per-function state, so one is shared
        if name not in _MODEL_CACHE:
            _MODEL_CACHE[name] = get_model(name)
        return _MODEL_CACHE[name], {}
    return get_model(name), {}


def build_lf(case, rows, exp=None):
    """a new function on the case's tree and the given alignment; with a record `exp`, the tree handed to
    the constructor carries the recorded lengths and rate parameters ('Lengths are set to the values found
    in the tree ... Other parameters are scoped based on the unique values found in the tree')"""
    from cogent3 import make_aligned_seqs, make_tree

    sm, kw = make_model(case["model"])
    if case.get("bins"):
        kw["bins"] = case["bins"]
    if case.get("loci"):
        kw["loci"] = list(case["loci"])
    if case.get("opt_mprobs"):
        kw["optimise_motif_probs"] = True
    tree = make_tree(case["tree"])
    if exp is not None:
        for e in exp.edges:
            node = tree.get_node_matching_name(e)
            for par in exp.pars:
                if par == "rate_shape":
                    continue
                v = exp.edge_value(par, e)
                if par == "length":
                    node.length = v
                elif exp.uniform(par):  # else: differs between bins / loci, set by explicit rules (fresh_lnl)
                    node.params[par] = v
    lf = sm.make_likelihood_function(tree, **kw)
    lf.set_alignment(make_alns(rows))
    return lf


def make_alns(rows):
    """one alignment, or for a multi-locus function the list of alignments in the order of the loci"""
    from cogent3 import make_aligned_seqs

    if isinstance(rows, list):
        return [make_aligned_seqs(dict(r), moltype="dna") for r in rows]
    return make_aligned_seqs(dict(rows), moltype="dna")


def scoped_params(lf):
    return [p for p in lf.get_param_names() if p not in ("mprobs", "bprobs", "rate")]


def reported_mprobs(lf, locus=None):
    mp = lf.get_motif_probs() if locus is None else lf.get_motif_probs(locus=locus)
    d = mp.to_dict() if hasattr(mp, "to_dict") else dict(mp)
    return [float(d[b]) for b in "ACGT"]


class Expect:
    """the harness record of the intended settings, advanced from the step encodings alone"""

    def __init__(self, case, pars):
        self.edges = list(case["edges"])
        self.bins = bin_names(case)  # None: one bin, the dimension is never named
        self.loci = locus_names(case)
        self.pars = list(pars)  # scoped parameters incl. length and rate_shape
        self.val = {}  # (par, edge, bin, locus) -> value; None where the parameter lacks the dimension
        self.bnd = {}  # (lower, upper) of a free setting, None for a constant
        for par in self.pars:
            for k in self.keys(par):
                self.val[k] = TREE_LENGTHS[case["tree"]][k[1]] if par == "length" else 1.0
                self.bnd[k] = default_bounds(par)
        # per locus (key None for a single-locus function): ACGT order, once a step has set them
        self.mprobs = {l: None for l in self.loci or [None]}
        self.mprobs_auto = True  # the function re-derives them from every new alignment until set_motif_probs is called
        self.track_mprobs = True
        self.bprobs = None

    def keys(self, par):
        """LengthDefn has the dimension edge, the gamma shape none, rate parameters edge x bin x locus"""
        if par == "rate_shape":
            return [(par, None, None, None)]
        if par == "length":
            return [(par, e, None, None) for e in self.edges]
        return [(par, e, b, l) for e in self.edges for b in self.bins or [None] for l in self.loci or [None]]

    def edge_value(self, par, e):
        """the value of par on edge e if it is the same for every bin and locus, else None"""
        vals = {self.val[k] for k in self.keys(par) if k[1] == e}
        return vals.pop() if len(vals) == 1 else None

    def uniform(self, par):
        """no edge on which par differs between bins / loci (then the tree can carry the values, as the constructor
        reads a parameter from the tree only when every edge has it)"""
        return all(self.edge_value(par, e) is not None for e in self.edges)

    def set_mprobs(self, probs, locus=None):
        for l in self.mprobs:
            if locus is None or l == locus:
                self.mprobs[l] = None if probs is None else list(probs)

    def set_rule(self, par, scope, value, const, indep, lower=None, upper=None, bins=None, loci=None):
        """model of _LeafDefn.assign_all; False when the rule must be rejected (bounds crossed), nothing assigned"""
        if par == "rate_shape":
            groups = [self.keys(par)]
        else:
            # interpret_scopes: the selected categories of every dimension (all of them where none is named);
            # 'independent' makes every selected (edge, bin, locus) its own group, else they form one group
            sel = [k for k in self.keys(par) if (not scope or k[1] in scope) and (not bins or k[2] in bins) and (not loci or k[3] in loci)]
            independent = (par == "length") if indep is None else bool(indep)  # LengthDefn.independent_by_default
            groups = [[k] for k in sel] if independent else [sel]
        new = []
        for g in groups:
            v = sum(self.val[k] for k in g) / len(g) if value is None else value
            if const:
                new.append((g, v, None))
                continue
            cur = [self.bnd[k] for k in g if self.bnd[k] is not None and self.bnd[k][0] != self.bnd[k][1]]
            lo, hi = (min(b[0] for b in cur), max(b[1] for b in cur)) if cur else default_bounds(par)
            if lower is not None:
                lo = lower
            if upper is not None:
                hi = upper
            if lo > hi:
                return False
            new.append((g, min(max(v, lo), hi), (lo, hi)))
        for g, v, b in new:
            for k in g:
                self.val[k] = v
                self.bnd[k] = b
        return True

    def resync(self, lf, s, mprobs=False, bprobs=False):
        """re-read the values where no step determines them (after optimise / a GeneralStationary rejection)"""
        for k in self.val:
            ok, v = s.call("get_param_value", _reported, lf, k)
            if ok:
                self.val[k] = v
        for l in self.mprobs:
            if self.mprobs[l] is not None or mprobs:
                ok, v = s.call("get_motif_probs", reported_mprobs, lf, l)
                self.mprobs[l] = v if ok else None
        if self.bprobs is not None or bprobs:
            ok, v = s.call("get_param_value", lambda: [float(x) for x in lf.get_param_value("bprobs")])
            self.bprobs = v if ok else None


def _reported(lf, key):
    par, e, b, l = key
    kw = {d: v for d, v in (("edge", e), ("bin", b), ("locus", l)) if v is not None}
    return float(lf.get_param_value(par, **kw))


def _where(key):
    return " ".join(f"{d} {v}" for d, v in zip(("on edge", "bin", "locus"), key[1:]) if v is not None) or "(global)"


def fresh_lnl(case, rows, exp, lf):
    """lnL of a newly built function holding the recorded values"""
    gs = case["model"] == "GS"
    dims = bool(exp.bins or exp.loci)
    # GeneralStationary: the constructor would evaluate the recorded rates with default motif probabilities,
    # a combination that may be infeasible although the recorded one is not; there the values are set as
    # constants inside one updates_postponed block so that only the final combination is evaluated
    f = build_lf(case, rows, None if gs else exp)

    def fill():
        for l in exp.mprobs:
            mp = exp.mprobs[l] if exp.mprobs[l] is not None else reported_mprobs(lf, l)
            f.set_motif_probs(dict(zip("ACGT", mp)), is_constant=True, **({} if l is None else {"locus": l}))
        if "bprobs" in lf.get_param_names():
            # the bin probabilities of a rate-heterogeneity model are free parameters too
            bp = exp.bprobs if exp.bprobs is not None else lf.get_param_value("bprobs")
            f.set_param_rule("bprobs", value=numpy.array(bp, dtype=float), is_constant=True)
        for par in exp.pars:
            if par == "rate_shape":
                f.set_param_rule(par, value=exp.val[(par, None, None, None)], is_constant=True)
                continue
            byval = {}
            for e in exp.edges:
                v = exp.edge_value(par, e)
                if v is not None and (gs or (par == "length" and not v)):  # the constructor replaces a zero length by its default
                    byval.setdefault(v, []).append(e)
            for v, es in byval.items():
                if len(es) == len(exp.edges):
                    f.set_param_rule(par, value=v, is_constant=True)
                elif len(es) == 1:
                    f.set_param_rule(par, edge=es[0], value=v, is_constant=True)
                else:
                    f.set_param_rule(par, edges=es, value=v, is_constant=True)
            if not exp.uniform(par):
                # the parameter differs between bins / loci on some edge: one constant per (edge, bin, locus)
                for k in exp.keys(par):
                    sc = {d: v for d, v in (("edge", k[1]), ("bin", k[2]), ("locus", k[3])) if v is not None}
                    f.set_param_rule(par, value=exp.val[k], is_constant=True, **sc)

    if gs or dims:
        with f.updates_postponed():
            fill()
    else:
        fill()
    return f.lnL


def _prob_floor_tag(lf):
    """names the circumstance in which exported rules are documented to differ from the state:
    Setting.get_param_rule_dict lifts every exported probability vector above 1e-6"""
    for par in ("bprobs", "mprobs"):
        if par in lf.get_param_names():
            try:
                v = numpy.asarray(lf.get_param_value(par), dtype=float)
            except Exception:  # noqa: BLE001
                continue
            if v.size and float(v.min()) <= 1e-6:
                return "[probability-below-1e-6]"
    return ""


def _overlap_tag(rules, exp):
    """names the circumstance in which the ORDER of the exported rules matters: two rules of one parameter
    name scopes (edges x bins x loci, a missing dimension = all of it) that share an (edge, bin, locus).
    That happens when the scopes sharing a setting do not form a full box: the rule then names the
    categories used in each dimension, which also cover scopes that belong to another rule"""
    seen = {}
    for r in rules:
        box = []
        for one, many, every in (("edge", "edges", exp.edges), ("bin", "bins", exp.bins), ("locus", "loci", exp.loci)):
            if r.get(one) is not None:
                box.append({r[one]})
            elif r.get(many) is not None:
                box.append(set(r[many]))
            else:
                box.append(None)  # all
        for other in seen.get(r["par_name"], []):
            if all(a is None or b is None or a & b for a, b in zip(box, other)):
                return "[non-rectangular-scope]"
        seen.setdefault(r["par_name"], []).append(box)
    return ""


def resolve_par(st_, gs_pars):
    par = st_["par"]
    if par == "GSPAR":
        par = gs_pars[st_.get("idx", 0) % len(gs_pars)]
    return par


def rule_of(st_, gs_pars):
    """the keyword arguments of set_param_rule for a set_param step"""
    kw = {"par_name": resolve_par(st_, gs_pars)}
    if st_["scope"] is not None:
        if len(st_["scope"]) == 1:
            kw["edge"] = st_["scope"][0]
        else:
            kw["edges"] = list(st_["scope"])
    for one, many in (("bin", "bins"), ("locus", "loci")):
        names = st_.get(many)
        if names:
            # 'bin=' takes one name, 'bins=' a list (set_param_rule docstring)
            if len(names) == 1 and st_.get("idx", 0) % 2 == 0:
                kw[one] = names[0]
            else:
                kw[many] = list(names)
    if st_["indep"] is not None:
        kw["is_independent"] = st_["indep"]
    if st_["const"]:
        kw.update(value=st_["value"], is_constant=True)
    else:
        kw.update(init=st_["value"])
        for b in ("lower", "upper"):
            if st_.get(b) is not None:
                kw[b] = st_[b]
    return kw


def bad_rule_of(st_):
    kind, par, e, v = st_["kind"], st_["par"], st_["edge"], st_["value"]
    if kind == "unknown-edge":
        return dict(par_name=par, edge="nosuch", init=v)
    if kind == "unknown-edge-in-list":
        return dict(par_name=par, edges=[e, "nosuch"], init=v)
    if kind == "edge-and-edges":
        return dict(par_name=par, edge=e, edges=[e, st_["edge2"]], init=v)
    if kind == "crossed-bounds":
        return dict(par_name=par, edge=e, init=v, lower=5.0, upper=1.0)
    if kind == "unknown-par":
        return dict(par_name="nosuchpar", init=v)
    if kind == "derived-par":
        return dict(par_name="psubs", init=v)
    if kind == "unknown-dimension":
        return dict(par_name="length", bin="bin0", init=v)
    if kind == "unknown-bin":
        return dict(par_name=par, bin="nosuchbin", edge=e, init=v)
    if kind == "unknown-locus":
        return dict(par_name=par, loci=["nosuchlocus"], init=v)
    raise ValueError(kind)


def bad_exceptions(kind):
    from cogent3.core.tree import TreeError
    from cogent3.recalculation.scope import InvalidDimensionError, InvalidScopeError

    return {
        "unknown-edge": (InvalidScopeError,),
        "unknown-edge-in-list": (InvalidScopeError,),
        "edge-and-edges": (TreeError,),
        "crossed-bounds": (ValueError,),
        "unknown-par": (KeyError,),
        "derived-par": (ValueError,),
        "unknown-dimension": (InvalidDimensionError,),
        "unknown-bin": (InvalidScopeError,),
        "unknown-locus": (InvalidScopeError,),
        "mprobs-sum": (ValueError,),
    }[kind]


def run_bad(lf, st_):
    if st_["kind"] == "mprobs-sum":
        lf.set_motif_probs({"A": 0.5, "C": 0.5, "G": 0.5, "T": 0.5})
    else:
        lf.set_param_rule(**bad_rule_of(st_))


def apply_param(lf, st_, gs_pars):
    kw = rule_of(st_, gs_pars)
    lf.set_param_rule(**kw)
    return kw["par_name"]


def _infeasible():  # see GS_OK below
    """GeneralStationary documents ParameterOutOfBoundsError for rate combinations without a valid stationary solution"""
    from cogent3.maths.optimisers import ParameterOutOfBoundsError

    return (ParameterOutOfBoundsError,)


class _GSOK(dict):
    """GeneralStationary may reject a rate combination (ParameterOutOfBoundsError) at whichever call
    first evaluates it: set_param_rule, set_motif_probs, set_alignment, lnL, optimise, make_calculator"""

    def get(self, model, default=()):
        return _infeasible() if model == "GS" else default


GS_OK = _GSOK()


def close(a, b, rtol=1e-9):
    if a is None or b is None:
        return False
    if math.isnan(a) or math.isnan(b):
        # vectors beyond the bounds have no likelihood: nan from both the incremental
        # and the fresh calculator is agreement, nan from one of them is not
        return math.isnan(a) and math.isnan(b)
    if math.isinf(a) or math.isinf(b):
        return a == b
    return abs(a - b) <= rtol * max(1.0, abs(a), abs(b))


# ------------------------------------------------------------ lf histories
def exec_lf(case) -> Soft:
    s = Soft("C07/")
    model = case["model"]
    gs_ok = GS_OK.get(model, ())
    state = {"rows": case["aln"], "poisoned": False, "unsettled": False}
    ok, lf = s.call("construct", build_lf, case, state["rows"], allowed=gs_ok)
    if not ok:
        return s
    gs_pars = [p for p in scoped_params(lf) if p != "length"] if model == "GS" else []
    exp = Expect(case, scoped_params(lf))
    s.cls("model:" + model)
    if case.get("opt_mprobs"):
        s.cls("optimise_motif_probs")
    if exp.bins and model != "HKY85+G":
        s.cls("bins-without-distribution")
    if exp.loci:
        s.cls("multi-locus")
    n_steps = 0
    change_after_block = False
    seen_block = False

    def verify(tag, what, values=True):
        """reported values == record for every parameter and edge; lnL == fresh function built from the record"""
        poisoned = state["poisoned"]
        if values:
            for k in exp.val:
                okv, v = s.call("get_param_value", _reported, lf, k)
                if okv and not close(v, exp.val[k], 1e-12):
                    s.fail(POISON_SIG if poisoned else tag + "/reported-vs-intended", f"{k[0]} {_where(k)} reported as {v!r}, intended {exp.val[k]!r} -- {what}")
                    # one report per divergence: continue from what the function reports, so that the lnL
                    # comparison below and the later steps look for further, independent disagreements
                    exp.resync(lf, s)
                    break
            for l in exp.mprobs:
                if exp.mprobs[l] is None:
                    continue
                okv, v = s.call("get_motif_probs", reported_mprobs, lf, l)
                if okv and not all(close(a_, b_, 1e-9) for a_, b_ in zip(v, exp.mprobs[l])):
                    s.fail(POISON_SIG if poisoned else tag + "/reported-vs-intended", f"motif probs{'' if l is None else ' of locus ' + l} reported {v}, intended {exp.mprobs[l]} -- {what}")
                    exp.resync(lf, s)
                    break
            if exp.bprobs is not None:
                okv, v = s.call("get_param_value", lambda: [float(x) for x in lf.get_param_value("bprobs")])
                if okv and not all(close(a_, b_, 1e-9) for a_, b_ in zip(v, exp.bprobs)):
                    s.fail(POISON_SIG if poisoned else tag + "/reported-vs-intended", f"bprobs reported {v}, intended {exp.bprobs} -- {what}")
                    exp.resync(lf, s)
        ok, got = s.call(tag + "/lnL", lambda: float(lf.lnL), allowed=gs_ok)
        if not ok:
            return
        ok, want = s.call(tag + "/fresh", fresh_lnl, case, state["rows"], exp, lf, allowed=gs_ok)
        if not ok:
            return
        if not close(got, want):
            s.fail(POISON_SIG if poisoned else tag + "/lnL-vs-fresh", f"incremental lnL {got!r} != fresh function {want!r} (diff {got - want:.3e}) -- {what}")

    def rejected(tag, mprobs_unknown=False):
        """a GeneralStationary rejection: the change is assigned, the recalculation failed; what is reported
        until the next accepted change is not specified (the record keeps the assigned values)"""
        s.cls("infeasible-value-rejected")
        state["unsettled"] = True
        if mprobs_unknown:
            # a rejected set_motif_probs may or may not have switched off the re-derivation of the
            # motif probabilities from later alignments: stop recording them, read them instead
            exp.set_mprobs(None)
            exp.track_mprobs = False

    def record(st_):
        """advance the record by one accepted inner / top-level change; False if it must be rejected"""
        op = st_["op"]
        if op == "set_param":
            return exp.set_rule(resolve_par(st_, gs_pars), st_["scope"], st_["value"], st_["const"], st_["indep"], st_.get("lower"), st_.get("upper"), st_.get("bins"), st_.get("loci"))
        if op == "set_mprobs":
            # whichever locus is named, the function stops deriving motif probabilities from alignments
            # (set_motif_probs: 'self.mprobs_from_alignment = False  # should be done per-locus')
            exp.mprobs_auto = False
            if exp.track_mprobs:
                exp.set_mprobs(st_["probs"], st_.get("locus"))
        elif op == "set_alignment":
            state["rows"] = st_["rows"]
            if exp.mprobs_auto:
                exp.set_mprobs(None)  # derived from the new alignment(s), per locus
        return True

    def run(st_):
        op = st_["op"]
        if op == "set_param":
            apply_param(lf, st_, gs_pars)
        elif op == "set_mprobs":
            lf.set_motif_probs(dict(zip("ACGT", st_["probs"])), **({"locus": st_["locus"]} if st_.get("locus") else {}))
        elif op == "set_alignment":
            lf.set_alignment(make_alns(st_["rows"]))
        elif op == "bad":
            run_bad(lf, st_)
        else:
            raise ValueError(op)

    verify("initial", "after construction")
    for i, st_ in enumerate(case["steps"]):
        op = st_["op"]
        what = f"model {model} tree {case['tree']} step {i} {st_} after {case['steps'][:i]}"
        if op in ("set_param", "set_mprobs", "set_alignment"):
            tag = {"set_param": "set_param_rule", "set_mprobs": "set_motif_probs", "set_alignment": "set_alignment"}[op]
            if op == "set_mprobs" and st_.get("locus") and exp.track_mprobs:
                # the motif probabilities of the OTHER loci must stay what they are (derived from their alignments
                # if no step has set them): read them before the step, from now on they are part of the record
                for l in exp.mprobs:
                    if l != st_["locus"] and exp.mprobs[l] is None:
                        okv, v = s.call("get_motif_probs", reported_mprobs, lf, l)
                        exp.mprobs[l] = v if okv else None
            ok, _ = s.call(tag, run, st_, allowed=_infeasible() if op == "set_param" else gs_ok)
            if not record(st_):
                raise HarnessError(f"generated rule has crossed bounds: {what}")
            if not ok:
                rejected(tag, mprobs_unknown=op == "set_mprobs")
            else:
                state["unsettled"] = False
                if op == "set_param" and any(st_.get(b) is not None for b in ("lower", "upper")):
                    s.cls("rule-with-bounds")
                if op == "set_param" and (st_.get("bins") or st_.get("loci")):
                    s.cls("rule-scoped-by-" + "+".join(d for d, k_ in (("bin", "bins"), ("locus", "loci"), ("edge", "scope")) if st_.get(k_)))
                if op == "set_mprobs" and st_.get("locus"):
                    s.cls("motif-probs-of-one-locus")
                if seen_block and op == "set_param":
                    change_after_block = True
                verify(tag, what)
        elif op == "set_bprobs":
            ok, _ = s.call("set_bprobs", lambda: lf.set_param_rule("bprobs", init=numpy.array(st_["probs"], dtype=float)))
            if ok:
                exp.bprobs = list(st_["probs"])
                verify("set_param_rule", what)
        elif op == "bad":
            ok, _ = s.call("bad-rule", run_bad, lf, st_, allowed=bad_exceptions(st_["kind"]))
            if ok:
                s.fail(f"bad-rule/accepted[{st_['kind']}]", f"{what}: no exception")
                return s  # the state after an accepted invalid rule is unknown
            s.cls("bad-rule:" + st_["kind"])
            seen_block = True
            # nothing may have changed
            if not state["unsettled"]:
                verify("bad-rule", what)
        elif op == "postponed":
            inner = st_["steps"]
            via = st_.get("via", "block")
            bad_at = next((j for j, x in enumerate(inner) if x["op"] == "bad"), None)
            applied = inner if bad_at is None else inner[:bad_at]

            def block():
                if via == "apply_rules":
                    lf.apply_param_rules([bad_rule_of(x) if x["op"] == "bad" else rule_of(x, gs_pars) for x in inner])
                else:
                    with lf.updates_postponed():
                        for x in inner:
                            run(x)

            allowed = _infeasible() + (bad_exceptions(inner[bad_at]["kind"]) if bad_at is not None else ())
            ok, exc = s.call("updates_postponed", block, allowed=allowed)
            for x in applied:
                record(x)
            seen_block = True
            tag = "apply_param_rules" if via == "apply_rules" else "updates_postponed"
            if ok and bad_at is not None:
                s.fail(f"bad-rule/accepted[{inner[bad_at]['kind']}]", f"{what}: no exception")
                return s
            if bad_at is not None:
                # from here on every disagreement has one cause on the unchanged tree: the block was
                # left through the exception with the calculation still switched off
                state["poisoned"] = True
                s.cls("error-inside-" + tag, "bad-rule:" + inner[bad_at]["kind"])
            if not ok and isinstance(exc, _infeasible()):
                rejected(tag)
            else:
                state["unsettled"] = False
                verify(tag, what)
        elif op == "time_het":
            sets = st_["edge_sets"]
            kw = {"is_constant": st_["const"]}
            if sets is not None:
                kw["edge_sets"] = [dict(edges=list(es)) for es in sets]
            if st_["const"]:
                kw["value"] = st_["value"]
            else:
                kw["init"] = st_["value"]
                if st_["indep"] is not None:
                    kw["is_independent"] = st_["indep"]
                for b in ("lower", "upper"):
                    if st_.get(b) is not None:
                        kw[b] = st_[b]
            ok, _ = s.call("set_time_heterogeneity", lambda: lf.set_time_heterogeneity(**kw))
            if not ok:
                return s
            for es in sets if sets is not None else [[e] for e in exp.edges]:
                for par in RATE_PARAMS[model]:
                    exp.set_rule(par, list(es), st_["value"], st_["const"], st_["indep"], st_.get("lower"), st_.get("upper"))
            seen_block = True
            s.cls("time-heterogeneity")
            verify("set_time_heterogeneity", what)
        elif op == "local_clock":
            ok, _ = s.call("set_local_clock", lambda: lf.set_local_clock(*st_["tips"]), allowed=gs_ok)
            exp.set_rule("length", list(st_["tips"]), None, False, False)
            if not ok:
                rejected("set_local_clock")
            else:
                state["unsettled"] = False
                s.cls("local-clock")
                verify("set_local_clock", what)
        elif op == "optimise":
            ok, _ = s.call("optimise", lambda: lf.optimise(local=True, max_evaluations=st_["max_evals"], limit_action="ignore", show_progress=False), allowed=gs_ok)
            if not ok:
                return s  # GeneralStationary: where the optimiser stopped is unknown
            else:
                state["unsettled"] = False
                # the optimiser chooses the values: re-read them, then the reported lnL must be theirs
                exp.resync(lf, s, mprobs=bool(case.get("opt_mprobs")) and exp.track_mprobs, bprobs="bprobs" in lf.get_param_names())
                verify("optimise", what, values=False)
                s.cls("optimise")
        elif op == "rules":
            ok, rules = s.call("get_param_rules", lf.get_param_rules)
            if not ok:
                return s

            def rebuild():
                f = build_lf(case, state["rows"])
                f.apply_param_rules(rules)
                return f

            ok, f2 = s.call("apply_param_rules", rebuild, allowed=gs_ok)
            if ok and not state["unsettled"]:
                okl, l2 = s.call("apply_param_rules/lnL", lambda: float(f2.lnL), allowed=gs_ok)
                okl2, l1 = s.call("rules/lnL", lambda: float(lf.lnL), allowed=gs_ok)
                overlap = _overlap_tag(rules, exp)
                if okl and okl2 and not close(l1, l2):
                    s.fail(POISON_SIG if state["poisoned"] and not overlap else "rules-roundtrip/lnL" + (overlap or _prob_floor_tag(lf)), f"{what}: lnL {l1!r} after export/import {l2!r}; rules {rules}")
                okn, nfp = s.call("rules/nfp", lambda: (lf.get_num_free_params(), f2.get_num_free_params()))
                if okn:
                    s.eq(nfp[1], nfp[0], POISON_SIG if state["poisoned"] and not overlap else "rules-roundtrip/num-free-params" + overlap, f"{what}; rules {rules}")
                if overlap:
                    s.cls("rules-roundtrip:overlapping-scopes")
            s.cls("rules-roundtrip")
        n_steps += 1
    s.nontrivial = n_steps >= 4 and change_after_block
    return s


# -------------------------------------------------------------- calculator
@st.composite
def calc_cases(draw):
    model = draw(st.sampled_from(["HKY85", "GTR", "TN93", "GN", "GS", "HKY85+G"] * 2 + ["MG94HKY"]))
    newick, tips, edges = draw(st.sampled_from(TREES[:2] + TREES[3:] if model == "MG94HKY" else TREES))
    aln = draw(aln_st(tips, model != "GS", model == "MG94HKY"))
    setup = []
    for _ in range(draw(st.integers(0, 3))):
        setup.append(draw(param_step(model, edges)))
    moves = []
    for _ in range(draw(st.integers(2, 12))):
        kind = draw(st.sampled_from(["some", "some", "some", "one", "revert", "revert", "revert+some", "revert+some", "revert-part", "repeat", "all", "edge", "change"]))
        mv = {"kind": kind}
        if kind in ("revert+some", "revert-part"):
            mv["via_change"] = draw(st.booleans())
        if kind in ("some", "one", "all", "edge", "change", "revert+some", "revert-part"):
            mv["picks"] = draw(st.lists(st.integers(0, 40), min_size=1, max_size=1 if kind == "one" else 4))
            mv["fracs"] = draw(st.lists(st.floats(0.0, 1.0), min_size=len(mv["picks"]), max_size=len(mv["picks"])))
            mv["beyond"] = draw(st.integers(0, 9)) == 0
        moves.append(mv)
    return {"model": model, "tree": newick, "edges": edges, "aln": aln, "setup": setup, "moves": moves}


def exec_calc(case) -> Soft:
    s = Soft("C07/calc/")
    rows = dict(case["aln"])
    ok, lf = s.call("construct", build_lf, case, rows, allowed=GS_OK.get(case["model"], ()))
    if not ok:
        return s
    gs_pars = [p for p in scoped_params(lf) if p != "length"] if case["model"] == "GS" else []
    for st_ in case["setup"]:
        ok, _ = s.call("setup", apply_param, lf, st_, gs_pars, allowed=GS_OK.get(case["model"], ()))
        if not ok:
            return s
    ok, calc = s.call("make_calculator", lf.make_calculator, allowed=GS_OK.get(case["model"], ()))
    if not ok:
        return s
    ok, x0 = s.call("get_value_array", lambda: [float(v) for v in calc.get_value_array()])
    if not ok or not x0:
        return s
    lo, hi = calc.get_bounds_vectors()
    lo, hi = [float(v) for v in lo], [float(v) for v in hi]
    n = len(x0)
    s.cls("model:" + case["model"], f"npar={min(n, 12)}")
    cur = list(x0)
    prev = list(x0)
    history = []
    reverted = False
    revert_plus = False
    after_raise = False
    pending_full = False

    def target(i, frac, beyond):
        # a value inside a sane part of the optimiser's range for coordinate i
        a, b = max(lo[i], -3.0), min(hi[i], 3.0)
        if lo[i] >= 0:  # untransformed, e.g. lengths in [0, 10]
            a, b = max(lo[i], 1e-4), min(hi[i], 2.5)
        v = a + frac * (b - a)
        if beyond:
            # (not beyond an upper bound like rate_shape's default 1e10: the incomplete gamma series takes a minute there)
            v = hi[i] + 0.5 if frac > 0.5 and hi[i] < 1e6 else lo[i] - 0.5
        return v

    for k, mv in enumerate(case["moves"]):
        kind = mv["kind"]
        new = list(cur)
        use_change = False
        if kind == "revert":
            new = list(prev)
            reverted = True
        elif kind == "revert+some":
            # what a line search emits: the previous step is taken back AND other coordinates move, so
            # Calculator.change undoes the last step through the buffer switch and then applies the rest
            new = list(prev)
            others = [i for i in range(n) if cur[i] == prev[i]]
            if others:
                idxs = sorted({others[p % len(others)] for p in mv["picks"]})
                for i, f in zip(idxs, (mv["fracs"] * n)[: len(idxs)]):
                    new[i] = target(i, f, mv["beyond"] and i == idxs[0])
                if any(cur[i] != prev[i] for i in range(n)) and any(new[i] != prev[i] for i in idxs):
                    revert_plus = True
            reverted = True
            use_change = bool(mv.get("via_change")) and not pending_full
        elif kind == "revert-part":
            # only SOME of the coordinates changed by the previous step go back: the one-deep undo must not be taken
            changed = [i for i in range(n) if cur[i] != prev[i]]
            back = sorted({changed[p % len(changed)] for p in mv["picks"]}) if changed else []
            if len(back) == len(changed):
                back = back[:-1]
            for i in back:
                new[i] = prev[i]
            if back:
                s.cls("revert-part")
            reverted = True
            use_change = bool(mv.get("via_change")) and not pending_full
        elif kind == "repeat":
            pass
        else:
            idxs = sorted({p % n for p in mv["picks"]})
            if kind == "all":
                idxs = list(range(n))
            fr = (mv["fracs"] * n)[: len(idxs)]
            for i, f in zip(idxs, fr):
                new[i] = target(i, f, mv["beyond"] and i == idxs[0])
            # after a rejected vector the caller cannot know which vector the calculator is
            # at (change() may have undone the previous step before it failed), so the next
            # evaluation passes the whole vector, as the optimisers do
            use_change = kind == "change" and not pending_full
        what = f"model {case['model']} tree {case['tree']} setup {case['setup']} moves {history + [mv]} vector {new}"
        history.append(mv)
        try:
            if use_change:
                changes = [(i, new[i]) for i in range(n) if new[i] != cur[i]]
                got = float(calc.change(changes)) if changes else float(calc.testfunction())
            else:
                got = float(calc(new))
            raised = None
        except Exception as e:  # noqa: BLE001
            from vlib.core import raised_in_repo

            if not raised_in_repo(e):
                raise
            raised = e
        # the oracle: a newly made calculator without history
        try:
            want = float(lf.make_calculator(with_undo=False)(new))
            want_raised = None
        except Exception as e:  # noqa: BLE001
            want_raised = e
        if raised is not None or want_raised is not None:
            s.cls("evaluation-raised")
            if (raised is None) != (want_raised is None):
                s.fail("raise-mismatch", f"{what}: incremental {'raised ' + repr(raised) if raised else 'returned'}; fresh {'raised ' + repr(want_raised) if want_raised else 'returned'}")
            after_raise = True
            pending_full = True
            # the vector is rejected: the calculator must be left in a coherent state, i.e. the
            # value it reports is the value of the vector it records as current (change() restores
            # last_values; which accepted vector that is, is not specified: an undo of the previous
            # step may already have happened)
            okc, back = s.call("testfunction-after-raise", lambda: float(calc.testfunction()))
            if okc and raised is not None:
                at = [float(v) for v in calc.last_values]
                try:
                    ref = float(lf.make_calculator(with_undo=False)(at))
                except Exception:  # noqa: BLE001
                    ref = None
                if ref is not None and not close(back, ref):
                    s.fail("rollback/value", f"{what}: after the rejected vector the calculator reports {back!r} for its recorded vector {at}, a fresh calculator there gives {ref!r}")
            continue
        pending_full = False
        if not close(got, want):
            sig = "value-vs-fresh"
            if after_raise:
                sig += "[after-rejected-vector]"
            elif kind == "revert":
                sig += "[revert]"
            elif kind in ("revert+some", "revert-part"):
                sig += f"[{kind}]"
            s.fail(sig, f"{what}: incremental {got!r} != fresh calculator {want!r} (diff {got - want:.3e})")
        okc, tf = s.call("testfunction", lambda: float(calc.testfunction()))
        if okc and not close(tf, got):
            s.fail("testfunction", f"{what}: testfunction {tf!r} != value just returned {got!r}")
        prev, cur = cur, new
    if revert_plus:
        s.cls("revert+some")
    s.nontrivial = len(case["moves"]) >= 4 and reverted
    return s


SUBS = [
    Sub("lf_history", exec_lf, strategy=lf_cases(), quick=240, thorough=24_000, shards_quick=16),
    Sub("calculator", exec_calc, strategy=calc_cases(), quick=360, thorough=36_000, shards_quick=16),
]

KNOWN_PREDICATES = {}

META = {
    "technique": "Hypothesis-generated histories of likelihood-function edits (accepted and rejected) and calculator change vectors, each step compared with a history-free rebuild (fresh function holding the harness's own record of the intended settings as constants / fresh calculator without undo)",
    "level_text": "Hundreds of generated histories per run over eight model families (incl. non-stationary, gamma-binned, GeneralStationary and a codon model, with constant or optimisable motif probabilities; nucleotide models also with several bins without a distribution and / or several loci) exercise parameter rules scoped by edge, bin and locus (alone and combined), shared or independent, with and without bounds, motif probabilities, alignment replacement, time-heterogeneity and local-clock helpers, postponed update blocks and apply_param_rules batches, changes the library must reject (alone and in the middle of a block, after which the history continues), short optimiser runs, rule export/import and calculator change sequences with reverts, reverts combined with other changes, repeats and rejected vectors; after every step every reported parameter value must equal the harness's record of what was set and the incrementally maintained log-likelihood must equal that of an object built from scratch with the recorded settings (1e-9 relative).",
    "level_note": "Both sides are computed by cogent3 (the oracle is history-freeness, the absolute value is C02's subject). Bins / loci on the codon and GeneralStationary models, bin probabilities per locus, motif probabilities per edge, sites_independent=False (bin_switch) and clade / stem / outgroup scopes are not driven; the number of free parameters is compared between the function and its re-import, not with the record; the state between a GeneralStationary rejection and the next accepted change is not asserted.",
    "design_ref": "DESIGN.md section 1, C07",
}
