"""C07 — incrementally recalculated likelihoods equal a fresh calculation.

Oracle: after every step of a generated history the value reported by the
long-lived likelihood function / calculator is compared with a value computed
by an object that has no history: a newly constructed likelihood function on
which every parameter is set as a constant to the value the HARNESS recorded
from the step encodings (after an optimiser step: to the value the function
reports), and a newly made calculator without undo buffer evaluated at the
same vector.  The values the function reports are compared with the harness
record for every parameter and every edge after every step.
"""

from __future__ import annotations

import math
import numpy

from hypothesis import strategies as st

from vlib.core import HarnessError, Soft, Sub

PROPERTY_ID = "C07"
LEVEL = "exploration"
RULE = (
    "lf_history sub-check: a case is a model (HKY85, GTR, TN93, F81, GN, gamma-binned HKY85, GeneralStationary, codon MG94HKY; "
    "optionally built with optimise_motif_probs=True), a tree of 3-5 tips, an alignment and a history of 1-10 steps drawn from "
    "set_param_rule (global / edge subsets / single edge, value or init, constant or free, independent or shared, optional "
    "lower / upper bounds, inits beyond the bounds), set_motif_probs, set_alignment, set_time_heterogeneity, set_local_clock, "
    "updates_postponed blocks and apply_param_rules batches of 2-4 such steps, REJECTED changes (unknown edge, edge and edges "
    "together, crossed bounds, unknown / derived parameter, unknown dimension, motif probabilities not summing to one) on their "
    "own and inside a postponed block / batch, a short optimise, and export/import of the parameter rules. The history "
    "continues after a rejected change. The harness keeps its own record of the intended settings ((parameter, edge) -> value "
    "and bounds, motif and bin probabilities) from the step encodings; after every step every reported parameter value is "
    "compared with the record and lf.lnL with a newly built function holding the record as constants. calculator sub-check: a "
    "calculator made from a partly constrained function is driven through 2-12 change vectors (single and multiple changes, "
    "reverts to the previous vector, reverts combined with a change of other coordinates as line searches emit, reverts of only a part of the previous step, repeats, "
    "values at and beyond the bounds, changes through calc.change with explicit (index, value) lists) and compared after every "
    "evaluation with a newly made calculator without undo. Non-trivial = a history of >= 4 steps containing a revert, or a "
    "postponed block / rejected change followed by another change; distinct = distinct case encodings."
)
ASSUMPTIONS = [
    "tolerance on log-likelihoods: 1e-9 * max(1, |lnL|) (the fresh-function comparison was bitwise exact in probes)",
    "the fresh function is built from the harness record of intended settings; the record is re-read from the function only where a step does not determine the values: after optimise, after a reported disagreement (so that one divergence is reported once), and for motif / bin probabilities as long as no step has set them (they derive from the alignment / the default; motif probabilities are re-derived from every new alignment until set_motif_probs is called)",
    "initial state: lengths as written in the tree, every rate parameter 1.0 (ParamDefn.default), bounds length [0, 10], rate parameters [1e-6, 1e6], rate_shape [0.01, 1e10] (class attributes of LengthDefn / RatioParamDefn / GammaDefn)",
    "bounds of a free rule follow _LeafDefn.assign_all: per scope group the widest bounds of the free settings currently in the group (class defaults when all are constant), overridden by lower= / upper=; an init outside them is moved to the nearer bound (the library warns 'Value of ... increased / decreased to keep within bounds'); lower > upper raises ValueError before anything is assigned",
    "a set_param_rule / set_motif_probs call that raises leaves the settings untouched (assign_all collects all settings before assigning any); one that returns has taken effect. So after an exception inside an updates_postponed block or an apply_param_rules batch the intended state is: inner changes before the failing one applied, the failing one and later ones not; 'Temporarily turn off calculation' means calculation is on again once the block is left, by whichever route",
    "rejections asserted: unknown edge -> InvalidScopeError and unknown dimension -> InvalidDimensionError (tests/test_recalculation.py), edge= together with edges= -> TreeError, crossed bounds -> ValueError, derived parameter -> ValueError ('not settable as it is derived from'), unknown parameter -> KeyError, motif probabilities summing to 2 -> ValueError",
    "GeneralStationary may reject a rate combination (ParameterOutOfBoundsError) at whichever call first evaluates it. The rejected change is assigned but not (completely) recalculated: what lnL and get_param_value report between such a rejection and the next accepted change is not specified and not compared; the record keeps the assigned values and the history continues: from the next accepted change on the function must again agree with the record and with a fresh function (a rejected top-level set_motif_probs stops the recording of motif probabilities, a rejected optimise ends the case). For GeneralStationary the fresh function is filled inside one updates_postponed block so that only the final combination is evaluated",
    "set_local_clock is only used on two tips attached to the same internal node other than the root (its docstring: 'only valid for tips connected to the same node'); both lengths become the mean of the current two",
    "set_time_heterogeneity applies one rule per (edge set, rate parameter of the model) with the given is_independent / is_constant / value / init / lower / upper; not used on the gamma-binned model (an independent kappa would also split between bins) nor on GeneralStationary",
    "an evaluation that raises inside the calculator (value outside the feasible region) is an allowed outcome; the next evaluation must again agree with a fresh calculator",
    "optimise is limited to <= 20 evaluations with limit_action='ignore'; only consistency of reported values and reported lnL is asserted after it",
]

MODELS = ["HKY85", "GTR", "TN93", "F81", "GN", "HKY85+G", "GS", "MG94HKY"]
TREES = [
    ("(a:0.1,b:0.2,c:0.3)", ["a", "b", "c"], ["a", "b", "c"]),
    ("((a:0.1,b:0.2):0.05,c:0.3,d:0.1)", ["a", "b", "c", "d"], ["a", "b", "c", "d", "edge.0"]),
    ("((a:0.1,b:0.2):0.05,(c:0.3,d:0.1):0.2,e:0.4)", ["a", "b", "c", "d", "e"], ["a", "b", "c", "d", "e", "edge.0", "edge.1"]),
    ("(a:0.3,b:0.2,c:0.3,d:0.15)", ["a", "b", "c", "d"], ["a", "b", "c", "d"]),
]
TREE_LENGTHS = {
    TREES[0][0]: {"a": 0.1, "b": 0.2, "c": 0.3},
    TREES[1][0]: {"a": 0.1, "b": 0.2, "c": 0.3, "d": 0.1, "edge.0": 0.05},
    TREES[2][0]: {"a": 0.1, "b": 0.2, "c": 0.3, "d": 0.1, "e": 0.4, "edge.0": 0.05, "edge.1": 0.2},
    TREES[3][0]: {"a": 0.3, "b": 0.2, "c": 0.3, "d": 0.15},
}
# pairs of tips attached to the same internal node that is not the root
SISTERS = {TREES[0][0]: [], TREES[1][0]: [["a", "b"]], TREES[2][0]: [["a", "b"], ["c", "d"]], TREES[3][0]: []}
RATE_PARAMS = {
    "HKY85": ["kappa"],
    "HKY85+G": ["kappa"],
    "GTR": ["A/C", "A/G", "A/T", "C/G", "C/T"],
    "TN93": ["kappa_r", "kappa_y"],
    "F81": [],
    "GN": ["A>C", "A>G", "A>T", "C>A", "C>G", "C>T", "G>A", "G>C", "G>T", "T>A", "T>C"],
    "GS": None,  # discovered at run time
    "MG94HKY": ["kappa", "omega"],
}
TIME_HET_MODELS = ["HKY85", "GTR", "TN93", "GN", "MG94HKY"]
SENSE_CODONS = ["ATG", "GCT", "GCC", "AAA", "AAG", "TTT", "CTG", "GAT", "GAC", "CCC", "TGG", "ACG", "GGT", "CAT", "AGA", "TCA"]
BAD_KINDS = ["unknown-edge", "unknown-edge-in-list", "edge-and-edges", "crossed-bounds", "unknown-par", "derived-par", "unknown-dimension", "mprobs-sum"]
POISON_SIG = "after-error-in-postponed-block/stale-state"


def default_bounds(par):
    if par == "length":
        return (0.0, 10.0)
    if par == "rate_shape":
        return (1e-2, 1e10)
    return (1e-6, 1e6)


# -------------------------------------------------------------- generator
@st.composite
def aln_st(draw, tips, gaps_ok, codon=False):
    if codon:
        n = draw(st.integers(2, 5))
        alpha = SENSE_CODONS + (["---"] if gaps_ok else [])
        base = draw(st.lists(st.sampled_from(SENSE_CODONS), min_size=n, max_size=n))
    else:
        n = draw(st.integers(6, 20))
        alpha = "ACGT" * 5 + ("N-R" if gaps_ok else "")
        base = draw(st.lists(st.sampled_from("ACGT"), min_size=n, max_size=n))
    rows = {}
    for t in tips:
        row = list(base)
        for i in range(n):
            if draw(st.integers(0, 3)) == 0:
                row[i] = draw(st.sampled_from(alpha))
        rows[t] = "".join(row)
    return rows


def mprobs_st():
    return st.lists(st.floats(0.05, 1.0), min_size=4, max_size=4).map(lambda v: [x / sum(v) for x in v])


@st.composite
def param_step(draw, model, edges):
    pars = RATE_PARAMS[model]
    choices = ["length"] * 2 + (pars or []) * 2
    if model == "HKY85+G":
        choices.append("rate_shape")
    if model == "GS":
        choices = ["length", "GSPAR"]
    par = draw(st.sampled_from(choices))
    value = round(draw(st.floats(0.05, 4.0)), 4)
    if par == "GSPAR":
        value = round(draw(st.floats(0.9, 1.1)), 4)  # GeneralStationary rejects many combinations as infeasible
    const = draw(st.booleans())
    step = {"op": "set_param", "par": par, "scope": None, "value": value, "const": const, "indep": None}
    if not const and par != "GSPAR" and draw(st.integers(0, 3)) == 0:
        # every lower offered is below every upper offered, so bounds never cross by accident;
        # an init outside them is moved to the nearer bound
        step["lower"] = draw(st.sampled_from([None, 0.01, 0.2]))
        step["upper"] = draw(st.sampled_from([None, 3.0, 8.0]))
    if model == "HKY85+G" and par == "kappa":
        # with rate bins an "independent" kappa would also differ between bins; keep it global
        return step
    if par == "rate_shape":
        return step
    scope_kind = draw(st.sampled_from(["global", "edge", "edges", "edges"]))
    if scope_kind == "global":
        scope = None
    elif scope_kind == "edge":
        scope = [draw(st.sampled_from(edges))]
    else:
        k = draw(st.integers(2, len(edges)))
        scope = sorted(draw(st.permutations(edges))[:k])
    indep = draw(st.sampled_from([None, True, False])) if scope is None or len(scope) > 1 else None
    if par == "length":
        value = round(draw(st.floats(0.001, 2.0)), 4)
        if not const and draw(st.integers(0, 11)) == 0:
            value = 12.0  # beyond the upper bound of a length: moved to the bound
    step.update(scope=scope, value=value, indep=indep, idx=draw(st.integers(0, 50)))
    return step


@st.composite
def bad_step(draw, model, edges, rule_only=False):
    kinds = [k for k in BAD_KINDS if not (rule_only and k == "mprobs-sum")]
    pars = ["length"] + (RATE_PARAMS[model] or [])
    es = draw(st.permutations(edges))
    return {
        "op": "bad",
        "kind": draw(st.sampled_from(kinds)),
        "par": draw(st.sampled_from(pars)),
        "edge": es[0],
        "edge2": es[1],
        "value": round(draw(st.floats(0.05, 2.0)), 4),
    }


@st.composite
def lf_cases(draw):
    model = draw(st.sampled_from(MODELS + ["HKY85", "GTR", "TN93", "GN"]))  # the codon model costs ~10x the others: 1 case in 12
    newick, tips, edges = draw(st.sampled_from(TREES[:2] + TREES[3:] if model == "MG94HKY" else TREES))
    gaps_ok = model != "GS"
    codon = model == "MG94HKY"
    aln = draw(aln_st(tips, gaps_ok, codon))
    steps = []
    top = ["param"] * 6 + ["mprobs", "alignment", "postponed", "postponed", "optimise", "rules", "bad", "bad"]
    if model in TIME_HET_MODELS:
        top.append("time_het")
    if SISTERS[newick]:
        top.append("local_clock")
    for _ in range(draw(st.integers(1, 10))):
        kind = draw(st.sampled_from(top))
        if kind == "param" and model == "HKY85+G" and draw(st.integers(0, 5)) == 0:
            # the bin probabilities are parameters too (kept well inside the bounds the optimiser puts on them)
            w = draw(st.lists(st.sampled_from([0.02, 0.05, 0.3, 1.0]), min_size=3, max_size=3))
            steps.append({"op": "set_bprobs", "probs": [x / sum(w) for x in w]})
        elif kind == "param":
            steps.append(draw(param_step(model, edges)))
        elif kind == "mprobs":
            steps.append({"op": "set_mprobs", "probs": draw(mprobs_st())})
        elif kind == "alignment":
            steps.append({"op": "set_alignment", "rows": draw(aln_st(tips, gaps_ok, codon))})
        elif kind == "postponed":
            via = draw(st.sampled_from(["block", "block", "apply_rules"]))
            inner = []
            for _ in range(draw(st.integers(2, 4))):
                k2 = "param" if via == "apply_rules" else draw(st.sampled_from(["param"] * 6 + ["mprobs", "mprobs", "alignment"]))
                if k2 == "param":
                    inner.append(draw(param_step(model, edges)))
                elif k2 == "mprobs":
                    inner.append({"op": "set_mprobs", "probs": draw(mprobs_st())})
                else:
                    inner.append({"op": "set_alignment", "rows": draw(aln_st(tips, gaps_ok, codon))})
            if draw(st.integers(0, 2)) == 0:
                inner.insert(draw(st.integers(0, len(inner))), draw(bad_step(model, edges, rule_only=via == "apply_rules")))
            steps.append({"op": "postponed", "steps": inner, "via": via})
        elif kind == "bad":
            bad = draw(bad_step(model, edges))
            steps.append(bad)
            if draw(st.booleans()) and not (model == "HKY85+G" and bad["par"] == "kappa"):
                # a rejected rule followed by an accepted one for the same parameter elsewhere: the
                # parameter is re-evaluated, so anything the rejected rule left behind becomes visible
                steps.append({"op": "set_param", "par": bad["par"], "scope": [bad["edge2"]], "value": round(draw(st.floats(0.05, 2.0)), 4), "const": draw(st.booleans()), "indep": None, "idx": 0})
        elif kind == "time_het":
            sets_kind = draw(st.sampled_from(["each", "one", "two"]))
            perm = draw(st.permutations(edges))
            if sets_kind == "each":
                edge_sets = None
            elif sets_kind == "one":
                edge_sets = [sorted(perm[: draw(st.integers(1, len(edges)))])]
            else:
                k = draw(st.integers(1, len(edges) - 1))
                edge_sets = [sorted(perm[:k]), sorted(perm[k:])]
            const = draw(st.booleans())
            th = {"op": "time_het", "edge_sets": edge_sets, "value": round(draw(st.floats(0.05, 4.0)), 4), "const": const, "indep": None if const else draw(st.sampled_from([None, True, False]))}
            if not const and draw(st.integers(0, 3)) == 0:
                th["lower"] = draw(st.sampled_from([None, 0.01, 0.2]))
                th["upper"] = draw(st.sampled_from([None, 3.0, 8.0]))
            steps.append(th)
        elif kind == "local_clock":
            steps.append({"op": "local_clock", "tips": draw(st.sampled_from(SISTERS[newick]))})
        elif kind == "optimise":
            steps.append({"op": "optimise", "max_evals": draw(st.integers(1, 20))})
        else:
            steps.append({"op": "rules"})
    case = {"model": model, "tree": newick, "edges": edges, "aln": aln, "steps": steps}
    if model == "HKY85+G" and not any(st_["op"] == "set_bprobs" for st_ in steps) and draw(st.booleans()):
        case["bins"] = 4
    if model != "GS" and draw(st.integers(0, 3)) == 0:
        case["opt_mprobs"] = True
    return case


# ---------------------------------------------------------------- helpers
_MODEL_CACHE = {}


def make_model(name):
    from cogent3 import DNA, get_model

    if name == "HKY85+G":
        return get_model("HKY85", ordered_param="rate", distribution="gamma"), {"bins": 3}
    if name == "GS":
        from cogent3.evolve.ns_substitution_model import GeneralStationary

        return GeneralStationary(DNA.alphabet), {}
    if name == "MG94HKY":
        # building the codon model costs ~1 s; the model object holds no per-function state, so one is shared
        if name not in _MODEL_CACHE:
            _MODEL_CACHE[name] = get_model(name)
        return _MODEL_CACHE[name], {}
    return get_model(name), {}


def build_lf(case, rows, exp=None):
    """a new function on the case's tree and the given alignment; with a record `exp`, the tree handed to
    the constructor carries the recorded lengths and rate parameters ('Lengths are set to the values found
    in the tree ... Other parameters are scoped based on the unique values found in the tree')"""
    from cogent3 import make_aligned_seqs, make_tree

    sm, kw = make_model(case["model"])
    if "bins" in kw and case.get("bins"):
        kw["bins"] = case["bins"]
    if case.get("opt_mprobs"):
        kw["optimise_motif_probs"] = True
    tree = make_tree(case["tree"])
    if exp is not None:
        for e in exp.edges:
            node = tree.get_node_matching_name(e)
            for par in exp.pars:
                if par == "length":
                    node.length = exp.val[(par, e)]
                elif par != "rate_shape":
                    node.params[par] = exp.val[(par, e)]
    lf = sm.make_likelihood_function(tree, **kw)
    lf.set_alignment(make_aligned_seqs(dict(rows), moltype="dna"))
    return lf


def scoped_params(lf):
    return [p for p in lf.get_param_names() if p not in ("mprobs", "bprobs", "rate")]


def reported_mprobs(lf):
    mp = lf.get_motif_probs()
    d = mp.to_dict() if hasattr(mp, "to_dict") else dict(mp)
    return [float(d[b]) for b in "ACGT"]


class Expect:
    """the harness record of the intended settings, advanced from the step encodings alone"""

    def __init__(self, case, pars):
        self.edges = list(case["edges"])
        self.pars = list(pars)  # scoped parameters incl. length and rate_shape
        self.val = {}
        self.bnd = {}  # (lower, upper) of a free setting, None for a constant
        for par in self.pars:
            for k in self.keys(par):
                self.val[k] = TREE_LENGTHS[case["tree"]][k[1]] if par == "length" else 1.0
                self.bnd[k] = default_bounds(par)
        self.mprobs = None  # ACGT order, once a step has set them
        self.mprobs_auto = True  # the function re-derives them from every new alignment until set_motif_probs is called
        self.track_mprobs = True
        self.bprobs = None

    def keys(self, par):
        return [(par, None)] if par == "rate_shape" else [(par, e) for e in self.edges]

    def set_rule(self, par, scope, value, const, indep, lower=None, upper=None):
        """model of _LeafDefn.assign_all; False when the rule must be rejected (bounds crossed), nothing assigned"""
        if par == "rate_shape":
            groups = [[(par, None)]]
        else:
            sc = list(scope) if scope else list(self.edges)
            independent = (par == "length") if indep is None else bool(indep)  # LengthDefn.independent_by_default
            groups = [[(par, e)] for e in sc] if independent else [[(par, e) for e in sc]]
        new = []
        for g in groups:
            v = sum(self.val[k] for k in g) / len(g) if value is None else value
            if const:
                new.append((g, v, None))
                continue
            cur = [self.bnd[k] for k in g if self.bnd[k] is not None and self.bnd[k][0] != self.bnd[k][1]]
            lo, hi = (min(b[0] for b in cur), max(b[1] for b in cur)) if cur else default_bounds(par)
            if lower is not None:
                lo = lower
            if upper is not None:
                hi = upper
            if lo > hi:
                return False
            new.append((g, min(max(v, lo), hi), (lo, hi)))
        for g, v, b in new:
            for k in g:
                self.val[k] = v
                self.bnd[k] = b
        return True

    def resync(self, lf, s, mprobs=False, bprobs=False):
        """re-read the values where no step determines them (after optimise / a GeneralStationary rejection)"""
        for k in self.val:
            ok, v = s.call("get_param_value", _reported, lf, k)
            if ok:
                self.val[k] = v
        if self.mprobs is not None or mprobs:
            ok, v = s.call("get_motif_probs", reported_mprobs, lf)
            self.mprobs = v if ok else None
        if self.bprobs is not None or bprobs:
            ok, v = s.call("get_param_value", lambda: [float(x) for x in lf.get_param_value("bprobs")])
            self.bprobs = v if ok else None


def _reported(lf, key):
    par, e = key
    return float(lf.get_param_value(par)) if e is None else float(lf.get_param_value(par, edge=e))


def fresh_lnl(case, rows, exp, lf):
    """lnL of a newly built function holding the recorded values"""
    gs = case["model"] == "GS"
    # GeneralStationary: the constructor would evaluate the recorded rates with default motif probabilities,
    # a combination that may be infeasible although the recorded one is not; there the values are set as
    # constants inside one updates_postponed block so that only the final combination is evaluated
    f = build_lf(case, rows, None if gs else exp)

    def fill():
        mp = exp.mprobs if exp.mprobs is not None else reported_mprobs(lf)
        f.set_motif_probs(dict(zip("ACGT", mp)), is_constant=True)
        if "bprobs" in lf.get_param_names():
            # the bin probabilities of a rate-heterogeneity model are free parameters too
            bp = exp.bprobs if exp.bprobs is not None else lf.get_param_value("bprobs")
            f.set_param_rule("bprobs", value=numpy.array(bp, dtype=float), is_constant=True)
        for par in exp.pars:
            if par == "rate_shape":
                f.set_param_rule(par, value=exp.val[(par, None)], is_constant=True)
                continue
            byval = {}
            for e in exp.edges:
                v = exp.val[(par, e)]
                if gs or (par == "length" and not v):  # the constructor replaces a zero length by its default
                    byval.setdefault(v, []).append(e)
            for v, es in byval.items():
                if len(es) == len(exp.edges):
                    f.set_param_rule(par, value=v, is_constant=True)
                elif len(es) == 1:
                    f.set_param_rule(par, edge=es[0], value=v, is_constant=True)
                else:
                    f.set_param_rule(par, edges=es, value=v, is_constant=True)

    if gs:
        with f.updates_postponed():
            fill()
    else:
        fill()
    return f.lnL


def _prob_floor_tag(lf):
    """names the circumstance in which exported rules are documented to differ from the state:
    Setting.get_param_rule_dict lifts every exported probability vector above 1e-6"""
    for par in ("bprobs", "mprobs"):
        if par in lf.get_param_names():
            try:
                v = numpy.asarray(lf.get_param_value(par), dtype=float)
            except Exception:  # noqa: BLE001
                continue
            if v.size and float(v.min()) <= 1e-6:
                return "[probability-below-1e-6]"
    return ""


def resolve_par(st_, gs_pars):
    par = st_["par"]
    if par == "GSPAR":
        par = gs_pars[st_.get("idx", 0) % len(gs_pars)]
    return par


def rule_of(st_, gs_pars):
    """the keyword arguments of set_param_rule for a set_param step"""
    kw = {"par_name": resolve_par(st_, gs_pars)}
    if st_["scope"] is not None:
        if len(st_["scope"]) == 1:
            kw["edge"] = st_["scope"][0]
        else:
            kw["edges"] = list(st_["scope"])
    if st_["indep"] is not None:
        kw["is_independent"] = st_["indep"]
    if st_["const"]:
        kw.update(value=st_["value"], is_constant=True)
    else:
        kw.update(init=st_["value"])
        for b in ("lower", "upper"):
            if st_.get(b) is not None:
                kw[b] = st_[b]
    return kw


def bad_rule_of(st_):
    kind, par, e, v = st_["kind"], st_["par"], st_["edge"], st_["value"]
    if kind == "unknown-edge":
        return dict(par_name=par, edge="nosuch", init=v)
    if kind == "unknown-edge-in-list":
        return dict(par_name=par, edges=[e, "nosuch"], init=v)
    if kind == "edge-and-edges":
        return dict(par_name=par, edge=e, edges=[e, st_["edge2"]], init=v)
    if kind == "crossed-bounds":
        return dict(par_name=par, edge=e, init=v, lower=5.0, upper=1.0)
    if kind == "unknown-par":
        return dict(par_name="nosuchpar", init=v)
    if kind == "derived-par":
        return dict(par_name="psubs", init=v)
    if kind == "unknown-dimension":
        return dict(par_name="length", bin="bin0", init=v)
    raise ValueError(kind)


def bad_exceptions(kind):
    from cogent3.core.tree import TreeError
    from cogent3.recalculation.scope import InvalidDimensionError, InvalidScopeError

    return {
        "unknown-edge": (InvalidScopeError,),
        "unknown-edge-in-list": (InvalidScopeError,),
        "edge-and-edges": (TreeError,),
        "crossed-bounds": (ValueError,),
        "unknown-par": (KeyError,),
        "derived-par": (ValueError,),
        "unknown-dimension": (InvalidDimensionError,),
        "mprobs-sum": (ValueError,),
    }[kind]


def run_bad(lf, st_):
    if st_["kind"] == "mprobs-sum":
        lf.set_motif_probs({"A": 0.5, "C": 0.5, "G": 0.5, "T": 0.5})
    else:
        lf.set_param_rule(**bad_rule_of(st_))


def apply_param(lf, st_, gs_pars):
    kw = rule_of(st_, gs_pars)
    lf.set_param_rule(**kw)
    return kw["par_name"]


def _infeasible():  # see GS_OK below
    """GeneralStationary documents ParameterOutOfBoundsError for rate combinations without a valid stationary solution"""
    from cogent3.maths.optimisers import ParameterOutOfBoundsError

    return (ParameterOutOfBoundsError,)


class _GSOK(dict):
    """GeneralStationary may reject a rate combination (ParameterOutOfBoundsError) at whichever call
    first evaluates it: set_param_rule, set_motif_probs, set_alignment, lnL, optimise, make_calculator"""

    def get(self, model, default=()):
        return _infeasible() if model == "GS" else default


GS_OK = _GSOK()


def close(a, b, rtol=1e-9):
    if a is None or b is None:
        return False
    if math.isnan(a) or math.isnan(b):
        # vectors beyond the bounds have no likelihood: nan from both the incremental
        # and the fresh calculator is agreement, nan from one of them is not
        return math.isnan(a) and math.isnan(b)
    if math.isinf(a) or math.isinf(b):
        return a == b
    return abs(a - b) <= rtol * max(1.0, abs(a), abs(b))


# ------------------------------------------------------------ lf histories
def exec_lf(case) -> Soft:
    from cogent3 import make_aligned_seqs

    s = Soft("C07/")
    model = case["model"]
    gs_ok = GS_OK.get(model, ())
    state = {"rows": dict(case["aln"]), "poisoned": False, "unsettled": False}
    ok, lf = s.call("construct", build_lf, case, state["rows"], allowed=gs_ok)
    if not ok:
        return s
    gs_pars = [p for p in scoped_params(lf) if p != "length"] if model == "GS" else []
    exp = Expect(case, scoped_params(lf))
    s.cls("model:" + model)
    if case.get("opt_mprobs"):
        s.cls("optimise_motif_probs")
    n_steps = 0
    change_after_block = False
    seen_block = False

    def verify(tag, what, values=True):
        """reported values == record for every parameter and edge; lnL == fresh function built from the record"""
        poisoned = state["poisoned"]
        if values:
            for k in exp.val:
                okv, v = s.call("get_param_value", _reported, lf, k)
                if okv and not close(v, exp.val[k], 1e-12):
                    s.fail(POISON_SIG if poisoned else tag + "/reported-vs-intended", f"{k[0]} on edge {k[1]} reported as {v!r}, intended {exp.val[k]!r} -- {what}")
                    # one report per divergence: continue from what the function reports, so that the lnL
                    # comparison below and the later steps look for further, independent disagreements
                    exp.resync(lf, s)
                    break
            if exp.mprobs is not None:
                okv, v = s.call("get_motif_probs", reported_mprobs, lf)
                if okv and not all(close(a_, b_, 1e-9) for a_, b_ in zip(v, exp.mprobs)):
                    s.fail(POISON_SIG if poisoned else tag + "/reported-vs-intended", f"motif probs reported {v}, intended {exp.mprobs} -- {what}")
                    exp.resync(lf, s)
            if exp.bprobs is not None:
                okv, v = s.call("get_param_value", lambda: [float(x) for x in lf.get_param_value("bprobs")])
                if okv and not all(close(a_, b_, 1e-9) for a_, b_ in zip(v, exp.bprobs)):
                    s.fail(POISON_SIG if poisoned else tag + "/reported-vs-intended", f"bprobs reported {v}, intended {exp.bprobs} -- {what}")
                    exp.resync(lf, s)
        ok, got = s.call(tag + "/lnL", lambda: float(lf.lnL), allowed=gs_ok)
        if not ok:
            return
        ok, want = s.call(tag + "/fresh", fresh_lnl, case, state["rows"], exp, lf, allowed=gs_ok)
        if not ok:
            return
        if not close(got, want):
            s.fail(POISON_SIG if poisoned else tag + "/lnL-vs-fresh", f"incremental lnL {got!r} != fresh function {want!r} (diff {got - want:.3e}) -- {what}")

    def rejected(tag, mprobs_unknown=False):
        """a GeneralStationary rejection: the change is assigned, the recalculation failed; what is reported
        until the next accepted change is not specified (the record keeps the assigned values)"""
        s.cls("infeasible-value-rejected")
        state["unsettled"] = True
        if mprobs_unknown:
            # a rejected set_motif_probs may or may not have switched off the re-derivation of the
            # motif probabilities from later alignments: stop recording them, read them instead
            exp.mprobs, exp.track_mprobs = None, False

    def record(st_):
        """advance the record by one accepted inner / top-level change; False if it must be rejected"""
        op = st_["op"]
        if op == "set_param":
            return exp.set_rule(resolve_par(st_, gs_pars), st_["scope"], st_["value"], st_["const"], st_["indep"], st_.get("lower"), st_.get("upper"))
        if op == "set_mprobs":
            exp.mprobs_auto = False
            if exp.track_mprobs:
                exp.mprobs = list(st_["probs"])
        elif op == "set_alignment":
            state["rows"] = dict(st_["rows"])
            if exp.mprobs_auto:
                exp.mprobs = None  # derived from the new alignment
        return True

    def run(st_):
        op = st_["op"]
        if op == "set_param":
            apply_param(lf, st_, gs_pars)
        elif op == "set_mprobs":
            lf.set_motif_probs(dict(zip("ACGT", st_["probs"])))
        elif op == "set_alignment":
            lf.set_alignment(make_aligned_seqs(dict(st_["rows"]), moltype="dna"))
        elif op == "bad":
            run_bad(lf, st_)
        else:
            raise ValueError(op)

    verify("initial", "after construction")
    for i, st_ in enumerate(case["steps"]):
        op = st_["op"]
        what = f"model {model} tree {case['tree']} step {i} {st_} after {case['steps'][:i]}"
        if op in ("set_param", "set_mprobs", "set_alignment"):
            tag = {"set_param": "set_param_rule", "set_mprobs": "set_motif_probs", "set_alignment": "set_alignment"}[op]
            ok, _ = s.call(tag, run, st_, allowed=_infeasible() if op == "set_param" else gs_ok)
            if not record(st_):
                raise HarnessError(f"generated rule has crossed bounds: {what}")
            if not ok:
                rejected(tag, mprobs_unknown=op == "set_mprobs")
            else:
                state["unsettled"] = False
                if op == "set_param" and any(st_.get(b) is not None for b in ("lower", "upper")):
                    s.cls("rule-with-bounds")
                if seen_block and op == "set_param":
                    change_after_block = True
                verify(tag, what)
        elif op == "set_bprobs":
            ok, _ = s.call("set_bprobs", lambda: lf.set_param_rule("bprobs", init=numpy.array(st_["probs"], dtype=float)))
            if ok:
                exp.bprobs = list(st_["probs"])
                verify("set_param_rule", what)
        elif op == "bad":
            ok, _ = s.call("bad-rule", run_bad, lf, st_, allowed=bad_exceptions(st_["kind"]))
            if ok:
                s.fail(f"bad-rule/accepted[{st_['kind']}]", f"{what}: no exception")
                return s  # the state after an accepted invalid rule is unknown
            s.cls("bad-rule:" + st_["kind"])
            seen_block = True
            # nothing may have changed
            if not state["unsettled"]:
                verify("bad-rule", what)
        elif op == "postponed":
            inner = st_["steps"]
            via = st_.get("via", "block")
            bad_at = next((j for j, x in enumerate(inner) if x["op"] == "bad"), None)
            applied = inner if bad_at is None else inner[:bad_at]

            def block():
                if via == "apply_rules":
                    lf.apply_param_rules([bad_rule_of(x) if x["op"] == "bad" else rule_of(x, gs_pars) for x in inner])
                else:
                    with lf.updates_postponed():
                        for x in inner:
                            run(x)

            allowed = _infeasible() + (bad_exceptions(inner[bad_at]["kind"]) if bad_at is not None else ())
            ok, exc = s.call("updates_postponed", block, allowed=allowed)
            for x in applied:
                record(x)
            seen_block = True
            tag = "apply_param_rules" if via == "apply_rules" else "updates_postponed"
            if ok and bad_at is not None:
                s.fail(f"bad-rule/accepted[{inner[bad_at]['kind']}]", f"{what}: no exception")
                return s
            if bad_at is not None:
                # from here on every disagreement has one cause on the unchanged tree: the block was
                # left through the exception with the calculation still switched off
                state["poisoned"] = True
                s.cls("error-inside-" + tag, "bad-rule:" + inner[bad_at]["kind"])
            if not ok and isinstance(exc, _infeasible()):
                rejected(tag)
            else:
                state["unsettled"] = False
                verify(tag, what)
        elif op == "time_het":
            sets = st_["edge_sets"]
            kw = {"is_constant": st_["const"]}
            if sets is not None:
                kw["edge_sets"] = [dict(edges=list(es)) for es in sets]
            if st_["const"]:
                kw["value"] = st_["value"]
            else:
                kw["init"] = st_["value"]
                if st_["indep"] is not None:
                    kw["is_independent"] = st_["indep"]
                for b in ("lower", "upper"):
                    if st_.get(b) is not None:
                        kw[b] = st_[b]
            ok, _ = s.call("set_time_heterogeneity", lambda: lf.set_time_heterogeneity(**kw))
            if not ok:
                return s
            for es in sets if sets is not None else [[e] for e in exp.edges]:
                for par in RATE_PARAMS[model]:
                    exp.set_rule(par, list(es), st_["value"], st_["const"], st_["indep"], st_.get("lower"), st_.get("upper"))
            seen_block = True
            s.cls("time-heterogeneity")
            verify("set_time_heterogeneity", what)
        elif op == "local_clock":
            ok, _ = s.call("set_local_clock", lambda: lf.set_local_clock(*st_["tips"]), allowed=gs_ok)
            exp.set_rule("length", list(st_["tips"]), None, False, False)
            if not ok:
                rejected("set_local_clock")
            else:
                state["unsettled"] = False
                s.cls("local-clock")
                verify("set_local_clock", what)
        elif op == "optimise":
            ok, _ = s.call("optimise", lambda: lf.optimise(local=True, max_evaluations=st_["max_evals"], limit_action="ignore", show_progress=False), allowed=gs_ok)
            if not ok:
                return s  # GeneralStationary: where the optimiser stopped is unknown
            else:
                state["unsettled"] = False
                # the optimiser chooses the values: re-read them, then the reported lnL must be theirs
                exp.resync(lf, s, mprobs=bool(case.get("opt_mprobs")) and exp.track_mprobs, bprobs="bprobs" in lf.get_param_names())
                verify("optimise", what, values=False)
                s.cls("optimise")
        elif op == "rules":
            ok, rules = s.call("get_param_rules", lf.get_param_rules)
            if not ok:
                return s

            def rebuild():
                f = build_lf(case, state["rows"])
                f.apply_param_rules(rules)
                return f

            ok, f2 = s.call("apply_param_rules", rebuild, allowed=gs_ok)
            if ok and not state["unsettled"]:
                okl, l2 = s.call("apply_param_rules/lnL", lambda: float(f2.lnL), allowed=gs_ok)
                okl2, l1 = s.call("rules/lnL", lambda: float(lf.lnL), allowed=gs_ok)
                if okl and okl2 and not close(l1, l2):
                    s.fail(POISON_SIG if state["poisoned"] else "rules-roundtrip/lnL" + _prob_floor_tag(lf), f"{what}: lnL {l1!r} after export/import {l2!r}")
                okn, nfp = s.call("rules/nfp", lambda: (lf.get_num_free_params(), f2.get_num_free_params()))
                if okn:
                    s.eq(nfp[1], nfp[0], "rules-roundtrip/num-free-params", what)
            s.cls("rules-roundtrip")
        n_steps += 1
    s.nontrivial = n_steps >= 4 and change_after_block
    return s


# -------------------------------------------------------------- calculator
@st.composite
def calc_cases(draw):
    model = draw(st.sampled_from(["HKY85", "GTR", "TN93", "GN", "GS", "HKY85+G"] * 2 + ["MG94HKY"]))
    newick, tips, edges = draw(st.sampled_from(TREES[:2] + TREES[3:] if model == "MG94HKY" else TREES))
    aln = draw(aln_st(tips, model != "GS", model == "MG94HKY"))
    setup = []
    for _ in range(draw(st.integers(0, 3))):
        setup.append(draw(param_step(model, edges)))
    moves = []
    for _ in range(draw(st.integers(2, 12))):
        kind = draw(st.sampled_from(["some", "some", "some", "one", "revert", "revert", "revert+some", "revert+some", "revert-part", "repeat", "all", "edge", "change"]))
        mv = {"kind": kind}
        if kind in ("revert+some", "revert-part"):
            mv["via_change"] = draw(st.booleans())
        if kind in ("some", "one", "all", "edge", "change", "revert+some", "revert-part"):
            mv["picks"] = draw(st.lists(st.integers(0, 40), min_size=1, max_size=1 if kind == "one" else 4))
            mv["fracs"] = draw(st.lists(st.floats(0.0, 1.0), min_size=len(mv["picks"]), max_size=len(mv["picks"])))
            mv["beyond"] = draw(st.integers(0, 9)) == 0
        moves.append(mv)
    return {"model": model, "tree": newick, "edges": edges, "aln": aln, "setup": setup, "moves": moves}


def exec_calc(case) -> Soft:
    s = Soft("C07/calc/")
    rows = dict(case["aln"])
    ok, lf = s.call("construct", build_lf, case, rows, allowed=GS_OK.get(case["model"], ()))
    if not ok:
        return s
    gs_pars = [p for p in scoped_params(lf) if p != "length"] if case["model"] == "GS" else []
    for st_ in case["setup"]:
        ok, _ = s.call("setup", apply_param, lf, st_, gs_pars, allowed=GS_OK.get(case["model"], ()))
        if not ok:
            return s
    ok, calc = s.call("make_calculator", lf.make_calculator, allowed=GS_OK.get(case["model"], ()))
    if not ok:
        return s
    ok, x0 = s.call("get_value_array", lambda: [float(v) for v in calc.get_value_array()])
    if not ok or not x0:
        return s
    lo, hi = calc.get_bounds_vectors()
    lo, hi = [float(v) for v in lo], [float(v) for v in hi]
    n = len(x0)
    s.cls("model:" + case["model"], f"npar={min(n, 12)}")
    cur = list(x0)
    prev = list(x0)
    history = []
    reverted = False
    revert_plus = False
    after_raise = False
    pending_full = False

    def target(i, frac, beyond):
        # a value inside a sane part of the optimiser's range for coordinate i
        a, b = max(lo[i], -3.0), min(hi[i], 3.0)
        if lo[i] >= 0:  # untransformed, e.g. lengths in [0, 10]
            a, b = max(lo[i], 1e-4), min(hi[i], 2.5)
        v = a + frac * (b - a)
        if beyond:
            # (not beyond an upper bound like rate_shape's default 1e10: the incomplete gamma series takes a minute there)
            v = hi[i] + 0.5 if frac > 0.5 and hi[i] < 1e6 else lo[i] - 0.5
        return v

    for k, mv in enumerate(case["moves"]):
        kind = mv["kind"]
        new = list(cur)
        use_change = False
        if kind == "revert":
            new = list(prev)
            reverted = True
        elif kind == "revert+some":
            # what a line search emits: the previous step is taken back AND other coordinates move, so
            # Calculator.change undoes the last step through the buffer switch and then applies the rest
            new = list(prev)
            others = [i for i in range(n) if cur[i] == prev[i]]
            if others:
                idxs = sorted({others[p % len(others)] for p in mv["picks"]})
                for i, f in zip(idxs, (mv["fracs"] * n)[: len(idxs)]):
                    new[i] = target(i, f, mv["beyond"] and i == idxs[0])
                if any(cur[i] != prev[i] for i in range(n)) and any(new[i] != prev[i] for i in idxs):
                    revert_plus = True
            reverted = True
            use_change = bool(mv.get("via_change")) and not pending_full
        elif kind == "revert-part":
            # only SOME of the coordinates changed by the previous step go back: the one-deep undo must not be taken
            changed = [i for i in range(n) if cur[i] != prev[i]]
            back = sorted({changed[p % len(changed)] for p in mv["picks"]}) if changed else []
            if len(back) == len(changed):
                back = back[:-1]
            for i in back:
                new[i] = prev[i]
            if back:
                s.cls("revert-part")
            reverted = True
            use_change = bool(mv.get("via_change")) and not pending_full
        elif kind == "repeat":
            pass
        else:
            idxs = sorted({p % n for p in mv["picks"]})
            if kind == "all":
                idxs = list(range(n))
            fr = (mv["fracs"] * n)[: len(idxs)]
            for i, f in zip(idxs, fr):
                new[i] = target(i, f, mv["beyond"] and i == idxs[0])
            # after a rejected vector the caller cannot know which vector the calculator is
            # at (change() may have undone the previous step before it failed), so the next
            # evaluation passes the whole vector, as the optimisers do
            use_change = kind == "change" and not pending_full
        what = f"model {case['model']} tree {case['tree']} setup {case['setup']} moves {history + [mv]} vector {new}"
        history.append(mv)
        try:
            if use_change:
                changes = [(i, new[i]) for i in range(n) if new[i] != cur[i]]
                got = float(calc.change(changes)) if changes else float(calc.testfunction())
            else:
                got = float(calc(new))
            raised = None
        except Exception as e:  # noqa: BLE001
            from vlib.core import raised_in_repo

            if not raised_in_repo(e):
                raise
            raised = e
        # the oracle: a newly made calculator without history
        try:
            want = float(lf.make_calculator(with_undo=False)(new))
            want_raised = None
        except Exception as e:  # noqa: BLE001
            want_raised = e
        if raised is not None or want_raised is not None:
            s.cls("evaluation-raised")
            if (raised is None) != (want_raised is None):
                s.fail("raise-mismatch", f"{what}: incremental {'raised ' + repr(raised) if raised else 'returned'}; fresh {'raised ' + repr(want_raised) if want_raised else 'returned'}")
            after_raise = True
            pending_full = True
            # the vector is rejected: the calculator must be left in a coherent state, i.e. the
            # value it reports is the value of the vector it records as current (change() restores
            # last_values; which accepted vector that is, is not specified: an undo of the previous
            # step may already have happened)
            okc, back = s.call("testfunction-after-raise", lambda: float(calc.testfunction()))
            if okc and raised is not None:
                at = [float(v) for v in calc.last_values]
                try:
                    ref = float(lf.make_calculator(with_undo=False)(at))
                except Exception:  # noqa: BLE001
                    ref = None
                if ref is not None and not close(back, ref):
                    s.fail("rollback/value", f"{what}: after the rejected vector the calculator reports {back!r} for its recorded vector {at}, a fresh calculator there gives {ref!r}")
            continue
        pending_full = False
        if not close(got, want):
            sig = "value-vs-fresh"
            if after_raise:
                sig += "[after-rejected-vector]"
            elif kind == "revert":
                sig += "[revert]"
            elif kind in ("revert+some", "revert-part"):
                sig += f"[{kind}]"
            s.fail(sig, f"{what}: incremental {got!r} != fresh calculator {want!r} (diff {got - want:.3e})")
        okc, tf = s.call("testfunction", lambda: float(calc.testfunction()))
        if okc and not close(tf, got):
            s.fail("testfunction", f"{what}: testfunction {tf!r} != value just returned {got!r}")
        prev, cur = cur, new
    if revert_plus:
        s.cls("revert+some")
    s.nontrivial = len(case["moves"]) >= 4 and reverted
    return s


SUBS = [
    Sub("lf_history", exec_lf, strategy=lf_cases(), quick=240, thorough=24_000, shards_quick=16),
    Sub("calculator", exec_calc, strategy=calc_cases(), quick=360, thorough=36_000, shards_quick=16),
]

KNOWN_PREDICATES = {}

META = {
    "technique": "Hypothesis-generated histories of likelihood-function edits (accepted and rejected) and calculator change vectors, each step compared with a history-free rebuild (fresh function holding the harness's own record of the intended settings as constants / fresh calculator without undo)",
    "level_text": "Hundreds of generated histories per run over eight model families (incl. non-stationary, gamma-binned, GeneralStationary and a codon model, with constant or optimisable motif probabilities) exercise scoped and shared parameter rules with and without bounds, motif probabilities, alignment replacement, time-heterogeneity and local-clock helpers, postponed update blocks and apply_param_rules batches, changes the library must reject (alone and in the middle of a block, after which the history continues), short optimiser runs, rule export/import and calculator change sequences with reverts, reverts combined with other changes, repeats and rejected vectors; after every step every reported parameter value must equal the harness's record of what was set and the incrementally maintained log-likelihood must equal that of an object built from scratch with the recorded settings (1e-9 relative).",
    "level_note": "Both sides are computed by cogent3 (the oracle is history-freeness, the absolute value is C02's subject). Bins beyond the gamma model's shape parameter, multi-locus functions and clade / stem / outgroup scopes are not driven; the state between a GeneralStationary rejection and the next accepted change is not asserted.",
    "design_ref": "DESIGN.md section 1, C07",
}
