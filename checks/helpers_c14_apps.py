"""Harness-defined composable apps for the C14 check (checks/c14_apps.py).

They live in an importable module (not in the check module itself and not named
``c14_*`` because the runner resolves a check by the glob ``checks/c14_*.py``)
so that loky worker processes can unpickle them by reference.

Every step app decides what to do with a record by looking the record's *key*
up in the outcome table it was constructed with.  The key is read from the
CONTENT of the value (a sequence named ``k_<key>``, a dict entry, a table
cell), never from its ``source``: the value therefore tells which input it was
computed from independently of the bookkeeping under test.

The last step may also return a value of a type every writer accepts that no
writer can serialise (see "unwritable values" below).

NOTE: no ``from __future__ import annotations`` here, define_app rejects
string type hints.
"""

import time
from typing import Union

from cogent3 import make_table, make_unaligned_seqs
from cogent3.app.composable import LOADER, NotCompleted, define_app
from cogent3.core.alignment import SequenceCollection as _SequenceCollection
from cogent3.util.table import Table as _Table
from cogent3.app.typing import (
    IdentifierType,
    SerialisableType,
    TabularType,
    UnalignedSeqsType,
)

# in-process call log (key, step index); only meaningful for serial runs and
# for the owned executor, which run the steps inside the master process
CALLS: list = []

WRONG_VALUE = 7  # the "wrong type" a step may return


class C14Rec(dict):
    """a serialisable record; truthiness is part of the value so that a step
    can return a falsy but perfectly valid result"""

    def __bool__(self):
        return not self.get("falsy", False)


class C14Src(C14Rec):
    """same, but exposing ``source`` as an attribute: cogent3 does not wrap
    such inputs in a source_proxy"""

    @property
    def source(self):
        return self["source"]


# ------------------------------------------------------------ unwritable values
# Values of a type every writer accepts (the apps check the CLASS NAME of a value) that no writer can serialise:
# the methods the writers call (to_dict / to_string / to_rich_dict / to_json) raise.  They pickle by reference
# (module attribute of the same name), so they cross process boundaries like any other result.
def _refuse(self, *args, **kwargs):
    raise ValueError(f"unwritable:{self.c14_key()}")


class C14Unw(C14Src):
    """dict family: write_json and write_db call to_rich_dict when a value has one"""

    c14_unwritable = True

    def c14_key(self):
        return self["key"]

    to_rich_dict = to_json = _refuse


class SequenceCollection(_SequenceCollection):
    """seqs family (same class name as the library class, on purpose)"""

    c14_unwritable = True

    def c14_key(self):
        return seqs_key(self)

    to_dict = to_rich_dict = to_json = to_fasta = to_phylip = _refuse


class Table(_Table):
    """tab family (same class name as the library class, on purpose)"""

    c14_unwritable = True

    def c14_key(self):
        return tab_key(self)

    to_string = to_rich_dict = to_json = to_dict = to_list = _refuse


def seqs_unwritable(seqs, idx):
    return SequenceCollection(seqs.named_seqs, moltype=seqs.moltype, info=seqs.info)


def dict_unwritable(rec, idx):
    return C14Unw(dict_ok(rec, idx))


def dict_unjson(rec, idx):
    """a record json cannot encode (it holds a set) but pickle can: fails in write_json only"""
    out = dict_ok(rec, idx)
    out["unw"] = {rec["key"]}
    return out


def tab_unwritable(table, idx):
    return Table(header=[str(h) for h in table.header], data=_Table.to_list(table))


# --------------------------------------------------------------- value families
def seqs_key(seqs):
    return [n for n in seqs.names if n.startswith("k_")][0][2:]


def seqs_ok(seqs, idx):
    data = {n: str(s) for n, s in seqs.to_dict().items()}
    data[f"s{idx}"] = "ACGT" * idx
    return make_unaligned_seqs(data, moltype="dna", info=seqs.info)


def dict_key(rec):
    return rec["key"]


def dict_ok(rec, idx):
    out = type(rec)(rec)
    out["trace"] = list(rec["trace"]) + [idx]
    out["falsy"] = False
    return out


def tab_key(table):
    return str(table.columns["key"][0])


def tab_ok(table, idx):
    header = list(table.header) + [f"s{idx}"]
    rows = [list(r) + [idx * 10 + i] for i, r in enumerate(table.to_list())]
    return make_table(header=header, data=rows)


_FAMILY = {"seqs": (seqs_key, seqs_ok), "dict": (dict_key, dict_ok), "tab": (tab_key, tab_ok)}
_UNWRITABLE = {"seqs": seqs_unwritable, "dict": dict_unwritable, "tab": tab_unwritable}


def _run_step(app, family, idx, data):
    get_key, ok = _FAMILY[family]
    key = get_key(data)
    CALLS.append((key, idx))
    delay = app.delays.get(key, 0)
    if delay:
        time.sleep(delay / 1000.0)
    outcome = app.outcomes.get(key, "ok")
    if outcome == "ok":
        return ok(data, idx)
    if outcome == "falsy":  # only generated for the dict family
        out = ok(data, idx)
        out["falsy"] = True
        return out
    if outcome == "raise":
        raise ValueError(f"boom:{key}:{idx}")
    if outcome == "none":
        return None
    if outcome == "wrong":
        return WRONG_VALUE
    if outcome == "nc":
        return NotCompleted("FAIL", app, f"own:{key}:{idx}", source=data)
    if outcome == "unwritable":  # only generated for the last step
        return _UNWRITABLE[family](data, idx)
    if outcome == "unjson":  # only generated for the last step of the dict family
        return dict_unjson(data, idx)
    raise RuntimeError(f"harness: unknown outcome {outcome!r}")


def _make_step(name, family, idx, in_hint, out_hint):
    def __init__(self, outcomes=None, delays=None):
        self.outcomes = dict(outcomes or {})
        self.delays = dict(delays or {})

    def main(self, data):
        return _run_step(self, family, idx, data)

    main.__annotations__ = {"data": in_hint, "return": out_hint}
    for f in (__init__, main):
        f.__qualname__ = f"{name}.{f.__name__}"
    klass = type(name, (), {"__init__": __init__, "main": main, "__module__": __name__, "__qualname__": name})
    return define_app(klass)


_HINTS = {
    "seqs": (UnalignedSeqsType, Union[UnalignedSeqsType, SerialisableType]),
    "dict": (Union[C14Rec, C14Src, C14Unw], Union[C14Rec, C14Src, C14Unw, SerialisableType]),
    "tab": (TabularType, Union[TabularType, SerialisableType]),
}

STEP_CLASSES = {}
for _family, (_in, _out) in _HINTS.items():
    for _idx in (1, 2, 3):
        _name = f"c14_{_family}_step{_idx}"
        STEP_CLASSES[(_family, _idx)] = globals()[_name] = _make_step(_name, _family, _idx, _in, _out)


@define_app(skip_not_completed=False)
class c14_observer:
    """sees every value, NotCompleted included, and hands it on unchanged"""

    def __init__(self):
        pass

    def main(self, data: Union[SerialisableType, TabularType]) -> SerialisableType:
        CALLS.append(("<observer>", 0))
        return data


@define_app(app_type=LOADER)
class c14_load_rec:
    """harness loader for the dict family: reads ``key|source`` from a text
    file (a data member or a path)"""

    def __init__(self):
        pass

    def main(self, path: IdentifierType) -> Union[C14Rec, SerialisableType]:
        text = path.read() if hasattr(path, "read") else open(str(path)).read()
        key, source, *rest = text.strip().split("|")
        if key.startswith("!"):
            raise IOError(f"unreadable:{key[1:]}")
        rec = C14Rec(key=key, trace=[], source=source, falsy=False)
        odd = rest[0] if rest else ""
        if odd:
            # an "info" entry that does not lead to a source
            rec["info"] = {"none": None, "str": "about this record", "list": [1, 2], "empty": {}}[odd]
        return rec
