"""C17 — annotation databases return exactly the matching records.

Oracle: the harness keeps every feature as a plain record (0-based half-open
spans, strand, name, parent, attribute text) built from the *generated* case,
never from what the library parsed.  GFF3 and GenBank text is written by the
harness from those records with its own coordinate arithmetic (1-based closed)
and loaded through ``load_annotations``.  Every query is answered by a linear
scan (list comprehension) over the record list and compared as a multiset with
``get_features_matching``, ``get_records_matching``, ``num_matches`` and
``subset``.  Histories of add / update / union / subset / copy / pickle /
rich-dict / json / write+reopen are replayed on the list model.
"""

from __future__ import annotations

import collections
import copy
import os
import pickle
import shutil
import tempfile

from hypothesis import strategies as st

from vlib.core import Soft, Sub

PROPERTY_ID = "C17"
LEVEL = "exploration"
RULE = (
    "A case is a database class (Basic / Gff / Genbank), 0-14 text-route features (GFF3 rows incl. multi-row features sharing an ID, "
    "Parent links, rows without ID, shuffled row order, further key=value attributes incl. keys ending in ID / Parent (geneID=, myParent=) placed "
    "before or after the ID= / Parent= fields or on rows without them; GenBank feature tables over 1-3 loci with join / order, complement in two styles, "
    "single-base and </> partial locations, segments on different strands (complement(...) per segment or nested complement(join(...))), segments "
    "listed in rotated order, locations continued over several lines, 9-digit coordinates, and legal locations the parser cannot represent: "
    "between-base a^b, remote accession J00194.1:a..b, (a.b)..c, a..(b.c), one-of(a,b)..c, alone, complemented or inside a join), 0-8 user features added with add_feature (unsorted spans, strand +/-/None, shared names, "
    "parent ids, on_alignment), all with 1-3 spans on a 4-9 point lattice in 0..60 so that envelopes abut, nest and straddle, and 8 "
    "queries: every subset of {seqid, biotype, name, strand, attributes, on_alignment} x window in {none, start only, stop only, "
    "(start, stop) from lattice points +-1} x allow_partial, with seqid / biotype / name / strand optionally given as a tuple, list or set of "
    "1-3 values (any member matches). Each query is answered by a linear scan of the harness record list and "
    "compared as a multiset (spans, strand, name, start/stop extremes, parent, attributes) with get_features_matching, "
    "get_records_matching, num_matches and subset. A feature with an unrepresentable location may be skipped or kept as a row without spans "
    "(it is identified by a reserved name and left out of every comparison; len / counts may include it), but every call must still answer "
    "for all other records exactly as the linear scan says. The history sub-check applies 1-8 operations (add_feature, update with/without "
    "seqids, union with another db or itself, subset, re-wrapping via db=, deepcopy, pickle, to_rich_dict/from_dict, to_json/"
    "deserialise, write+reopen) and compares the full record multiset after every step, and that receivers/arguments are unchanged. "
    "The gff-blocks sub-check loads GFF text with a small lines_per_block. The loaders sub-check writes 1-3 flat files (GFF3 files of 0-5 "
    "features with IDs unique over all files and ID-less rows in several files; GenBank files holding 1-3 LOCUS records of 1-3 features each) "
    "and builds one db from them through load_annotations(path=glob pattern), load_annotations(path=file, db=previous) file after file "
    "(optionally starting from a BasicAnnotationDb of user features), union / update of per-file dbs, rich_parser(path, db=shared db) and "
    "load_unaligned_seqs(path).annotation_db, with optional seqids= (str or list), lines_per_block= and write_path= (the written file is "
    "reopened), adds 0-3 user features, optionally passes the db through deepcopy / pickle / to_rich_dict / to_json / write+reopen, and "
    "then asks one query per seqid plus 4 generated queries through the same four entry points; the expected content is the concatenation "
    "of the per-file record lists filtered by seqids. Non-trivial (queries) = some query with >= 2 conditions "
    "and >= 2 candidate records whose envelope touches or straddles a window end; (histories) = a merge or subset plus a "
    "serialisation step on >= 2 records; (loaders) = >= 2 files or a multi-LOCUS file with text-route records on >= 2 seqids; distinct = distinct case encodings."
)
ASSUMPTIONS = [
    "windows are matched by envelope [min start, max stop) of a feature (the db start/stop columns), not per span; windows are non-empty (start < stop) and features non-empty",
    "start-only / stop-only queries select features whose envelope contains that point (start <= p < stop), as the code comments state",
    "text fields are lower-case alphanumerics; attribute query strings are over the letters q,z,x,k,v,h only, which occur in no key word (ID, Parent, note, gene, locus_tag, raw_location, join, order, complement, one-of, J00194, geneID, transcriptID, myParent, oldParent, Alias, Name), so SQL LIKE wildcards and case folding do not enter",
    "attributes are matched as a substring (get_*_matching, subset); for GenBank records only the qualifier values written by the harness are searched for",
    "a query strand='+' may or may not return user features stored without a strand (add_feature documents \"Defaults to '+'\" but stores no value): such records are ignored in the comparison; GFF strand '.' is a value of its own",
    "on_alignment=False selects user records added with on_alignment=False plus all records of the gff/gb tables (which have no such column); on_alignment=True selects user records only; user records are always added through add_feature",
    "GFF3 IDs are unique per file except for the rows of one multi-row feature, which share seqid, type, strand and attributes; rows without ID are single-span and their generated name (unknown-N) is not compared; no '#' in text",
    "a GenBank feature with segments on both strands is stored without a strand (LocationList.strand: '0=both'; add_records stores a strand only when it is non-zero) and with all its spans sorted; whether a strand query finds it is left open; unnamed features get a generated name that is not compared; GenBank attribute dicts are not compared field by field",
    "count_distinct rows are summed over tables before comparison",
    "a GenBank location outside the grammar of parse_location_line (between-base, remote accession, (a.b) bounds, one-of) has no span representation on the sequence (parse_feature sets location=None): nothing documents whether such a feature is dropped or kept as a row without spans, so it is left out of all comparisons (reserved names u0-u2, never queried; len, num_matches, biotype_counts, count_distinct may or may not count it); all other features of the same LOCUS and db must load and be answered for exactly; order(...) is read like join(...); segments are stored sorted whatever order they are listed in",
    "seqid / biotype / name / strand given as a tuple, list or set select records matching any member (tests/test_core/test_annotation_db.py::test_matching_conditions_IN and test_get_features_matching_multiple_biotype_*; the mechanism is generic over columns); containers are non-empty",
    "GFF3 attribute keys are matched as whole keys: geneID=x is not an ID, myParent=x is not a Parent (GFF3 specification; merged_gff_records: 'Only records which have an ID field in the attributes get merged'); the attributes column is the unchanged text of column 9",
    "a db class is only compared when the db holds records (an empty db is falsy: union and the collection loaders may substitute a default one)",
    "only class combinations documented as compatible are driven: update(other) when other's tables are a subset of the receiver's; union for every pair except Gff x Genbank",
    "loading several files, or one file after another into an existing db, gives the concatenation of what each file gives alone (load_annotations: 'We DO NOT check if a provided db already contains records'; tests/test_core/test_annotation_db.py::test_load_annotations_multi); every LOCUS record of a GenBank file contributes its features under its own locus name",
    "load_annotations(seqids=...) keeps exactly the records whose seqid (GFF column 1 / GenBank LOCUS name) is listed, for both formats (the docstring restricts only lines_per_block to GFF); seqids is a non-empty str or list",
    "GFF IDs are unique over all files given to one db: whether rows with one ID in different files are one feature is not documented (a glob load merges them, loading file after file does not); rows without ID are never merged with anything ('Only records which have an ID field in the attributes get merged')",
    "a db of a different class passed as db= is copied and left unchanged, a db of the same class is bound and extended (BasicAnnotationDb.__init__ docstring); write_path= is only given when no db= is given (with db= the source of that db is kept) and the file is then reopened with the class constructor (test_load_anns_with_write)",
    "load_unaligned_seqs on a GenBank file is driven with the old-style collection only (moltype='dna'); its annotation_db must hold every locus",
    "to_rich_dict/from_dict and to_json round trips, and re-wrapping into a richer class via db=, are only asserted for databases whose source is ':memory:' (a db reopened from a file keeps source=<path>; from_dict and GffAnnotationDb(db=...) would reopen and extend that file); this is tracked conservatively through deepcopy, pickle, union and re-wrapping",
]

SEQIDS = ["s1", "s2", "s3", "S1", "s_1", "sy1"]
BIOTYPES = ["gene", "CDS", "cds", "exon", "mRNA", "misc_feature", "mis_feature", "misyfeature"]
NAMES = ["n0", "n1", "n2", "g1", "t1", "N0", "n_1", "ny1", "G1"]
TOK = "qzxkvh"
# names reserved for GenBank features whose location the parser cannot represent (never in a query, dropped from observations)
GHOST_NAMES = ["u0", "u1", "u2"]
GHOSTS = ["between", "between", "between-join", "remote", "remote-join", "bounds-start", "bounds-stop", "one-of"]
BIG = 123456000  # 9-digit GenBank coordinates
# further GFF3 attribute keys (no letter of TOK); those ending in ID / Parent must not be taken for ID= / Parent=
EXTRA_KEYS = ["geneID", "transcriptID", "myParent", "oldParent", "Alias", "Name"]
EXTRA_VALUES = ["n0", "n1", "n2", "qq", "zk"]
SCRATCH = os.path.join(os.path.dirname(os.path.dirname(os.path.abspath(__file__))), ".scratch")

TABLES = {"basic": {"user"}, "gff": {"gff", "user"}, "gb": {"gb", "user"}}


# ============================================================== generators
def _p(draw, percent):
    return draw(st.integers(0, 99)) < percent


def _spans(draw, lat):
    n = draw(st.sampled_from([1, 1, 1, 2, 2, 3]))
    n = max(1, min(n, len(lat) // 2))
    pts = sorted(draw(st.lists(st.sampled_from(lat), min_size=2 * n, max_size=2 * n, unique=True)))
    return [[pts[2 * i], pts[2 * i + 1]] for i in range(n)]


def _token(draw):
    return draw(st.text(alphabet=TOK, min_size=2, max_size=4))


def _user_feat(draw, lat, seqids, names):
    attr = None
    if _p(draw, 55):
        attr = "note=" + _token(draw)
        if _p(draw, 30):
            attr += ";tag=" + _token(draw)
    return {
        "seqid": draw(st.sampled_from(seqids)),
        "biotype": draw(st.sampled_from(BIOTYPES)),
        "name": draw(st.sampled_from(names)),
        "spans": _spans(draw, lat),
        "rev": draw(st.booleans()),
        "strand": draw(st.sampled_from(["+", "-", None])),
        "parent": draw(st.sampled_from([None, None] + names)),
        "attr": attr,
        "oa": _p(draw, 20),
    }


def _gff_feats(draw, lat, seqids, n, base=0, named_pc=85):
    feats = []
    for i in range(n):
        named = _p(draw, named_pc)
        f = {
            "seqid": draw(st.sampled_from(seqids)),
            "biotype": draw(st.sampled_from(BIOTYPES)),
            "name": f"n{base + i}" if named else None,
            "spans": _spans(draw, lat),
            "strand": draw(st.sampled_from(["+", "-", "."])),
            "parent": draw(st.sampled_from([None, None, "n0", "n1", "n0,n1"])),
            "attr": _token(draw) if _p(draw, 60) else None,
            "id_last": draw(st.booleans()),
        }
        if _p(draw, 30):
            # further key=value pairs: [key, value, placed before the ID/Parent fields?]
            f["extra"] = [
                [draw(st.sampled_from(EXTRA_KEYS)), draw(st.sampled_from(EXTRA_VALUES)), draw(st.booleans())]
                for _ in range(draw(st.sampled_from([1, 1, 2])))
            ]
        if not named:
            f["spans"] = f["spans"][:1]
        feats.append(f)
    rows = [[i, k] for i, f in enumerate(feats) for k in range(len(f["spans"]))]
    if rows and _p(draw, 60):
        rows = list(draw(st.permutations(rows)))
    return feats, rows


def _gb_feats(draw, lat, seqids, n):
    feats = []
    for _ in range(n):
        f = {
            "seqid": draw(st.sampled_from(seqids)),
            "biotype": draw(st.sampled_from(BIOTYPES)),
            "name": draw(st.sampled_from(NAMES)),
            "namekey": draw(st.sampled_from(["gene", "gene", "locus_tag", None])),
            "spans": _spans(draw, lat),
            "strand": draw(st.sampled_from(["+", "-"])),
            "attr": _token(draw) if _p(draw, 60) else None,
            "style": draw(st.integers(0, 1)),
            "p5": _p(draw, 15),
            "p3": _p(draw, 15),
            "point": draw(st.booleans()),
        }
        nseg = len(f["spans"])
        if nseg > 1:
            f["op"] = draw(st.sampled_from(["join", "join", "order"]))
            f["wrap"] = draw(st.sampled_from([0, 0, 1, 2]))  # line break after every k-th comma
            f["rot"] = draw(st.sampled_from([0, 0, 0, 1, 2]))  # segments listed in rotated order
            if _p(draw, 25):
                # segments on different strands (trans-splicing): per segment, True = complement
                f["segminus"] = draw(st.lists(st.booleans(), min_size=nseg, max_size=nseg))
        if _p(draw, 6):
            f["shift"] = BIG
        if _p(draw, 7):
            # a legal GenBank location that parse_location_line does not represent
            f["ghost"] = draw(st.sampled_from(GHOSTS))
            f["name"] = draw(st.sampled_from(GHOST_NAMES))
            f["namekey"] = "gene"
        feats.append(f)
    return feats


def _dbspec(draw, lat, seqids, cls=None, max_text=14, max_user=8):
    cls = cls or draw(st.sampled_from(["basic", "gff", "gb"]))
    spec = {"cls": cls, "feats": [], "rows": [], "user": []}
    if cls == "gff":
        spec["feats"], spec["rows"] = _gff_feats(draw, lat, seqids, draw(st.integers(0, max_text)))
    elif cls == "gb":
        spec["feats"] = _gb_feats(draw, lat, seqids, draw(st.integers(0, max_text)))
    nu = draw(st.integers(0, max_user if cls != "basic" else max_user + 10))
    spec["user"] = [_user_feat(draw, lat, seqids, NAMES) for _ in range(nu)]
    return spec


def _lattice(draw):
    k = draw(st.integers(4, 9))
    return sorted(draw(st.lists(st.integers(0, 60), min_size=k, max_size=k, unique=True)))


def _point(draw, lat):
    return max(0, draw(st.sampled_from(lat)) + draw(st.sampled_from([-1, 0, 0, 0, 1])))


def _query(draw, lat, seqids, recs, allow_oa=True, scale=1.0):
    """recs: harness-side records (only used to aim queries at existing values)"""
    q = {}
    target = draw(st.sampled_from(recs)) if recs and _p(draw, 70) else None
    p = lambda pc: _p(draw, int(pc * scale))  # noqa: E731

    def val(key, pool):
        if target is not None and target.get(key) is not None and _p(draw, 75):
            return target[key]
        return draw(st.sampled_from(pool))

    if p(40):
        q["seqid"] = val("seqid", SEQIDS)
    if p(35):
        q["biotype"] = val("biotype", BIOTYPES)
    if p(25):
        q["name"] = val("name", NAMES)
    if p(25):
        q["strand"] = draw(st.sampled_from(["+", "-"]))
    if p(25):
        tok = None
        if target is not None and target.get("attr") and _p(draw, 75):
            words = [w for w in target["attr"].replace(";", "=").split("=") if w and set(w) <= set(TOK)]
            tok = words[-1] if words else None
        tok = tok or _token(draw)
        i = draw(st.integers(0, len(tok) - 1))
        j = draw(st.integers(i + 1, len(tok)))
        q["attributes"] = tok[i:j]
    if allow_oa and _p(draw, 10):
        q["on_alignment"] = draw(st.booleans())
    if _p(draw, 15):
        # tuple / list / set valued arguments select records matching any of the values
        pools = {"seqid": SEQIDS, "biotype": BIOTYPES, "name": NAMES, "strand": ["+", "-"]}
        for k in [k for k in ("seqid", "biotype", "name", "strand") if k in q]:
            if _p(draw, 70):
                q[k] = [q[k]] + draw(st.lists(st.sampled_from(pools[k]), min_size=0, max_size=2))
                q["ctype"] = q.get("ctype") or draw(st.sampled_from(["tuple", "list", "set"]))
    wk = draw(st.sampled_from(["none", "both", "both", "both", "both", "start", "stop"]))
    if wk == "both":
        if target is not None and _p(draw, 50):
            # a window built from the target's own envelope, nudged
            a = max(0, target["spans"][0][0] + draw(st.sampled_from([-1, 0, 0, 1])))
            b = max(0, target["spans"][-1][1] + draw(st.sampled_from([-1, 0, 0, 1])))
        else:
            a, b = _point(draw, lat), _point(draw, lat)
        a, b = min(a, b), max(a, b)
        if a == b:
            b = a + 1
        q["start"], q["stop"] = a, b
    elif wk == "start":
        q["start"] = _point(draw, lat)
    elif wk == "stop":
        q["stop"] = _point(draw, lat)
    q["allow_partial"] = draw(st.booleans())
    return q


def _spec_records(spec):
    """generator-side view of a spec's records (for aiming queries)"""
    return [dict(f, attr=f.get("attr")) for f in spec["feats"]] + list(spec["user"])


@st.composite
def query_cases(draw):
    lat = _lattice(draw)
    seqids = SEQIDS[: draw(st.sampled_from([1, 2, 2, 3]))]
    spec = _dbspec(draw, lat, seqids)
    recs = _spec_records(spec)
    queries = [_query(draw, lat, seqids, recs) for _ in range(8)]
    return {"db": spec, "queries": queries}


@st.composite
def history_cases(draw):
    lat = _lattice(draw)
    seqids = SEQIDS[: draw(st.sampled_from([1, 2, 3]))]
    spec = _dbspec(draw, lat, seqids, max_text=6, max_user=4)
    others = [_dbspec(draw, lat, seqids, max_text=5, max_user=3) for _ in range(draw(st.integers(1, 2)))]
    cur = spec["cls"]
    ops = []
    for _ in range(draw(st.integers(1, 8))):
        kind = draw(
            st.sampled_from(
                ["add", "update", "update", "union", "union", "subset", "subset", "wrap", "deepcopy", "pickle", "richdict", "json", "write_reopen"]
            )
        )
        if kind == "add":
            ops.append({"op": "add", "feat": _user_feat(draw, lat, seqids, NAMES)})
        elif kind == "update":
            ok = [i for i, o in enumerate(others) if TABLES[o["cls"]] <= TABLES[cur]]
            if not ok:
                continue
            sel = draw(st.sampled_from([None, None, "str", "list"]))
            sq = None
            if sel == "str":
                sq = draw(st.sampled_from(SEQIDS))
            elif sel == "list":
                sq = draw(st.lists(st.sampled_from(SEQIDS), min_size=1, max_size=2, unique=True))
            ops.append({"op": "update", "other": draw(st.sampled_from(ok)), "seqids": sq})
        elif kind == "union":
            ok = [i for i, o in enumerate(others) if TABLES[o["cls"]] <= TABLES[cur] or TABLES[cur] <= TABLES[o["cls"]]]
            choice = draw(st.sampled_from(ok + ["self"]))
            if choice != "self" and not TABLES[others[choice]["cls"]] <= TABLES[cur]:
                cur = others[choice]["cls"]
            ops.append({"op": "union", "other": choice})
        elif kind == "subset":
            q = _query(draw, lat, seqids, _spec_records(spec) + [r for o in others for r in _spec_records(o)], allow_oa=False, scale=0.5)
            ops.append({"op": "subset", "q": q})
        elif kind == "wrap":
            to = draw(st.sampled_from([c for c in ("basic", "gff", "gb") if TABLES[cur] <= TABLES[c]]))
            cur = to
            ops.append({"op": "wrap", "cls": to})
        else:
            ops.append({"op": kind})
    return {"db": spec, "others": others, "ops": ops}


@st.composite
def block_cases(draw):
    lat = _lattice(draw)
    seqids = SEQIDS[: draw(st.sampled_from([1, 2]))]
    feats, rows = _gff_feats(draw, lat, seqids, draw(st.integers(1, 8)))
    return {"db": {"cls": "gff", "feats": feats, "rows": rows, "user": []}, "lines_per_block": draw(st.integers(1, 6))}


LOAD_ROUTES = {
    "gff": ["glob", "glob", "chain", "chain", "union", "update"],
    "gb": ["glob", "glob", "chain", "chain", "union", "update", "rich_parser", "collection"],
}
TRANSFORMS = ["none", "none", "none", "deepcopy", "pickle", "richdict", "json", "write_reopen"]


@st.composite
def loader_cases(draw):
    """several flat files (a GenBank file holds 1-3 LOCUS records), loaded together or one after another"""
    lat = _lattice(draw)
    seqids = SEQIDS[: draw(st.sampled_from([2, 3, 3]))]
    kind = draw(st.sampled_from(["gff", "gb"]))
    route = draw(st.sampled_from(LOAD_ROUTES[kind]))
    nfiles = 1 if route == "collection" else draw(st.sampled_from([1, 2, 2, 3]))
    files = []
    base = 0
    for _ in range(nfiles):
        if kind == "gff":
            n = draw(st.integers(0, 5))
            feats, rows = _gff_feats(draw, lat, seqids, n, base=base, named_pc=70)  # IDs are unique over all files
            base += n
            files.append({"feats": feats, "rows": rows})
        else:
            loci = draw(st.lists(st.sampled_from(seqids), min_size=1, max_size=len(seqids), unique=True))
            feats = []
            for sid in loci:
                feats.extend(_gb_feats(draw, lat, [sid], draw(st.integers(1, 3))))
            files.append({"loci": loci, "feats": feats})
    case = {"kind": kind, "route": route, "files": files, "seqids": None, "lines_per_block": None, "write_path": False, "pre_user": []}
    by_load_annotations = route in ("glob", "chain", "union", "update")
    if by_load_annotations and _p(draw, 30 if kind == "gff" else 12):
        if draw(st.booleans()):
            case["seqids"] = draw(st.sampled_from(SEQIDS[:4]))
        else:
            case["seqids"] = draw(st.lists(st.sampled_from(SEQIDS[:4]), min_size=1, max_size=2, unique=True))
    if kind == "gff" and _p(draw, 30):
        case["lines_per_block"] = draw(st.integers(1, 4))
    if route == "chain" and _p(draw, 30):
        case["pre_user"] = [_user_feat(draw, lat, seqids, NAMES) for _ in range(draw(st.integers(1, 3)))]
    elif route in ("glob", "chain") and _p(draw, 20):
        case["write_path"] = True
    case["user"] = [_user_feat(draw, lat, seqids, NAMES) for _ in range(draw(st.integers(0, 3)))]
    case["transform"] = draw(st.sampled_from([x for x in TRANSFORMS if not (case["write_path"] and x in ("richdict", "json"))]))
    recs = [dict(f, attr=f.get("attr")) for fl in files for f in fl["feats"]] + case["pre_user"] + case["user"]
    case["queries"] = [{"seqid": x, "allow_partial": False} for x in seqids] + [_query(draw, lat, seqids, recs) for _ in range(4)]
    return case


# =================================================================== model
def _rec(table, seqid, biotype, name, spans, strand, parent, attr, oa, ghost=False, mixed=False):
    return {
        "ghost": ghost,  # a GenBank feature whose location cannot be represented: may be skipped or kept without spans
        "mixed": mixed,  # GenBank feature with segments on both strands: stored without a strand
        "table": table,
        "seqid": seqid,
        "biotype": biotype,
        "name": name,
        "spans": sorted([int(a), int(b)] for a, b in spans),
        "strand": strand,
        "parent": parent,
        "attr": attr,
        "oa": oa,
    }


def user_record(f):
    return _rec("user", f["seqid"], f["biotype"], f["name"], f["spans"], f["strand"], f["parent"], f["attr"], bool(f["oa"]))


def gff_attr_text(f):
    extra = f.get("extra") or []
    parts = [f"{k}={v}" for k, v, first in extra if first]
    if f["name"] is not None and not f["id_last"]:
        parts.append("ID=" + f["name"])
    if f["parent"]:
        parts.append("Parent=" + f["parent"])
    if f["attr"]:
        parts.append("note=" + f["attr"])
    parts.extend(f"{k}={v}" for k, v, first in extra if not first)
    if f["name"] is not None and f["id_last"]:
        parts.append("ID=" + f["name"])
    return ";".join(parts)


def gff_key_suffix(feats):
    """does some attribute text hold 'ID=' / 'Parent=' as the tail of a longer key before (or without) the real field?"""
    for f in feats:
        text = gff_attr_text(f)
        for key in ("ID=", "Parent="):
            i = text.find(key)
            if i > 0 and text[i - 1] != ";":
                return True
    return False


def gff_text(spec):
    lines = ["##gff-version 3"]
    for fi, si in spec["rows"]:
        f = spec["feats"][fi]
        a, b = f["spans"][si]
        # 0-based half-open [a, b) -> 1-based closed a+1 .. b
        lines.append("\t".join([f["seqid"], "verif", f["biotype"], str(a + 1), str(b), ".", f["strand"], ".", gff_attr_text(f)]))
    return "\n".join(lines) + "\n"


def gff_records(spec):
    return [
        _rec("gff", f["seqid"], f["biotype"], f["name"], f["spans"], f["strand"], f["parent"], gff_attr_text(f) or None, None)
        for f in spec["feats"]
    ]


def gb_spans(f):
    sh = f.get("shift", 0)
    return [[a + sh, b + sh] for a, b in f["spans"]]


def gb_segminus(f):
    """per-segment complement flags of a mixed-strand feature (guaranteed to hold both values), else None"""
    flags = f.get("segminus")
    n = len(f["spans"])
    if not flags or n < 2 or f.get("ghost"):
        return None
    flags = (list(flags) + [False] * n)[:n]
    if len(set(flags)) == 1:
        flags[0] = not flags[0]
    return flags


def _rot(items, k):
    k = k % len(items)
    return items[k:] + items[:k]


def gb_ghost_location(f, segs, spans):
    """legal GenBank locations outside the grammar of parse_location_line (a..b, a, < >, join/order/complement)"""
    kind = f["ghost"]
    lo, hi = spans[0][0] + 1, spans[0][1]
    if kind == "between":
        loc = f"{lo}^{lo + 1}"
    elif kind == "between-join":
        loc = "join(" + ",".join(segs + [f"{hi + 1}^{hi + 2}"]) + ")"
    elif kind == "remote":
        loc = f"J00194.1:{lo}..{hi}"
    elif kind == "remote-join":
        loc = "join(" + ",".join(["J00194.1:100..202"] + segs) + ")"
    elif kind == "bounds-start":
        loc = f"({lo}.{lo + 2})..{hi + 2}"
    elif kind == "bounds-stop":
        loc = f"{lo}..({hi}.{hi + 2})"
    else:
        loc = f"one-of({lo},{lo + 2})..{hi + 2}"
    return f"complement({loc})" if f["strand"] == "-" else loc


def gb_location(f):
    spans = gb_spans(f)
    n = len(spans)
    segs = []
    for i, (a, b) in enumerate(spans):
        lo, hi = str(a + 1), str(b)
        p5 = f["p5"] and i == 0
        p3 = f["p3"] and i == n - 1
        if b == a + 1 and f["point"] and not (p5 or p3):
            segs.append(lo)
        else:
            segs.append(("<" if p5 else "") + lo + ".." + (">" if p3 else "") + hi)
    if f.get("ghost"):
        return gb_ghost_location(f, segs, spans)
    op = f.get("op", "join")
    rot = f.get("rot", 0)
    flags = gb_segminus(f)
    if flags:
        if f["style"] == 0:
            # runs of complemented segments written as complement(join(...)), in reverse order as GenBank does
            parts, i = [], 0
            while i < n:
                if flags[i]:
                    j = i
                    while j < n and flags[j]:
                        j += 1
                    run = segs[i:j]
                    parts.append("complement(" + (run[0] if len(run) == 1 else op + "(" + ",".join(run) + ")") + ")")
                    i = j
                else:
                    parts.append(segs[i])
                    i += 1
        else:
            parts = [f"complement({x})" if m else x for x, m in zip(segs, flags)]
        return op + "(" + ",".join(_rot(parts, rot)) + ")"
    if f["strand"] == "-":
        if f["style"] == 0 or n == 1:
            inner = segs[0] if n == 1 else op + "(" + ",".join(_rot(segs, rot)) + ")"
            return f"complement({inner})"
        return op + "(" + ",".join(f"complement({x})" for x in _rot(list(reversed(segs)), rot)) + ")"
    return segs[0] if n == 1 else op + "(" + ",".join(_rot(segs, rot)) + ")"


def gb_location_lines(f):
    """the location as written in the feature table: optionally continued on further lines after a comma"""
    text = gb_location(f)
    k = f.get("wrap", 0)
    if not k:
        return [text]
    lines, cur, commas = [], "", 0
    for ch in text:
        cur += ch
        if ch == ",":
            commas += 1
            if commas % k == 0:
                lines.append(cur)
                cur = ""
    if cur:
        lines.append(cur)
    return lines


def gb_text(seqid, feats):
    lines = [
        f"LOCUS       {seqid}                        70 bp    DNA     linear   UNK 01-JAN-2000",
        "FEATURES             Location/Qualifiers",
    ]
    for f in feats:
        loc = gb_location_lines(f)
        lines.append("     " + f["biotype"].ljust(16) + loc[0])
        lines.extend(" " * 21 + x for x in loc[1:])
        if f["namekey"]:
            lines.append(" " * 21 + f'/{f["namekey"]}="{f["name"]}"')
        if f["attr"]:
            lines.append(" " * 21 + f'/note="{f["attr"]}"')
    lines.append("ORIGIN")
    lines.append("        1 " + " ".join(["acgtacgtac"] * 6))
    lines.append("       61 acgtacgtac")
    lines.append("//")
    return "\n".join(lines) + "\n"


def gb_records(spec):
    out = []
    for seqid in SEQIDS:  # files are loaded locus by locus
        for f in spec["feats"]:
            if f["seqid"] == seqid:
                mixed = bool(gb_segminus(f))
                out.append(
                    _rec("gb", seqid, f["biotype"], f["name"] if f["namekey"] else None, gb_spans(f), None if mixed else f["strand"], None, f["attr"], None, ghost=bool(f.get("ghost")), mixed=mixed)
                )
    return out


def envelope(r):
    return min(a for a, _ in r["spans"]), max(b for _, b in r["spans"])


def _values(v):
    """the values a query argument selects: a scalar, or any member of a tuple / list / set"""
    return list(v) if isinstance(v, (list, tuple, set, frozenset)) else [v]


def matches(r, q):
    """True / False / None (outcome left open by the documentation)"""
    open_ = False
    if r.get("ghost"):
        return False
    for k in ("seqid", "biotype", "name"):
        if k in q and r[k] not in _values(q[k]):
            return False
    if "strand" in q:
        if r.get("mixed"):
            open_ = True  # no strand is stored for a feature on both strands; which strand query finds it is not documented
        elif r["strand"] is None:
            if "+" in _values(q["strand"]) and r["table"] == "user":
                open_ = True
            else:
                return False
        elif r["strand"] not in _values(q["strand"]):
            return False
    if "attributes" in q and q["attributes"] not in (r["attr"] or ""):
        return False
    if "on_alignment" in q:
        if q["on_alignment"]:
            if not (r["table"] == "user" and r["oa"]):
                return False
        elif r["oa"]:
            return False
    lo, hi = envelope(r)
    S, E = q.get("start"), q.get("stop")
    if S is not None and E is not None:
        if q.get("allow_partial"):
            if not (lo < E and hi > S):
                return False
        elif not (S <= lo and hi <= E):
            return False
    elif S is not None:
        if not (lo <= S < hi):
            return False
    elif E is not None:
        if not (lo <= E < hi):
            return False
    return None if open_ else True


def select(recs, q):
    must, may = [], []
    for r in recs:
        m = matches(r, q)
        if m is True:
            must.append(r)
        elif m is None:
            may.append(r)
    return must, may


def feat_key(r):
    return (r["seqid"], r["biotype"], r["name"], tuple(map(tuple, r["spans"])), r["strand"], r["oa"])


def rec_key(r):
    lo, hi = envelope(r)
    attr = None if r["table"] == "gb" else (r["attr"] or None)
    return (r["seqid"], r["biotype"], r["name"], lo, hi, tuple(map(tuple, r["spans"])), r["strand"], r["parent"] or None, attr)


# ============================================================ observation
def _spans_t(spans):
    return None if spans is None else tuple((int(a), int(b)) for a, b in spans)


def not_ghost(rows):
    """observed rows without those of GenBank features with an unrepresentable location (identified by their reserved names)"""
    return [d for d in rows if d.get("name") not in GHOST_NAMES]


def real(model):
    return [r for r in model if not r.get("ghost")]


def load_sig(cls, feats, default):
    """signature stem for the content check right after loading; circumstances of confirmed defects get their own stem
    (the same in every sub-check) so that the search continues past them"""
    if cls == "gb":
        if any(f.get("ghost") == "one-of" for f in feats):
            return "gb/one-of-location"
        if any(f.get("ghost") for f in feats):
            return "gb/unparsed-location"
    if cls == "gff" and gff_key_suffix(feats):
        return "gff/attr-key-suffix"
    return default


def obs_feature(d, known):
    oa = d.get("on_alignment")
    name = d.get("name")
    return (d.get("seqid"), d.get("biotype"), name if name in known else None, _spans_t(d["spans"]), d.get("strand"), None if oa is None else bool(oa))


def obs_record(d, known):
    name = d.get("name")
    attr = d.get("attributes")
    attr = None if isinstance(attr, dict) else (attr or None)
    return (
        d.get("seqid"),
        d.get("biotype"),
        name if name in known else None,
        d.get("start"),
        d.get("stop"),
        _spans_t(d["spans"]),
        d.get("strand"),
        d.get("parent_id") or None,
        attr,
    )


def cmp_multiset(s, got, must, may, sig, what):
    g, m, y = collections.Counter(got), collections.Counter(must), collections.Counter(may)
    missing = m - g
    extra = (g - m) - y
    if missing or extra:
        s.fail(sig, f"{what}: missing {sorted(missing.elements(), key=repr)[:4]} unexpected {sorted(extra.elements(), key=repr)[:4]} (want {sum(m.values())} got {sum(g.values())})")
        return False
    return True


def query_kwargs(q):
    conv = {"tuple": tuple, "list": list, "set": set}[q.get("ctype", "list")]
    return {k: (conv(v) if isinstance(v, list) else v) for k, v in q.items() if k != "ctype"}


def known_names(case):
    names = set(NAMES)
    specs = [case["db"]] + list(case.get("others", []))
    for sp in specs:
        for f in sp["feats"]:
            if f.get("name"):
                names.add(f["name"])
    return names


class Tmp:
    """lazily created scratch directory"""

    def __init__(self):
        self.path = None
        self.n = 0

    def file(self, name):
        if self.path is None:
            os.makedirs(SCRATCH, exist_ok=True)
            self.path = tempfile.mkdtemp(prefix="c17.", dir=SCRATCH)
        self.n += 1
        return os.path.join(self.path, f"{self.n}_{name}")

    def dir(self, name):
        path = self.file(name)
        os.makedirs(path)
        return path

    def cleanup(self):
        if self.path is not None:
            shutil.rmtree(self.path, ignore_errors=True)


def build(s: Soft, spec, tmp: Tmp, dbs: list, lines_per_block=None):
    """builds the real db of a spec and the harness record list; (None, None) if construction failed"""
    from cogent3.core.annotation_db import BasicAnnotationDb, GenbankAnnotationDb, GffAnnotationDb, load_annotations

    cls = spec["cls"]
    model = []
    db = None
    if cls == "basic":
        ok, db = s.call("basic/construct", BasicAnnotationDb)
        if not ok:
            return None, None
    elif cls == "gff":
        if spec["feats"]:
            path = tmp.file("in.gff")
            with open(path, "w") as out:
                out.write(gff_text(spec))
            kw = {} if lines_per_block is None else {"lines_per_block": lines_per_block}
            ok, db = s.call("gff/load_annotations", lambda: load_annotations(path=path, **kw))
        else:
            ok, db = s.call("gff/construct", GffAnnotationDb)
        if not ok:
            return None, None
        model.extend(gff_records(spec))
    else:
        for seqid in SEQIDS:
            feats = [f for f in spec["feats"] if f["seqid"] == seqid]
            if not feats:
                continue
            path = tmp.file(f"{seqid}.gb")
            with open(path, "w") as out:
                out.write(gb_text(seqid, feats))
            ok, db = s.call("gb/load_annotations", lambda: load_annotations(path=path, db=db))
            if not ok:
                return None, None
        if db is None:
            ok, db = s.call("gb/construct", GenbankAnnotationDb)
            if not ok:
                return None, None
        model.extend(gb_records(spec))
    dbs.append(db)
    for f in spec["user"]:
        if not add_user(s, db, f, cls):
            return None, None
        model.append(user_record(f))
    return db, model


def add_user(s, db, f, cls):
    spans = [tuple(x) for x in (reversed(f["spans"]) if f["rev"] else f["spans"])]
    kw = {"seqid": f["seqid"], "biotype": f["biotype"], "name": f["name"], "spans": spans, "on_alignment": bool(f["oa"])}
    if f["strand"] is not None:
        kw["strand"] = f["strand"]
    if f["parent"] is not None:
        kw["parent_id"] = f["parent"]
    if f["attr"] is not None:
        kw["attributes"] = f["attr"]
    ok, _ = s.call(f"{cls}/add_feature", lambda: db.add_feature(**kw))
    return ok


def full_content(s, db, sig, known):
    ok, rows = s.call(sig + "/get_records_matching", lambda: [dict(r) for r in db.get_records_matching()])
    if not ok:
        return None
    return [obs_record(r, known) for r in not_ghost(rows)]


def verify_all(s, db, model, sig, known, what):
    """full multiset of records and features, and len, against the harness list"""
    ghosts = len(model) - len(real(model))
    model = real(model)
    got = full_content(s, db, sig, known)
    if got is None:
        return False
    if not cmp_multiset(s, got, [rec_key(r) for r in model], [], sig + "/records", what):
        return False  # one root cause, one signature
    ok, feats = s.call(sig + "/get_features_matching", lambda: list(db.get_features_matching()))
    if not ok or not cmp_multiset(s, [obs_feature(f, known) for f in not_ghost(feats)], [feat_key(r) for r in model], [], sig + "/features", what):
        return False
    ok, n = s.call(sig + "/len", len, db)
    # a feature whose location cannot be represented may be skipped or kept as a row without spans
    return bool(ok and s.check(len(model) <= n <= len(model) + ghosts, sig + "/len", f"{what}: len {n} want {len(model)}" + (f"..{len(model) + ghosts}" if ghosts else "")))


def close_all(dbs):
    for d in dbs:
        try:
            d.close()
        except Exception:  # noqa: BLE001
            pass


# ================================================================ queries
def subset_sig(q):
    scalar = any(k in q for k in ("seqid", "biotype", "name", "strand", "attributes"))
    return "subset" + ("/window-only" if not scalar and ("start" in q or "stop" in q) else "")


def window_kind(q):
    if "start" in q and "stop" in q:
        return "partial" if q.get("allow_partial") else "within"
    if "start" in q:
        return "start-only"
    if "stop" in q:
        return "stop-only"
    return "none"


def relation(r, q):
    """interval relation of a record's envelope to a (start, stop) window"""
    lo, hi = envelope(r)
    S, E = q["start"], q["stop"]
    if (lo, hi) == (S, E):
        return "equal"
    if hi == S or lo == E:
        return "abut"
    if hi < S or lo > E:
        return "disjoint"
    if S <= lo and hi <= E:
        return "nested-touching" if lo == S or hi == E else "nested"
    if lo <= S and E <= hi:
        return "contains-window"
    return "straddle-start" if lo < S else "straddle-stop"


def between(s, got, want, slack, sig, what):
    """got == want, up to the optional counts in slack"""
    got, want = +got, +want
    ok = not (want - got) and not ((got - want) - slack)
    return s.check(ok, sig, f"{what}: got {dict(got)} want {dict(want)}" + (f" (+ up to {dict(slack)})" if slack else ""))


def text_classes(s, cls, feats):
    """coverage classes of the text forms written for a db"""
    if cls == "gb":
        for f in feats:
            if f.get("ghost"):
                s.cls("gb-loc:unrepresentable:" + f["ghost"])
                continue
            if gb_segminus(f):
                s.cls("gb-loc:mixed-strand")
            if len(f["spans"]) > 1:
                s.cls("gb-loc:" + f.get("op", "join"))
                if f.get("wrap"):
                    s.cls("gb-loc:wrapped")
                if f.get("rot"):
                    s.cls("gb-loc:rotated")
            if f.get("shift"):
                s.cls("gb-loc:9-digit")
    elif cls == "gff":
        if any(f.get("extra") for f in feats):
            s.cls("gff-attr:extra-keys")
        if gff_key_suffix(feats):
            s.cls("gff-attr:key-ending-in-ID-or-Parent-first")


def exec_queries(case) -> Soft:
    s = Soft("C17/")
    tmp, dbs = Tmp(), []
    try:
        _run_queries(s, case, tmp, dbs)
    finally:
        close_all(dbs)
        tmp.cleanup()
    return s


def _run_queries(s: Soft, case, tmp, dbs):
    spec = case["db"]
    cls = spec["cls"]
    known = known_names(case)
    db, model = build(s, spec, tmp, dbs)
    if db is None:
        return
    s.cls("class:" + cls, "records:" + ("0" if not model else "1-5" if len(model) <= 5 else "6-12" if len(model) <= 12 else "13+"))
    text_classes(s, cls, spec["feats"])
    if any(len(r["spans"]) > 1 for r in model):
        s.cls("multi-span")
    if len({r["name"] for r in model if r["name"]}) < len([r for r in model if r["name"]]):
        s.cls("shared-names")
    if {r["table"] for r in model} >= {"user"} and len({r["table"] for r in model}) > 1:
        s.cls("two-tables")
    what0 = f"{cls} db of {len(model)} records"
    if not verify_all(s, db, model, load_sig(cls, spec["feats"], f"{cls}/load"), known, what0):
        return  # queries on a wrongly loaded db would only cascade
    # whole-db summaries (rows kept for features without a representable location may or may not be counted)
    ghosts = [r for r in model if r.get("ghost")]
    ok, bc = s.call("biotype_counts", db.biotype_counts)
    if ok:
        between(s, collections.Counter(dict(bc)), collections.Counter(r["biotype"] for r in real(model)), collections.Counter(r["biotype"] for r in ghosts), "biotype_counts", what0)
    ok, tab = s.call("count_distinct", lambda: db.count_distinct(seqid=True, biotype=True))
    if ok and tab is not None:
        ok2, rows = s.call("count_distinct", lambda: list(tab.to_dict().values()))
        if ok2:
            agg = collections.Counter()
            for row in rows:
                agg[(row["seqid"], row["biotype"])] += int(row["count"])
            between(
                s, agg, collections.Counter((r["seqid"], r["biotype"]) for r in real(model)), collections.Counter((r["seqid"], r["biotype"]) for r in ghosts), "count_distinct", what0
            )

    nontrivial, evals = run_query_list(s, db, model, case["queries"], known, what0, dbs)
    # the queried db is unchanged
    verify_all(s, db, model, "after-queries", known, what0)
    s.evals = max(1, evals)
    s.nontrivial = nontrivial


def run_query_list(s: Soft, db, model, queries, known, what0, dbs, pre=""):
    """answers every query by a linear scan of model and compares the four query entry points; (nontrivial, evals)"""
    nontrivial = False
    evals = 0
    for q in queries:
        wk = window_kind(q)
        conds = [k for k in ("seqid", "biotype", "name", "strand", "attributes", "on_alignment") if k in q]
        nconds = len(conds) + (wk != "none")
        must, may = select(model, q)
        what = f"{what0}, query {q}"
        s.cls("window:" + wk, "nconds:" + str(min(nconds, 4)))
        for k in conds:
            s.cls("arg:" + k)
        s.cls("result:" + ("none" if not must else "all" if len(must) == len(real(model)) else "one" if len(must) == 1 else "some"))
        seqv = "/seq-valued" if "ctype" in q else ""  # tuple / list / set valued arguments (IN clause)
        if seqv:
            s.cls("arg-container:" + q["ctype"])
        if may:
            s.cls("open-strand-records")
        if wk in ("partial", "within"):
            q_nowin = {k: v for k, v in q.items() if k not in ("start", "stop")}
            cand = [r for r in model if matches(r, q_nowin) is not False]
            rels = [relation(r, q) for r in cand]
            for rel in set(rels):
                s.cls(f"rel:{rel}")
            edge = [x for x in rels if x not in ("disjoint", "nested", "contains-window")]
            if len(edge) >= 2 and nconds >= 2:
                nontrivial = True
        oa = "/on_alignment" if "on_alignment" in q else ""
        kw = query_kwargs(q)
        # --- get_features_matching
        good = True
        ok, feats = s.call(pre + f"query/get_features_matching{oa}", lambda: list(db.get_features_matching(**kw)))
        if ok:
            evals += 1
            good = cmp_multiset(s, [obs_feature(f, known) for f in not_ghost(feats)], [feat_key(r) for r in must], [feat_key(r) for r in may], pre + f"query/features{seqv}/window:{wk}", what)
        # --- get_records_matching (same SQL: one root cause, one signature)
        ok, rows = s.call(pre + f"query/get_records_matching{oa}", lambda: [dict(r) for r in db.get_records_matching(**kw)])
        if ok and good:
            evals += 1
            good = cmp_multiset(s, [obs_record(r, known) for r in not_ghost(rows)], [rec_key(r) for r in must], [rec_key(r) for r in may], pre + f"query/records{seqv}/window:{wk}", what)
        # --- num_matches (no window arguments)
        if wk == "none":
            nkw = {k: v for k, v in kw.items() if k != "allow_partial"}
            tag = "/attributes" if "attributes" in q else ""
            ok, n = s.call(pre + f"query/num_matches{oa}", lambda: db.num_matches(**nkw))
            if ok and good:
                evals += 1
                hi = len(must) + len(may) + (len(model) - len(real(model)))
                s.check(len(must) <= n <= hi, pre + f"query/num_matches{tag}{seqv}", f"{what}: got {n} want {len(must)}" + (f"..{hi}" if hi > len(must) else ""))
        # --- subset (has no on_alignment argument)
        skw = {k: v for k, v in kw.items() if k != "on_alignment"}
        smust, smay = select(model, skw)
        ok, sub = s.call(pre + subset_sig(skw), lambda: db.subset(**skw))
        if ok:
            dbs.append(sub)
            evals += 1
            got = full_content(s, sub, pre + "subset", known)
            if got is not None and good:
                cmp_multiset(s, got, [rec_key(r) for r in smust], [rec_key(r) for r in smay], pre + f"subset{seqv}/window:{window_kind(skw)}", what)
            s.check(type(sub) is type(db), pre + "subset/class", f"{what}: {type(sub).__name__}")
    return nontrivial, evals


# ============================================================== histories
def exec_history(case) -> Soft:
    s = Soft("C17/")
    tmp, dbs = Tmp(), []
    try:
        _run_history(s, case, tmp, dbs)
    finally:
        close_all(dbs)
        tmp.cleanup()
    return s


def _make(cls):
    from cogent3.core.annotation_db import BasicAnnotationDb, GenbankAnnotationDb, GffAnnotationDb

    return {"basic": BasicAnnotationDb, "gff": GffAnnotationDb, "gb": GenbankAnnotationDb}[cls]


def _cls_of(db):
    return {"BasicAnnotationDb": "basic", "GffAnnotationDb": "gff", "GenbankAnnotationDb": "gb"}.get(type(db).__name__, "?")


def _run_history(s: Soft, case, tmp, dbs):
    known = known_names(case)
    cur, model = build(s, case["db"], tmp, dbs)
    if cur is None:
        return
    cls = case["db"]["cls"]
    others = []
    for sp in case["others"]:
        o, om = build(s, sp, tmp, dbs)
        if o is None:
            return
        others.append((o, om, sp["cls"]))
    if not verify_all(s, cur, model, load_sig(cls, case["db"]["feats"], f"{cls}/load"), known, f"initial {cls} db"):
        return
    for (o, om, ocls), sp in zip(others, case["others"]):
        if not verify_all(s, o, om, load_sig(ocls, sp["feats"], f"{ocls}/load"), known, f"other {ocls} db"):
            return
    for sp in [case["db"]] + case["others"]:
        text_classes(s, sp["cls"], sp["feats"])
    s.cls("start:" + cls)
    tainted = False  # source is (or may be) a file path: rich-dict round trips are out of the claimed domain
    merged = serialised = False
    biggest = len(model)
    for i, op in enumerate(case["ops"]):
        name = op["op"]
        what = f"step {i} {op} on {cls} db of {len(model)} records"
        prev_db, prev_model = cur, list(model)
        check_prev = False
        if name == "add":
            if not add_user(s, cur, op["feat"], cls):
                return
            model = model + [user_record(op["feat"])]
        elif name == "update":
            o, om, ocls = others[op["other"]]
            if not TABLES[ocls] <= TABLES[cls]:
                s.cls("skipped")
                continue
            sq = op["seqids"]
            ok, _ = s.call(f"{cls}/update<-{ocls}" + ("/seqids" if sq else ""), lambda: cur.update(o, seqids=sq) if sq else cur.update(o))
            if not ok:
                return
            keep = None if not sq else ({sq} if isinstance(sq, str) else set(sq))
            model = model + [r for r in om if keep is None or r["seqid"] in keep]
            merged = True
            s.cls("update" + (":seqids" if sq else ""), f"update:{cls}<-{ocls}")
            verify_all(s, o, om, "history/update/argument-changed", known, what)
        elif name == "union":
            if op["other"] == "self":
                o, om, ocls = cur, model, cls
            else:
                o, om, ocls = others[op["other"]]
            if not (TABLES[ocls] <= TABLES[cls] or TABLES[cls] <= TABLES[ocls]):
                s.cls("skipped")
                continue
            ok, new = s.call(f"{cls}/union+{ocls}", lambda: cur.union(o))
            if not ok:
                return
            dbs.append(new)
            want_cls = cls if TABLES[ocls] <= TABLES[cls] else ocls
            if real(om):  # an empty argument is documented falsy: union returns a copy of the receiver
                s.eq(_cls_of(new), want_cls, f"{cls}/union+{ocls}/class", what)
            model = model + list(om)
            s.cls(f"union:{cls}+{ocls}" if op["other"] != "self" else "union:self")
            if op["other"] != "self":
                verify_all(s, o, om, "history/union/argument-changed", known, what)
            cur, cls = new, _cls_of(new)
            merged = True
            check_prev = True
        elif name == "subset":
            q = query_kwargs(op["q"])
            ok, new = s.call(subset_sig(q), lambda: cur.subset(**q))
            if not ok:
                return
            dbs.append(new)
            must, may = select(model, q)
            got = full_content(s, new, "subset", known)
            if got is None:
                return
            if not cmp_multiset(s, got, [rec_key(r) for r in must], [rec_key(r) for r in may], f"subset/window:{window_kind(q)}", what):
                return
            # resolve the open records from what the subset holds
            gc = collections.Counter(got) - collections.Counter(rec_key(r) for r in must)
            kept = []
            for r in may:
                if gc[rec_key(r)] > 0:
                    gc[rec_key(r)] -= 1
                    kept.append(r)
            model = must + kept + [r for r in model if r.get("ghost")]  # whether rows without spans are copied is left open
            cur = new
            tainted = False
            merged = True
            check_prev = True
            s.cls("subset:" + window_kind(q), "subset-result:" + ("empty" if not real(model) else "all" if len(model) == len(prev_model) else "some"))
        elif name == "wrap":
            to = op["cls"]
            if not TABLES[cls] <= TABLES[to] or (tainted and to != cls):
                s.cls("skipped")
                continue
            ok, new = s.call(f"{to}/init(db={cls})", lambda: _make(to)(db=cur))
            if not ok:
                return
            dbs.append(new)
            s.cls(f"wrap:{cls}->{to}")
            cur, cls = new, to
            check_prev = True
        elif name in ("deepcopy", "pickle", "richdict", "json", "write_reopen"):
            if name in ("richdict", "json") and tainted:
                s.cls("skipped")
                continue
            if name == "deepcopy":
                fn = lambda: copy.deepcopy(cur)  # noqa: E731
            elif name == "pickle":
                fn = lambda: pickle.loads(pickle.dumps(cur))  # noqa: E731
            elif name == "richdict":
                fn = lambda: type(cur).from_dict(cur.to_rich_dict())  # noqa: E731
            elif name == "json":

                def fn():
                    from cogent3.util.deserialise import deserialise_object

                    return deserialise_object(cur.to_json())

            else:
                path = tmp.file("out.sqlitedb")

                def fn():
                    cur.write(path)
                    return type(cur)(source=path)

                tainted = True
            ok, new = s.call(f"history/{name}", fn)
            if not ok:
                return
            dbs.append(new)
            s.eq(_cls_of(new), cls, f"history/{name}/class", what)
            cur = new
            serialised = serialised or len(model) >= 2
            check_prev = True
            s.cls("op:" + name)
        else:
            continue
        biggest = max(biggest, len(model))
        if not verify_all(s, cur, model, f"history/after:{name}", known, what):
            return
        if check_prev and prev_db is not cur:
            if not verify_all(s, prev_db, prev_model, f"history/receiver-changed:{name}", known, what):
                return
    s.cls("final-records:" + ("0" if not model else "1-5" if len(model) <= 5 else "6+"))
    s.nontrivial = merged and serialised and biggest >= 2
    s.evals = 1 + len(case["ops"])


# ============================================================= gff blocks
def exec_blocks(case) -> Soft:
    s = Soft("C17/")
    tmp, dbs = Tmp(), []
    try:
        known = known_names(case)
        spec = case["db"]
        n = case["lines_per_block"]
        db, model = build(s, spec, tmp, dbs, lines_per_block=n)
        if db is not None:
            # does a multi-row feature have its rows in different blocks (line 0 is the version pragma)?
            blocks = collections.defaultdict(set)
            for pos, (fi, _) in enumerate(spec["rows"]):
                blocks[fi].add((pos + 1) // n)
            split = any(len(b) > 1 for b in blocks.values())
            s.cls("split-feature" if split else "unsplit", f"lines_per_block:{min(n, 4)}")
            s.nontrivial = split
            text_classes(s, "gff", spec["feats"])
            verify_all(s, db, model, load_sig("gff", spec["feats"], "gff-blocks/load" + ("/split-feature" if split else "")), known, f"gff rows {len(spec['rows'])}, lines_per_block={n}")
    finally:
        close_all(dbs)
        tmp.cleanup()
    return s


# ================================================================ loaders
def exec_loaders(case) -> Soft:
    s = Soft("C17/")
    tmp, dbs = Tmp(), []
    try:
        _run_loaders(s, case, tmp, dbs)
    finally:
        close_all(dbs)
        tmp.cleanup()
    return s


def gb_file_text(fl):
    return "".join(gb_text(sid, [f for f in fl["feats"] if f["seqid"] == sid]) for sid in fl["loci"])


def _run_loaders(s: Soft, case, tmp, dbs):
    from cogent3.core.annotation_db import BasicAnnotationDb, GenbankAnnotationDb, load_annotations

    kind, route, files = case["kind"], case["route"], case["files"]
    sq = case["seqids"]
    keep = None if sq is None else ({sq} if isinstance(sq, str) else set(sq))
    known = set(NAMES) | {f["name"] for fl in files for f in fl["feats"] if f.get("name")}
    indir = tmp.dir("in")
    suffix = "gff" if kind == "gff" else "gb"
    paths, models = [], []
    for i, fl in enumerate(files):
        path = os.path.join(indir, f"f{i}.{suffix}")
        with open(path, "w") as out:
            out.write(gff_text(fl) if kind == "gff" else gb_file_text(fl))
        paths.append(path)
        recs = gff_records(fl) if kind == "gff" else gb_records(fl)
        models.append([r for r in recs if keep is None or r["seqid"] in keep])
    model = [r for m in models for r in m]

    # circumstance tags of the confirmed defects, so that the search continues past them
    tag = ""
    if kind == "gb" and route in ("glob", "chain", "union", "update"):
        multi = any(len(fl["loci"]) > 1 for fl in files)
        tag = ("/multi-locus-file" if multi else "") + ("/seqids" if keep is not None else "")
        s.cls("gb:multi-locus-file" if multi else "gb:single-locus-files")
    if kind == "gff" and route == "glob":
        idless = [sum(1 for f in fl["feats"] if f["name"] is None and (keep is None or f["seqid"] in keep)) for fl in files]
        if sum(1 for n in idless if n) >= 2:
            tag = "/idless-rows-in-several-files"
            s.cls("gff:idless-rows-in-several-files")
    # one signature per root cause: the tagged circumstances do not depend on the route
    pre = f"loaders/{kind}/load_annotations{tag}" if tag else f"loaders/{kind}/{route}"
    allfeats = [f for fl in files for f in fl["feats"]]
    stem = load_sig(kind, allfeats, None)
    if stem:
        pre = stem  # one stem per confirmed root cause, whatever the sub-check and route
    csig = stem or pre + "/content"
    text_classes(s, kind, allfeats)
    s.cls("kind:" + kind, "route:" + route, f"files:{len(files)}")
    if keep is not None:
        s.cls("seqids:" + ("str" if isinstance(sq, str) else "list"))

    kw = {}
    if keep is not None:
        kw["seqids"] = sq
    if case["lines_per_block"] is not None:
        kw["lines_per_block"] = case["lines_per_block"]
        s.cls("lines_per_block")
    wpath = tmp.file("loaded.sqlitedb") if case["write_path"] else None

    seed = seed_model = None
    db = None
    if route == "glob":
        wkw = {} if wpath is None else {"write_path": wpath}
        ok, db = s.call(pre + "/load", lambda: load_annotations(path=os.path.join(indir, "*." + suffix), **kw, **wkw))
        if not ok:
            return
    elif route == "chain":
        if case["pre_user"]:
            ok, seed = s.call("basic/construct", BasicAnnotationDb)
            if not ok:
                return
            dbs.append(seed)
            for f in case["pre_user"]:
                if not add_user(s, seed, f, "basic"):
                    return
            seed_model = [user_record(f) for f in case["pre_user"]]
            model = seed_model + model
            db = seed
            s.cls("chain:seeded-with-basic-db")
        for i, path in enumerate(paths):
            wkw = {"write_path": wpath} if (wpath is not None and i == 0) else {}
            ok, db = s.call(pre + "/load", lambda: load_annotations(path=path, db=db, **kw, **wkw))
            if not ok:
                return
            if db is not seed:
                dbs.append(db)
    elif route in ("union", "update"):
        parts = []
        for path in paths:
            ok, part = s.call(pre + "/load", lambda: load_annotations(path=path, **kw))
            if not ok:
                return
            dbs.append(part)
            parts.append(part)
            if not verify_all(s, part, models[len(parts) - 1], csig, known, f"{kind} db loaded from file {len(parts) - 1} of {len(files)}"):
                return
        db = parts[0]
        for part, pm in zip(parts[1:], models[1:]):
            if route == "union":
                ok, db = s.call(pre + "/union", lambda: db.union(part))
                if not ok:
                    return
                dbs.append(db)
            else:
                ok, _ = s.call(pre + "/update", lambda: db.update(part))
                if not ok:
                    return
            if not verify_all(s, part, pm, pre + "/argument-changed", known, f"{route} argument"):
                return
    elif route == "rich_parser":
        from cogent3.parse.genbank import rich_parser

        ok, db = s.call("gb/construct", GenbankAnnotationDb)
        if not ok:
            return
        for path in paths:
            ok, got = s.call(pre + "/load", lambda: [name for name, _ in rich_parser(path, db=db)])
            if not ok:
                return
            s.eq(got, files[paths.index(path)]["loci"], pre + "/locus-names", "names yielded by rich_parser")
    else:  # the annotation db of a collection loaded from one GenBank file
        from cogent3 import load_unaligned_seqs

        ok, coll = s.call(pre + "/load", lambda: load_unaligned_seqs(paths[0], moltype="dna"))
        if not ok:
            return
        s.eq(list(coll.names), files[0]["loci"], pre + "/locus-names", "names of the collection")
        db = coll.annotation_db
    if db not in dbs:
        dbs.append(db)

    what0 = f"{kind} db loaded by {route} from {len(files)} files" + (f" seqids={sq}" if keep is not None else "")
    cls = _cls_of(db)
    if real(model):  # a db without records is falsy and may be replaced by a default one (collection route)
        s.eq(cls, kind, pre + "/class", what0)
    if not verify_all(s, db, model, csig, known, what0):
        return
    if seed is not None:
        # a db of another class passed as db= is copied, not bound
        verify_all(s, seed, seed_model, pre + "/seed-changed", known, what0)
    if wpath is not None:
        ok, again = s.call(pre + "/write_path/reopen", lambda: type(db)(source=wpath))
        if ok:
            dbs.append(again)
            verify_all(s, again, model, pre + "/write_path/reopen", known, what0)
    for f in case["user"]:
        if not add_user(s, db, f, cls):
            return
        model = model + [user_record(f)]

    tr = case["transform"]
    if tr in ("richdict", "json") and wpath is not None:
        tr = "none"
    s.cls("transform:" + tr)
    if tr != "none":
        cur = db
        if tr == "deepcopy":
            fn = lambda: copy.deepcopy(cur)  # noqa: E731
        elif tr == "pickle":
            fn = lambda: pickle.loads(pickle.dumps(cur))  # noqa: E731
        elif tr == "richdict":
            fn = lambda: type(cur).from_dict(cur.to_rich_dict())  # noqa: E731
        elif tr == "json":

            def fn():
                from cogent3.util.deserialise import deserialise_object

                return deserialise_object(cur.to_json())

        else:
            out = tmp.file("out.sqlitedb")

            def fn():
                cur.write(out)
                return type(cur)(source=out)

        ok, db = s.call(f"loaders/{tr}", fn)
        if not ok:
            return
        dbs.append(db)
        s.eq(_cls_of(db), cls, f"loaders/{tr}/class", what0)
        if not verify_all(s, db, model, f"loaders/after:{tr}", known, what0):
            return
    what0 += f", {len(model)} records" + ("" if tr == "none" else f", after {tr}")
    _, evals = run_query_list(s, db, model, case["queries"], known, what0, dbs, pre="loaders/")
    verify_all(s, db, model, "loaders/after-queries", known, what0)
    s.evals = max(1, evals)
    several = len(files) >= 2 or (kind == "gb" and any(len(fl["loci"]) > 1 for fl in files))
    s.nontrivial = several and len({r["seqid"] for r in model if r["table"] != "user"}) >= 2


SUBS = [
    Sub("queries", exec_queries, strategy=query_cases(), quick=1500, thorough=240_000, shards_quick=16),
    Sub("histories", exec_history, strategy=history_cases(), quick=400, thorough=48_000, shards_quick=8),
    Sub("gff_blocks", exec_blocks, strategy=block_cases(), quick=200, thorough=16_000, shards_quick=4),
    Sub("loaders", exec_loaders, strategy=loader_cases(), quick=600, thorough=60_000, shards_quick=8),
]

KNOWN_PREDICATES = {}

# thorough tier: coverage-guided campaigns (atheris/libFuzzer mutating the bytes Hypothesis draws from)
FUZZ = {
    "subs": ['queries', 'histories', 'gff_blocks', 'loaders'],
    "targets": ['cogent3.core.annotation_db', 'cogent3.parse.gff', 'cogent3.parse.genbank'],
    "execs_thorough": 40_000, "jobs_thorough": 4, "execs_quick": 1000, "jobs_quick": 2,
}

META = {
    "technique": "Hypothesis-generated record sets, query lattices and operation histories against a linear-scan list model; GFF3/GenBank text written by the harness with independent coordinate arithmetic",
    "level_text": "Each run builds about 1 500 databases of the three classes (user-added, GFF3 text, GenBank text) on span lattices where envelopes abut, nest and straddle, asks 8 queries each over the cross-product of optional arguments, window kinds and allow_partial through four query entry points, and replays about 400 histories of merge / subset / copy / serialise operations, comparing record multisets with a plain list model after every step. About 600 further databases are assembled from 1-3 flat files (multi-LOCUS GenBank files, several GFF3 files) through six loading routes with seqids / lines_per_block / write_path options, optionally round-tripped through a serialisation, and queried the same way. GenBank text uses the location grammar of the feature table definition (join / order / complement nesting, mixed strands, wrapped lines, partial ends, 9-digit coordinates, and unrepresentable between-base / remote / bounds / one-of forms); GFF3 text carries further key=value attributes incl. keys ending in ID / Parent; queries also pass tuple / list / set valued arguments.",
    "level_note": "GenBank locations the parser cannot represent are only required not to disturb other records (skipped or kept without spans is not decided); windows are non-empty and matched by feature envelope; attribute matching is restricted to wildcard-free lower-case text; incompatible class combinations (documented TypeError) and rich-dict round trips of file-backed databases are not driven; get_feature_children/parent are not checked; GFF IDs shared between files and GenBank files with duplicate LOCUS names are not generated.",
    "design_ref": "DESIGN.md section 1, C17",
}
