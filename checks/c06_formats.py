"""C06 — sequence file formats round-trip and all parsers of a format agree.

Oracle: the generated (names, sequences) lists are the model.  (a) every
collection class writes the set in every applicable format (plain, .gz, .bz2,
and a harness-made .zip on the read side) and the loaders must give back the
model; (b) every parser entry point of the format, fed the written text as
bytes / list / tuple / str path / Path, must yield the model records; the same
on harness-written well-formed layouts (other line widths, CRLF, blank lines,
interleaved PHYLIP); (c) ``iter_splitlines`` must equal ``str.splitlines`` of
the text for every chunk size; (d) generated minimal GenBank records parse to
the generated locus names and sequences with both GenBank parsers.
"""

from __future__ import annotations

import bz2
import gzip
import os
import pathlib
import re
import shutil
import tempfile
import zipfile

from hypothesis import strategies as st

from vlib.core import Soft, Sub, raised_in_repo

PROPERTY_ID = "C06"
LEVEL = "exploration"
RULE = (
    "roundtrip sub-check: Hypothesis-generated name/sequence sets (1-6 records; names of printable ASCII built from tokens "
    "weighted towards > | : ; , ( ) [ ] ' \" # % = ~{ and blanks, lengths 1-8 / 9-11 / 12-20; DNA, RNA or protein with gaps and "
    "ambiguity codes; lengths drawn from 1, 2, 9-11, 59-61, 119-121, multiples of the block size +-1, or random <= 300; aligned "
    "or ragged), one collection class (ArrayAlignment, Alignment, SequenceCollection, new-type SequenceCollection), one "
    "compression suffix per format and an optional block_size; each case is written in every applicable format, loaded back, and "
    "the written text is fed to every parser entry point. variants sub-check: the same kind of sets laid out by the harness "
    "(line width, CRLF, blank lines, missing final newline, sequential/interleaved PHYLIP, 10-column blocks). chunks sub-check: "
    "generated line lists (empty lines, CRLF, optional final newline, optional compression) streamed with every chunk size "
    "1..len+2 (files <= 150 characters) or chunk sizes around every line boundary (larger files). genbank sub-check: generated "
    "minimal GenBank records (LOCUS/DEFINITION/SOURCE/FEATURES/ORIGIN). Non-trivial = at least 2 records and (a name with a "
    "non-alphanumeric character or a sequence length within +-1 of a multiple of the line width / the 10-column field); chunks: at "
    "least 2 lines and a chunk size smaller than the text; distinct = distinct (names, sequences, layout) tuples."
)
ASSUMPTIONS = [
    "names are non-empty printable ASCII (0x20-0x7e) without leading/trailing blanks, unique, and unique after PHYLIP truncation",
    "PHYLIP: the cogent3 writer documents a 9 character label (padded to 10 columns); the expected label is name[:9] with a trailing blank left by the cut removed; harness-written PHYLIP uses the standard 10 column label field, expected label name[:10] stripped",
    "sequences are upper case and at least 1 long (an empty FASTA record is documented as an error of the strict parser; the bytes parser upper-cases, the line parsers do not, so lower case is outside 'identical records')",
    "PHYLIP and PAML are alignment formats: only equal-length sets are written in them; ragged sets use FASTA, GDE and JSON",
    "protein sequences use the 20 amino acids, X B Z, '-' and '?' ('*' is rejected by the protein moltype)",
    ".zip is exercised on the read side only (single member archive made by the harness with zipfile), as in the design",
    "chunks sub-check text excludes '~' (content based encoding detection is a separate root cause, exercised in the roundtrip and variants sub-checks) and uses \\n or \\r\\n line ends only (bare \\r line ends are not generated); chunk_size >= 1 (0 means 'no data' to file.read)",
    "GenBank locus names are [A-Za-z0-9_.]+ (whitespace delimited LOCUS line)",
    "failures of clauses that read FASTA through the bytes parser while a name contains '>' are reported under one signature .../fasta-bytes-parser[gt-in-name]; failures of clauses that open a file in text mode while a name contains '~{' (the HZ-GB-2312 escape that content based encoding detection reacts to) under .../text-mode-open[hz-escape-in-name]; failures on GenBank files with more than one record under genbank/multi-record-file: these circumstances have their own root causes",
]

SCRATCH = os.path.join(os.path.dirname(os.path.dirname(os.path.abspath(__file__))), ".scratch")

ALPHABETS = {
    "dna": ("ACGT", "NRYKMSWBDHV", "-?"),
    "rna": ("ACGU", "NRYKMSWBDHV", "-?"),
    "protein": ("ACDEFGHIKLMNPQRSTVWY", "XBZ", "-?"),
}
_WEIGHTED = [">", "|", ":", ";", ",", "(", ")", "[", "]", "'", '"', "#", "%", "=", " "]
SPECIAL_TOKENS = _WEIGHTED * 2 + [" ", "~{Qx~}", "~}", "~", "}", "{", "\\", "/", "*", "-", "_", ".", "@", "!", "&", "+", "<", "?", "^", "`", "$"]
ALNUM = "abcdefghijklmnopqrstuvwxyzABCDEFGHIJKLMNOPQRSTUVWXYZ0123456789"
FASTA_SUFFIXES = ["fasta", "fa", "mfa"]
TEXT_FORMATS = ["fasta", "phylip", "paml", "gde"]


# ------------------------------------------------------------------ strategies
@st.composite
def _name(draw):
    cls = draw(st.sampled_from(["short", "short", "edge", "long"]))
    target = {"short": draw(st.integers(1, 8)), "edge": draw(st.integers(9, 11)), "long": draw(st.integers(12, 20))}[cls]
    plain = draw(st.integers(0, 3)) == 0
    toks = draw(
        st.lists(
            st.sampled_from(list(ALNUM)) if plain else st.one_of(st.sampled_from(SPECIAL_TOKENS), st.sampled_from(list(ALNUM)), st.sampled_from(list(ALNUM))),
            min_size=target,
            max_size=target,
        )
    )
    name = "".join(toks)[:target]
    if name[0] == " ":
        name = "x" + name[1:]
    if name[-1] == " ":
        name = name[:-1] + "x"
    return name


def _names(n):
    return st.lists(_name(), min_size=n, max_size=n, unique_by=(lambda x: x, lambda x: x[:9].strip()))


def _seq(draw, mt, length):
    canon, degen, gaps = ALPHABETS[mt]
    style = draw(st.sampled_from(["canon", "mixed", "gappy"]))
    if style == "canon":
        alpha = canon
    elif style == "mixed":
        alpha = canon * 3 + degen + gaps[0]
    else:
        alpha = canon + gaps[0] * (len(canon) // 2) + gaps
    return draw(st.text(alphabet=alpha, min_size=length, max_size=length))


def _length(draw, width):
    kind = draw(st.sampled_from(["tiny", "label", "wrap", "block", "random"]))
    if kind == "tiny":
        return draw(st.integers(1, 3))
    if kind == "label":
        return draw(st.integers(9, 11))
    if kind == "wrap":
        return draw(st.sampled_from([59, 60, 61, 119, 120, 121]))
    if kind == "block":
        return max(1, width * draw(st.integers(1, 4)) + draw(st.integers(-1, 1)))
    return draw(st.integers(1, 300))


@st.composite
def set_cases(draw):
    mt = draw(st.sampled_from(["dna", "dna", "rna", "protein"]))
    n = draw(st.sampled_from([1, 2, 2, 3, 3, 4, 5, 6]))
    names = draw(_names(n))
    block_size = draw(st.sampled_from([None, None, None, 7, 10, 50, 60, 61, 100]))
    width = block_size or 60
    aligned = draw(st.integers(0, 3)) > 0
    if aligned:
        L = _length(draw, width)
        seqs = [_seq(draw, mt, L) for _ in range(n)]
        kind = draw(st.sampled_from(["array", "aln", "coll", "newcoll"]))
    else:
        seqs = [_seq(draw, mt, _length(draw, width)) for _ in range(n)]
        kind = draw(st.sampled_from(["coll", "newcoll"]))
    suffixes = {f: draw(st.sampled_from(["", "", ".gz", ".bz2", ".zip"])) for f in TEXT_FORMATS + ["json"]}
    return {
        "moltype": mt,
        "names": names,
        "seqs": seqs,
        "kind": kind,
        "block_size": block_size,
        "suffix": suffixes,
        "fasta_suffix": draw(st.sampled_from(FASTA_SUFFIXES)),
    }


@st.composite
def variant_cases(draw):
    mt = draw(st.sampled_from(["dna", "dna", "rna", "protein"]))
    fmt = draw(st.sampled_from(["fasta", "gde", "phylip-seq", "phylip-int", "paml"]))
    n = draw(st.sampled_from([1, 2, 2, 3, 3, 4, 5]))
    names = draw(st.lists(_name(), min_size=n, max_size=n, unique_by=(lambda x: x, lambda x: x[:10].strip())))
    width = draw(st.sampled_from([60, 60, 10, 10, 7, 1, 50, 61, 70, 80, 100]))
    aligned = fmt in ("phylip-seq", "phylip-int", "paml") or draw(st.booleans())
    if aligned:
        L = _length(draw, width)
        seqs = [_seq(draw, mt, L) for _ in range(n)]
    else:
        seqs = [_seq(draw, mt, _length(draw, width)) for _ in range(n)]
    return {
        "moltype": mt,
        "fmt": fmt,
        "names": names,
        "seqs": seqs,
        "width": width,
        "crlf": draw(st.integers(0, 3)) == 0,
        "final_nl": draw(st.integers(0, 3)) > 0,
        "blank_between": draw(st.integers(0, 2)) == 0,
        "space_blocks": draw(st.integers(0, 2)) == 0,
        "suffix": draw(st.sampled_from(["", "", ".gz", ".bz2", ".zip"])),
    }


_LINE_ALPHA = "".join(chr(c) for c in range(0x20, 0x7F) if chr(c) != "~")


@st.composite
def chunk_cases(draw):
    big = draw(st.integers(0, 4)) == 0
    nlines = draw(st.integers(12, 40)) if big else draw(st.integers(0, 8))
    maxlen = 70 if big else 12
    lines = draw(
        st.lists(
            st.one_of(st.just(""), st.text(alphabet=_LINE_ALPHA, min_size=0, max_size=maxlen), st.text(alphabet="ACGT-", min_size=1, max_size=maxlen)),
            min_size=nlines,
            max_size=nlines,
        )
    )
    return {
        "lines": lines,
        "crlf": draw(st.integers(0, 3)) == 0,
        "final_nl": draw(st.integers(0, 3)) > 0,
        "suffix": draw(st.sampled_from(["", "", "", ".gz", ".bz2"])),
        "ext": draw(st.sampled_from(["txt", "fasta", "phylip"])),
        "num_lines": draw(st.integers(1, 6)),
    }


@st.composite
def genbank_cases(draw):
    n = draw(st.sampled_from([1, 1, 1, 1, 2, 3]))
    loci = draw(st.lists(st.text(alphabet=ALNUM + "_.", min_size=1, max_size=14), min_size=n, max_size=n, unique=True))
    recs = []
    for locus in loci:
        mt = draw(st.sampled_from(["DNA", "DNA", "RNA", "mRNA"]))
        L = draw(st.sampled_from([1, 9, 10, 11, 59, 60, 61, 119, 120, 121])) if draw(st.booleans()) else draw(st.integers(1, 250))
        alpha = "acgtn" if mt == "DNA" else "acgun"
        seq = draw(st.text(alphabet=alpha, min_size=L, max_size=L))
        feats = []
        for _ in range(draw(st.integers(0, 2))):
            a = draw(st.integers(1, L))
            b = draw(st.integers(a, L))
            feats.append([draw(st.sampled_from(["gene", "CDS", "misc_feature"])), a, b, draw(st.booleans())])
        recs.append(
            {
                "locus": locus,
                "mol": mt,
                "seq": seq,
                "feats": feats,
                "definition": draw(st.booleans()),
                "source": draw(st.booleans()),
                "topology": draw(st.sampled_from(["linear", "circular"])),
            }
        )
    return {"records": recs, "suffix": draw(st.sampled_from(["", "", ".gz"])), "ext": draw(st.sampled_from(["gb", "gbk", "genbank"]))}


# ------------------------------------------------------------------- helpers
def _tmpdir():
    """per-case scratch directory; memory backed when available (thousands of small files and atomic-write
    temporary directories per run make a journalled disk the bottleneck)"""
    if os.path.isdir("/dev/shm") and os.access("/dev/shm", os.W_OK):
        return tempfile.mkdtemp(prefix="verif_c06.", dir="/dev/shm")
    os.makedirs(SCRATCH, exist_ok=True)
    return tempfile.mkdtemp(prefix="c06.", dir=SCRATCH)


def _read_raw(path: str) -> bytes:
    """bytes of a file written by cogent3, decompressed with the standard library"""
    if path.endswith(".gz"):
        with gzip.open(path, "rb") as f:
            return f.read()
    if path.endswith(".bz2"):
        with bz2.open(path, "rb") as f:
            return f.read()
    with open(path, "rb") as f:
        return f.read()


def _write_raw(path: str, data: bytes):
    if path.endswith(".gz"):
        with gzip.open(path, "wb") as f:
            f.write(data)
    elif path.endswith(".bz2"):
        with bz2.open(path, "wb") as f:
            f.write(data)
    elif path.endswith(".zip"):
        member = os.path.basename(path)[: -len(".zip")]
        with zipfile.ZipFile(path, "w") as z:
            z.writestr(member, data)
    else:
        with open(path, "wb") as f:
            f.write(data)


_HZ = re.compile(r"~\{")


class _Clause:
    """one clause evaluated on one case.  ``collapsed`` is set when the case lies in a circumstance with its own
    root cause (a '>' inside a FASTA name read by the bytes parser; '~{' inside a name of a file opened in text mode):
    every failure of the clause is then reported under that one signature."""

    def __init__(self, s: Soft, sig: str, collapsed=None):
        self.s, self.sig, self.collapsed = s, sig, collapsed

    def call(self, fn):
        if self.collapsed is None:
            return self.s.call(self.sig, fn)
        try:
            return True, fn()
        except Exception as e:  # noqa: BLE001
            if not raised_in_repo(e):
                raise
            self.s.fail(self.collapsed, f"{self.sig}: {type(e).__name__}: {e}")
            return False, e

    def eq(self, got, want, part, what):
        if self.collapsed is None:
            return self.s.eq(got, want, f"{self.sig}/{part}", what)
        return self.s.eq(got, want, self.collapsed, f"{self.sig}/{part} {what}")


def _clause(s: Soft, sub: str, sig: str, names, reads: str) -> _Clause:
    """reads: 'fasta-bytes' (goes through iter_fasta_records on bytes), 'text-open' (file opened in text mode by
    cogent3.util.io.open_), 'memory' (lines handed over by the harness)"""
    collapsed = None
    if reads == "fasta-bytes" and any(">" in n for n in names):
        collapsed = f"{sub}/fasta-bytes-parser[gt-in-name]"
    elif reads == "text-open" and any(_HZ.search(n) for n in names):
        collapsed = f"{sub}/text-mode-open[hz-escape-in-name]"
    return _Clause(s, sig, collapsed)


def _records(fn, *args, **kw):
    return [(str(a), str(b)) for a, b in fn(*args, **kw)]


def _special(name: str) -> bool:
    return any(not c.isalnum() for c in name)


def _near(length: int, width: int) -> bool:
    return length >= width - 1 and min(length % width, width - length % width) <= 1


def _set_classes(s: Soft, names, seqs, mt, width):
    s.cls(mt, f"records={min(len(names), 4)}{'+' if len(names) >= 4 else ''}")
    if any(_special(n) for n in names):
        s.cls("special-char-name")
    if any(" " in n for n in names):
        s.cls("blank-in-name")
    if any(">" in n for n in names):
        s.cls("gt-in-name")
    if any(_HZ.search(n) for n in names):
        s.cls("hz-escape-in-name")
    if any(len(n) in (9, 10, 11) for n in names):
        s.cls("name-len-9..11")
    if any(len(n) > 11 for n in names):
        s.cls("name-len>11")
    if any(_near(len(q), width) for q in seqs):
        s.cls("len-at-line-boundary")
    if any(len(q) % width == 0 for q in seqs):
        s.cls("len-multiple-of-width")
    if any(_near(len(q), 10) for q in seqs):
        s.cls("len-at-10col-boundary")
    if any("-" in q for q in seqs):
        s.cls("gapped")
    if len({len(q) for q in seqs}) > 1:
        s.cls("ragged")
    if max(len(q) for q in seqs) <= 3:
        s.cls("tiny-seqs")
    boundary = any(_near(len(q), width) or _near(len(q), 10) for q in seqs)
    return len(names) >= 2 and (any(_special(n) for n in names) or boundary)


def _parser_differential(s: Soft, fmt, sub, pre, names, text, path, want, evals):
    """every parser entry point of ``fmt`` on the same well-formed text"""
    from cogent3.parse import fasta as pfasta
    from cogent3.parse.sequence import PARSERS, LineBasedParser, get_parser

    lines = text.splitlines()
    entries = []
    if fmt == "fasta":
        entries += [
            ("iter_fasta_records(bytes)", "fasta-bytes", lambda: _records(pfasta.iter_fasta_records, text.encode("ascii"))),
            ("iter_fasta_records(list)", "memory", lambda: _records(pfasta.iter_fasta_records, list(lines))),
            ("MinimalFastaParser(list,strict)", "memory", lambda: _records(pfasta.MinimalFastaParser, list(lines), strict=True)),
            ("MinimalFastaParser(list,non-strict)", "memory", lambda: _records(pfasta.MinimalFastaParser, list(lines), strict=False)),
            ("MinimalFastaParser(tuple,strict)", "memory", lambda: _records(pfasta.MinimalFastaParser, tuple(lines), strict=True)),
            ("LineBasedParser(MinimalFastaParser)(list)", "memory", lambda: _records(LineBasedParser(pfasta.MinimalFastaParser), list(lines))),
        ]
        if path is not None:
            entries += [
                ("iter_fasta_records(str-path)", "fasta-bytes", lambda: _records(pfasta.iter_fasta_records, path)),
                ("iter_fasta_records(Path)", "fasta-bytes", lambda: _records(pfasta.iter_fasta_records, pathlib.Path(path))),
                ("get_parser(fasta)(str-path)", "fasta-bytes", lambda: _records(get_parser("fasta"), path)),
                ("MinimalFastaParser(str-path,strict)", "text-open", lambda: _records(pfasta.MinimalFastaParser, path, strict=True)),
                ("MinimalFastaParser(Path,non-strict)", "text-open", lambda: _records(pfasta.MinimalFastaParser, pathlib.Path(path), strict=False)),
                ("LineBasedParser(MinimalFastaParser)(str-path)", "text-open", lambda: _records(LineBasedParser(pfasta.MinimalFastaParser), path)),
                ("LineBasedParser(MinimalFastaParser)(Path)", "text-open", lambda: _records(LineBasedParser(pfasta.MinimalFastaParser), pathlib.Path(path))),
            ]
    else:
        p = PARSERS[fmt]
        entries += [
            (f"PARSERS[{fmt}](list)", "memory", lambda: _records(p, list(lines))),
            (f"PARSERS[{fmt}](tuple)", "memory", lambda: _records(p, tuple(lines))),
        ]
        if path is not None:
            entries += [
                (f"PARSERS[{fmt}](str-path)", "text-open", lambda: _records(p, path)),
                (f"PARSERS[{fmt}](Path)", "text-open", lambda: _records(p, pathlib.Path(path))),
            ]
        if fmt == "gde":
            entries += [
                ("MinimalGdeParser(list,non-strict)", "memory", lambda: _records(pfasta.MinimalGdeParser, list(lines), strict=False)),
                ("MinimalGdeParser(list,strict)", "memory", lambda: _records(pfasta.MinimalGdeParser, list(lines), strict=True)),
            ]
    for label, reads, fn in entries:
        evals[0] += 1
        c = _clause(s, sub, f"{pre}/parse/{label}", names, reads)
        ok, got = c.call(fn)
        if ok and c.eq([r[0] for r in got], [r[0] for r in want], "labels", f"{label} on {text[:120]!r}"):
            c.eq([r[1] for r in got], [r[1] for r in want], "seqs", f"{label} on {text[:120]!r}")


def _load(kind, path, mt):
    from cogent3 import load_aligned_seqs, load_unaligned_seqs

    if kind == "array":
        return load_aligned_seqs(path, moltype=mt, array_align=True)
    if kind == "aln":
        return load_aligned_seqs(path, moltype=mt, array_align=False)
    if kind == "coll":
        return load_unaligned_seqs(path, moltype=mt)
    return load_unaligned_seqs(path, moltype=mt, new_type=True)


def _check_loaded(c: _Clause, obj, want, what):
    ok, got = c.call(lambda: (list(obj.names), dict(obj.to_dict())))
    if not ok:
        return
    names, d = got
    if c.eq([str(n) for n in names], [w[0] for w in want], "names", what):
        c.eq([str(d.get(n)) for n in names], [w[1] for w in want], "seqs", what)


def _reads(fmt):
    return "fasta-bytes" if fmt == "fasta" else "text-open"


# ------------------------------------------------------------ sub: roundtrip
def exec_roundtrip(case) -> Soft:
    s = Soft("C06/")
    root = _tmpdir()
    try:
        _roundtrip(s, case, root)
    finally:
        shutil.rmtree(root, ignore_errors=True)
    return s


def _roundtrip(s: Soft, case, root):
    from cogent3 import load_seq, make_aligned_seqs, make_unaligned_seqs

    mt, names, seqs, kind = case["moltype"], case["names"], case["seqs"], case["kind"]
    bs = case["block_size"]
    width = bs or 60
    data = dict(zip(names, seqs))
    ragged = len({len(q) for q in seqs}) > 1
    makers = {
        "array": lambda: make_aligned_seqs(data, moltype=mt, array_align=True),
        "aln": lambda: make_aligned_seqs(data, moltype=mt, array_align=False),
        "coll": lambda: make_unaligned_seqs(data, moltype=mt),
        "newcoll": lambda: make_unaligned_seqs(data, moltype=mt, new_type=True),
    }
    s.nontrivial = _set_classes(s, names, seqs, mt, width)
    s.cls(f"kind={kind}", f"block_size={bs}")
    ok, obj = s.call(f"construct/{kind}", makers[kind])
    if not ok:
        return
    formats = ["fasta", "gde", "json"] if ragged else ["fasta", "phylip", "paml", "gde", "json"]
    evals = [0]
    for fmt in formats:
        sfx = case["suffix"][fmt]
        ext = case["fasta_suffix"] if fmt == "fasta" else fmt
        pre = f"roundtrip/{fmt}"
        s.cls(f"fmt={fmt}", f"suffix={sfx or 'plain'}")
        want = [(n[:9].strip() if fmt == "phylip" else n, q) for n, q in zip(names, seqs)]
        # .zip archives are produced by the harness from the plain file written by cogent3
        wsfx = "" if sfx == ".zip" else sfx
        wpath = os.path.join(root, f"w_{fmt}.{ext}{wsfx}")
        kw = {"block_size": bs} if (bs and fmt != "json") else {}
        evals[0] += 1
        ok, _ = s.call(f"{pre}/write/{kind}", lambda: obj.write(wpath, **kw))
        if not ok:
            continue
        if not os.path.exists(wpath):
            s.fail(f"{pre}/write/{kind}/no-file", f"{wpath} was not created")
            continue
        raw = _read_raw(wpath)
        if sfx == ".zip":
            path = os.path.join(root, f"z_{fmt}.{ext}.zip")
            _write_raw(path, raw)
        else:
            path = wpath
        # (a) the loaders
        what = f"{kind} written as {fmt}{sfx} block_size={bs}; names {names!r}"
        evals[0] += 1
        if fmt == "json" and kind == "newcoll" and not any(_HZ.search(n) for n in names):
            # own signature: the loader's class filter is a root cause of its own
            c = _Clause(s, f"{pre}/load/{kind}")
        else:
            c = _clause(s, "roundtrip", f"{pre}/load/{kind}", names, _reads(fmt))
        ok, back = c.call(lambda: _load(kind, path, mt))
        if ok:
            _check_loaded(c, back, want, what)
        elif fmt == "json" and kind == "newcoll":
            # content of the file, independent of the loader's class filter
            import json as _json

            from cogent3.util.deserialise import deserialise_object

            c = _Clause(s, f"{pre}/deserialise/{kind}")
            ok, back = c.call(lambda: deserialise_object(_json.loads(raw.decode("ascii"))))
            if ok:
                _check_loaded(c, back, want, what)
        if fmt == "json":
            continue
        # a second class reads the same file: the file content does not depend on the writer class
        other = {"array": "coll", "aln": "array", "coll": "newcoll", "newcoll": "coll"}[kind]
        if ragged and other in ("array", "aln"):
            other = "coll"
        evals[0] += 1
        c = _clause(s, "roundtrip", f"{pre}/load/{other}", names, _reads(fmt))
        ok, back = c.call(lambda: _load(other, path, mt))
        if ok:
            _check_loaded(c, back, want, what)
        evals[0] += 1
        c = _clause(s, "roundtrip", f"{pre}/load_seq", names, _reads(fmt))
        ok, one = c.call(lambda: load_seq(path, moltype=mt))
        if ok:
            ok, got = c.call(lambda: (str(one.name), str(one)))
            if ok:
                c.eq(got, want[0], "first-record", what)
        # (b) parser differential on the written text
        try:
            text = raw.decode("ascii")
        except UnicodeDecodeError:
            s.fail(f"{pre}/write/{kind}/non-ascii-output", repr(raw[:80]))
            continue
        _parser_differential(s, fmt, "roundtrip", pre, names, text, path, want, evals)
    s.evals = evals[0]


# ------------------------------------------------------------- sub: variants
def _wrap(seq, width):
    return [seq[i : i + width] for i in range(0, len(seq), width)]


def _spaced(chunk):
    return " ".join(chunk[i : i + 10] for i in range(0, len(chunk), 10))


def layout(case):
    """well-formed text of the set in the requested layout, plus the expected records"""
    fmt, names, seqs, w = case["fmt"], case["names"], case["seqs"], case["width"]
    lines = []
    want = list(zip(names, seqs))
    blank = case["blank_between"]
    if fmt in ("fasta", "gde"):
        mark = ">" if fmt == "fasta" else "%"
        for n, q in want:
            lines.append(mark + n)
            lines.extend(_wrap(q, w))
            if blank:
                lines.append("")
    elif fmt == "paml":
        lines.append(f"{len(names)}  {len(seqs[0])}")
        for n, q in want:
            lines.append(n)
            lines.extend(_wrap(q, w))
            if blank:
                lines.append("")
    else:
        sp = _spaced if case["space_blocks"] else (lambda x: x)
        want = [(n[:10].strip(), q) for n, q in want]
        L = len(seqs[0])
        if fmt == "phylip-seq":
            lines.append(f" {len(names)} {L}")
            for n, q in zip(names, seqs):
                for i, chunk in enumerate(_wrap(q, w)):
                    lines.append((n[:10].ljust(10) if i == 0 else " " * 10) + sp(chunk))
        else:
            lines.append(f" {len(names)} {L} I")
            blocks = [_wrap(q, w) for q in seqs]
            for b in range(len(blocks[0])):
                if b:
                    lines.append("")
                for n, chunks in zip(names, blocks):
                    lines.append((n[:10].ljust(10) if b == 0 else "") + sp(chunks[b]))
    nl = "\r\n" if case["crlf"] else "\n"
    text = nl.join(lines) + (nl if case["final_nl"] else "")
    return text, want


def exec_variants(case) -> Soft:
    s = Soft("C06/")
    root = _tmpdir()
    try:
        _variants(s, case, root)
    finally:
        shutil.rmtree(root, ignore_errors=True)
    return s


def _variants(s: Soft, case, root):
    fmt, names, seqs, mt = case["fmt"], case["names"], case["seqs"], case["moltype"]
    text, want = layout(case)
    base = fmt.split("-")[0]
    pre = f"variants/{fmt}"
    path = os.path.join(root, f"v.{base}{case['suffix']}")
    _write_raw(path, text.encode("ascii"))
    s.nontrivial = _set_classes(s, names, seqs, mt, case["width"])
    s.cls(f"layout={fmt}", f"suffix={case['suffix'] or 'plain'}", f"width={case['width']}")
    for flag in ("crlf", "final_nl", "blank_between"):
        if case[flag]:
            s.cls(flag)
    if fmt.startswith("phylip") and case["space_blocks"]:
        s.cls("10-column-blocks")
    evals = [0]
    # the text handed to list/bytes based parsers keeps its line ends in the bytes form only
    _parser_differential(s, base, "variants", pre, names, text, path, want, evals)
    ragged = len({len(q) for q in seqs}) > 1
    what = f"harness-written {fmt} {text[:160]!r}"
    for kind in ("coll", "newcoll") if ragged else ("array", "aln", "coll"):
        evals[0] += 1
        c = _clause(s, "variants", f"{pre}/load/{kind}", names, _reads(base))
        ok, back = c.call(lambda: _load(kind, path, mt))
        if ok:
            _check_loaded(c, back, want, what)
    s.evals = evals[0]


# --------------------------------------------------------------- sub: chunks
def exec_chunks(case) -> Soft:
    s = Soft("C06/")
    root = _tmpdir()
    try:
        _chunks(s, case, root)
    finally:
        shutil.rmtree(root, ignore_errors=True)
    return s


def _chunks(s: Soft, case, root):
    from cogent3.util.io import iter_line_blocks, iter_splitlines

    nl = "\r\n" if case["crlf"] else "\n"
    text = nl.join(case["lines"]) + (nl if case["final_nl"] and case["lines"] else "")
    seen = text.replace("\r\n", "\n")  # what a text-mode read returns
    want = seen.splitlines()
    path = os.path.join(root, f"c.{case['ext']}{case['suffix']}")
    _write_raw(path, text.encode("ascii"))
    n = len(seen)
    if n <= 150:
        ks = list(range(1, n + 3))
        s.cls("every-chunk-size")
    else:
        ends, pos = set(), 0
        for line in seen.split("\n"):
            pos += len(line) + 1
            ends.update((pos - 1, pos, pos + 1))
        ks = sorted(k for k in ends | {1, 2, 3, n - 1, n, n + 1, n + 2} if 1 <= k <= n + 2)
        if len(ks) > 90:
            step = len(ks) / 90.0
            ks = sorted({ks[int(i * step)] for i in range(90)})
        s.cls("boundary-chunk-sizes")
    s.cls(f"suffix={case['suffix'] or 'plain'}", "crlf" if case["crlf"] else "lf")
    if "" in case["lines"]:
        s.cls("empty-line")
    if not case["final_nl"]:
        s.cls("no-final-newline")
    if not want:
        s.cls("empty-file")
    evals = 0
    for k in ks:
        evals += 1
        ok, got = s.call("chunks/iter_splitlines", lambda: list(iter_splitlines(path, chunk_size=k)))
        if ok and not s.eq(got, want, "chunks/iter_splitlines/lines", f"chunk_size={k} text {seen[:200]!r}"):
            break
    evals += 1
    ok, got = s.call("chunks/iter_splitlines/default", lambda: list(iter_splitlines(pathlib.Path(path))))
    if ok:
        s.eq(got, want, "chunks/iter_splitlines/default/lines", f"default chunk_size, text {seen[:200]!r}")
    m = case["num_lines"]
    for k in [ks[0], ks[len(ks) // 2], ks[-1], None]:
        evals += 1
        ok, blocks = s.call("chunks/iter_line_blocks", lambda: [list(b) for b in iter_line_blocks(path, num_lines=m, chunk_size=k)])
        if ok:
            s.eq([x for b in blocks for x in b], want, "chunks/iter_line_blocks/concatenation", f"num_lines={m} chunk_size={k} text {seen[:200]!r}")
            s.check(all(len(b) == m for b in blocks[:-1]) and all(1 <= len(b) <= m for b in blocks[-1:]), "chunks/iter_line_blocks/block-sizes", f"num_lines={m} chunk_size={k}: {[len(b) for b in blocks]}")
    evals += 1
    ok, blocks = s.call("chunks/iter_line_blocks", lambda: [list(b) for b in iter_line_blocks(path, num_lines=None, chunk_size=ks[0])])
    if ok:
        s.eq(blocks, [want] if want else [], "chunks/iter_line_blocks/num_lines=None", f"text {seen[:200]!r}")
    s.evals = evals
    s.nontrivial = len(want) >= 2 and n > 2


# -------------------------------------------------------------- sub: genbank
def genbank_text(rec) -> str:
    L = len(rec["seq"])
    unit = "aa" if rec["mol"] == "protein" else "bp"
    out = ["LOCUS       %-16s %7d %s    %-6s  %-8s BCT 01-JAN-2000" % (rec["locus"], L, unit, rec["mol"], rec["topology"])]
    if rec["definition"]:
        out.append("DEFINITION  generated record %s, complete" % rec["locus"])
        out.append("            sequence.")
    out.append("ACCESSION   %s" % rec["locus"])
    out.append("VERSION     %s.1" % rec["locus"])
    out.append("KEYWORDS    .")
    if rec["source"]:
        out.append("SOURCE      Escherichia coli")
        out.append("  ORGANISM  Escherichia coli")
        out.append("            Bacteria; Proteobacteria; Gammaproteobacteria.")
    out.append("FEATURES             Location/Qualifiers")
    out.append("     %-16s%s" % ("source", f"1..{L}"))
    out.append('                     /organism="Escherichia coli"')
    out.append('                     /mol_type="genomic %s"' % ("RNA" if "RNA" in rec["mol"] else "DNA"))
    for i, (kind, a, b, minus) in enumerate(rec["feats"]):
        loc = f"{a}..{b}"
        out.append("     %-16s%s" % (kind, f"complement({loc})" if minus else loc))
        out.append(f'                     /gene="g{i}"')
        if kind == "CDS":
            out.append(f'                     /product="hypothetical protein {i}"')
    out.append("ORIGIN")
    seq = rec["seq"]
    for i in range(0, L, 60):
        chunk = seq[i : i + 60]
        out.append("%9d %s" % (i + 1, " ".join(chunk[j : j + 10] for j in range(0, len(chunk), 10))))
    out.append("//")
    return "\n".join(out) + "\n"


def exec_genbank(case) -> Soft:
    s = Soft("C06/")
    root = _tmpdir()
    try:
        _genbank(s, case, root)
    finally:
        shutil.rmtree(root, ignore_errors=True)
    return s


def _genbank(s: Soft, case, root):
    from cogent3 import load_seq, load_unaligned_seqs
    from cogent3.parse import genbank

    recs = case["records"]
    text = "".join(genbank_text(r) for r in recs)
    path = os.path.join(root, f"g.{case['ext']}{case['suffix']}")
    _write_raw(path, text.encode("ascii"))
    want = [(r["locus"], r["seq"].upper()) for r in recs]
    what = f"generated GenBank text {text[:200]!r}"
    s.cls(f"records={len(recs)}", f"suffix={case['suffix'] or 'plain'}")
    if any(len(r["seq"]) % 60 == 0 for r in recs):
        s.cls("len-multiple-of-60")
    if any(len(r["seq"]) % 10 == 0 for r in recs):
        s.cls("len-multiple-of-10")
    if any(r["feats"] for r in recs):
        s.cls("has-features")
    if any(not r["source"] for r in recs):
        s.cls("no-source-block")
    evals = 0
    # a file with more than one record is a circumstance with its own root cause: one signature for all entry points
    multi = "genbank/multi-record-file" if len(recs) > 1 else None
    sources = [("bytes", lambda: text.encode("ascii")), ("str-path", lambda: path), ("Path", lambda: pathlib.Path(path))]
    for label, src in sources:
        for full in (True, False):
            evals += 1
            c = _Clause(s, f"genbank/minimal_parser({label},{'metadata' if full else 'no-metadata'})", multi)
            kw = {} if full else {"convert_features": None}
            ok, got = c.call(lambda: [dict(r) for r in genbank.minimal_parser(src(), **kw)])
            if not ok:
                continue
            if c.eq([str(r.get("locus")) for r in got], [w[0] for w in want], "locus", what):
                c.eq([str(r.get("sequence")) for r in got], [w[1] for w in want], "sequence", what)
                if full:
                    c.eq([r.get("length") for r in got], [len(w[1]) for w in want], "length-field", what)
                    c.eq([r.get("mol_type") for r in got], [r["mol"] for r in recs], "mol_type-field", what)
                    c.eq([len(r.get("features", [])) for r in got], [1 + len(r["feats"]) for r in recs], "feature-count", what)
        if label == "bytes":
            continue
        for just_seq in (False, True):
            evals += 1
            c = _Clause(s, f"genbank/rich_parser({label},just_seq={just_seq})", multi)
            ok, got = c.call(lambda: [(str(n), str(q)) for n, q in genbank.rich_parser(src(), just_seq=just_seq)])
            if ok and c.eq([g[0] for g in got], [w[0] for w in want], "locus", what):
                c.eq([g[1] for g in got], [w[1] for w in want], "sequence", what)
    evals += 2
    c = _Clause(s, "genbank/load_unaligned_seqs", multi)
    ok, coll = c.call(lambda: load_unaligned_seqs(path, moltype="text"))
    if ok:
        _check_loaded(c, coll, want, what)
    c = _Clause(s, "genbank/load_seq", multi)
    ok, one = c.call(lambda: load_seq(path, moltype="text"))
    if ok:
        ok, got = c.call(lambda: (str(one.name), str(one)))
        if ok:
            c.eq(got, want[0], "first-record", what)
    s.evals = evals
    s.nontrivial = len(recs) >= 2 or any(len(r["seq"]) % 10 == 0 or r["feats"] for r in recs)


SUBS = [
    Sub("roundtrip", exec_roundtrip, strategy=set_cases(), quick=1600, thorough=160_000, shards_quick=16),
    Sub("variants", exec_variants, strategy=variant_cases(), quick=1600, thorough=160_000, shards_quick=8),
    Sub("chunks", exec_chunks, strategy=chunk_cases(), quick=800, thorough=80_000, shards_quick=8),
    Sub("genbank", exec_genbank, strategy=genbank_cases(), quick=400, thorough=40_000, shards_quick=4),
]

KNOWN_PREDICATES = {}

# thorough tier: coverage-guided campaigns (atheris/libFuzzer mutating the bytes Hypothesis draws from)
FUZZ = {
    "subs": ['chunks', 'genbank'],  # roundtrip/variants cases need more than the 8 KB of choices fuzz_one_input accepts
    "targets": ['cogent3.parse', 'cogent3.format', 'cogent3.util.io'],
    "execs_thorough": 40_000, "jobs_thorough": 4, "execs_quick": 1000, "jobs_quick": 2,
}

META = {
    "technique": "Hypothesis-generated name/sequence sets; write->load round trip against the generated set, differential between all parser entry points of a format on identical text (cogent3-written and harness-written layouts), chunked line streaming against str.splitlines",
    "level_text": "Each run writes about 1 600 generated sets (names weighted towards FASTA/PHYLIP/Newick metacharacters, lengths around the wrap width and the PHYLIP label field) in all five formats with plain/gz/bz2/zip suffixes through four collection classes, loads them back and feeds the written text to every parser entry point (bytes, list, tuple, str path, Path; strict and non-strict); a further 1 600 sets are laid out by the harness itself (other widths, CRLF, blank lines, interleaved PHYLIP) and 800 line lists are streamed with every chunk size.",
    "level_note": "Exploration only: no coverage-guided byte-level fuzzing of the parsers (the design's atheris part is left out); Clustal/MSF/Nexus/XMFA parsers are not exercised; .zip only on the read side; lower-case and empty sequences are outside the domain.",
    "design_ref": "DESIGN.md section 1, C06",
}
