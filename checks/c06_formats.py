"""C06 — sequence file formats round-trip and all parsers of a format agree.

Oracle: the generated (names, sequences) lists are the model.  (a) every
collection class writes the set in every applicable format (plain, .gz, .bz2,
and a harness-made .zip on the read side) and the loaders must give back the
model; (b) every parser entry point of the format, fed the written text as
bytes / list / tuple / str path / Path, must yield the model records; the same
on harness-written well-formed layouts (other line widths, CRLF, blank lines,
interleaved PHYLIP); (c) ``iter_splitlines`` must equal ``str.splitlines`` of
the text for every chunk size; (d) generated minimal GenBank records parse to
the generated locus names and sequences with both GenBank parsers (nucleotide
and protein records); (e) zipwrite: cogent3 itself writes ``<name>.<format>.zip``
(every format of the set, and a small tree): the archive must be sound, hold one
member equal to the plain write, nothing else may be left in the directory, and
the loaders / path based parsers must give back the model (a refusal must at
least leave nothing behind); (f) chunkparse: ``iter_splitlines(path, chunk_size=k)``
is fed to the line parsers for every k and the records must equal the whole-file
parse (and the model); (g) entrypoints: the record-object and label-callback
FASTA entry points (FastaParser, NcbiFastaParser, GroupFastaParser, text handles,
``label_to_name=``) against the generated labels; (h) zero-length records (sets of
the unaligned classes, FASTA / GDE / JSON; harness-written FASTA / GDE; the plain
entry points): the library's own writer + loader must not lose a named sequence
silently, the bytes FASTA parser must treat label-only records alike wherever they
stand, the line parsers behave as documented (strict: RecordError, non-strict:
skipped); lower-case residues in harness-written FASTA / GDE: the bytes parser
upper-cases, the line parsers keep the text (both documented).
"""

from __future__ import annotations

import bz2
import gzip
import os
import pathlib
import re
import shutil
import tempfile
import zipfile

from hypothesis import strategies as st

from vlib.core import Soft, Sub, raised_in_repo

PROPERTY_ID = "C06"
LEVEL = "exploration"
RULE = (
    "roundtrip sub-check: Hypothesis-generated name/sequence sets (1-6 records; names of printable ASCII built from tokens "
    "weighted towards > | : ; , ( ) [ ] ' \" # % = ~{ and blanks, lengths 1-8 / 9-11 / 12-20; DNA, RNA or protein with gaps and "
    "ambiguity codes; lengths drawn from 1, 2, 9-11, 59-61, 119-121, multiples of the block size +-1, or random <= 300; aligned "
    "or ragged), one collection class (ArrayAlignment, Alignment, SequenceCollection, new-type SequenceCollection), one "
    "compression suffix per format and an optional block_size; each case is written in every applicable format, loaded back, and "
    "the written text is fed to every parser entry point. variants sub-check: the same kind of sets laid out by the harness "
    "(line width, CRLF, blank lines, missing final newline, sequential/interleaved PHYLIP, 10-column blocks). chunks sub-check: "
    "generated line lists (empty lines, CRLF, optional final newline, optional compression) streamed with every chunk size "
    "1..len+2 (files <= 150 characters) or chunk sizes around every line boundary (larger files). genbank sub-check: generated "
    "minimal GenBank records (LOCUS/DEFINITION/SOURCE/FEATURES/ORIGIN). Non-trivial = at least 2 records and (a name with a "
    "non-alphanumeric character or a sequence length within +-1 of a multiple of the line width / the 10-column field); chunks: at "
    "least 2 lines and a chunk size smaller than the text; distinct = distinct (names, sequences, layout) tuples. "
    "zipwrite sub-check: the roundtrip kind of set is written by the collection itself to x.<format>.zip in every applicable "
    "format (and, one case in three, written a second time with the records reversed), a generated 3-6 tip tree to t.<nwk|tree|json|xml>.zip; "
    "directory content, archive soundness, single member == plain write, load-back through two collection classes, load_seq and the "
    "path based parsers. chunkparse sub-check: harness-laid-out FASTA / GDE / sequential and interleaved PHYLIP / PAML files of 1-4 "
    "records and sequence lengths <= 24 or around the line width, plain/gz/bz2/zip; every chunk size 1..len+2 (files <= 160 characters, "
    "else sizes around every line boundary) is streamed into MinimalFastaParser / MinimalGdeParser (strict and not), "
    "MinimalPhylipParser and PamlParser. entrypoints sub-check: FASTA text (plain names; NCBI 'gi|id|db|accession|description' "
    "labels with descriptions that may contain '|' and '>'; 'group:seqid:name' labels in contiguous groups) given as list, path and text "
    "handle to FastaParser (default and moltype seq_maker, MinimalInfo / NameLabelInfo, strict and not), NcbiFastaParser, "
    "GroupFastaParser (aligned or not, done_groups, default or given moltype) and to iter_fasta_records / MinimalFastaParser with four label_to_name callbacks. "
    "Zero-length records: one in three ragged roundtrip sets (SequenceCollection, new-type SequenceCollection), one in four unaligned FASTA / GDE variants layouts and one in six "
    "plain entrypoints texts get empty sequences at the first / a middle / the last position, at two of those, at a drawn subset or everywhere; such sets are written as FASTA, GDE "
    "and JSON only. Lower case: one in six FASTA / GDE variants layouts is lower-cased (wholly or residue by residue); parsers only, no loader clause."
)
ASSUMPTIONS = [
    "names are non-empty printable ASCII (0x20-0x7e) without leading/trailing blanks, unique, and unique after PHYLIP truncation",
    "PHYLIP: the cogent3 writer documents a 9 character label (padded to 10 columns); the expected label is name[:9] with a trailing blank left by the cut removed; harness-written PHYLIP uses the standard 10 column label field, expected label name[:10] stripped",
    "sequences are upper case and at least 1 long in every sub-check except where stated: zero-length sequences are generated for the unaligned classes in roundtrip (what aln.degap() gives for an all-gap row; make_unaligned_seqs accepts them) and for harness-written FASTA / GDE in variants and entrypoints (plain mode); lower case only in harness-written FASTA / GDE of variants",
    "zero-length records, what is asserted and why: (i) roundtrip: JSON must give the set back exactly; for FASTA and GDE the library's own writer + loader (load_unaligned_seqs through both unaligned classes, load_seq) must give back ALL names and sequences or refuse (RecordError / ValueError from the write or the load; GDE is loaded with the strict line parser and refuses): a named sequence silently missing after write+load contradicts 'returns the same names'; (ii) everything that reads FASTA through the bytes parser (iter_fasta_records on bytes / path / handle, get_parser('fasta'), the loaders on harness-written files) documents nothing about label-only records, so it may keep them all (empty sequence), drop them all, or raise RecordError, but must treat them alike whatever their position and the layout (CRLF, blank lines, missing final newline); (iii) the line parsers as documented and pinned by tests/test_parse/test_fasta.py (test_no_labels_strict, test_no_labels, test_multiple_bad_strict / _not_strict): strict (MinimalFastaParser / MinimalGdeParser strict=True, LineBasedParser, PARSERS['gde'], FastaParser strict) raises RecordError, non-strict (incl. iter_fasta_records on a list) yields exactly the records that have data. Agreement between the bytes and the line family on label-only records is NOT asserted (the strict parser documents them as malformed input)",
    "every failure of a clause that reads FASTA through the bytes parser while the set holds a zero-length record is reported under one signature per sub-check, .../fasta-bytes-parser[empty-record] (one root cause: a record without a line end inside its chunk is skipped, one with a line end is kept)",
    "lower case: minimal_converter documents 'coerces lower case bytes to upper case bytes', so the bytes FASTA family is expected to return the upper-cased sequence; the line parsers return the text verbatim (tests/test_parse/test_fasta.py::test_fasta_with_spaces pins lower case coming back from MinimalFastaParser, strict and not); what a collection class does with lower case is documented nowhere (old-type classes upper-case on construction, new-type ones keep what the parser hands them: FASTA upper, GDE / JSON verbatim), so the loaders are not run on lower-case layouts",
    "PHYLIP and PAML are alignment formats: only equal-length sets are written in them; ragged sets use FASTA, GDE and JSON",
    "protein sequences use the 20 amino acids, X B Z, '-' and '?' ('*' is rejected by the protein moltype)",
    "roundtrip/variants/chunks/chunkparse/entrypoints read .zip archives made by the harness with zipfile (single member named after the file); the zipwrite sub-check lets cogent3 write the archive: tests/test_util/test_io.py::test_writes_compressed_formats pins that atomic_write('<x>.zip', mode='wt') followed by open_ gives the text back, and that is the call every collection/tree writer makes, so a .zip destination must round-trip like .gz/.bz2; the member NAME is not asserted (the library's tests read namelist()[0]; cogent3 names it after its temporary file), only that there is exactly one member and that its bytes equal the plain write",
    "zipwrite: a write that raises is reported (signature .../seqs[text-format]/write or .../tree[newick-or-xml]/write: the four text formats share format.alignment.save_to_filename, json has its own branch) and must in any case leave the directory empty; the tree part is outside the statement proper (trees are not sequence collections) and is there because Tree.write goes through the same compression-aware open: its oracle is purely 'zipped == plain' (member bytes, load_tree(...).get_newick())",
    "chunkparse: the reference is the parse of str.splitlines() of the text as a text-mode read returns it; it is first compared with the model, then every chunk size with the reference",
    "entrypoints: FastaParser yields (name, seq object) with name from info_maker (MinimalInfo: the label; NameLabelInfo: first whitespace token, label kept in info.label); NcbiFastaLabelParser splits on the first four '|' and strips the fields (its docstring and tests): name = GI, info.GI == [gi], info[NcbiLabels[db]] == [accession], info.Description == rest; only the four db keys of NcbiLabels are generated; GroupFastaParser: groups are contiguous (a group id seen again later is appended to the CURRENT collection by the code, which nothing documents), member names unique inside a group, 'aligned: whether sequences are to be considered aligned' read as: aligned=False must accept ragged groups; 'done_groups: series of group keys to be excluded' read as: applies to every group; with the default moltype (text) only gap free sequences are generated because the letters-only alphabet of that moltype has no code for '-' (ArraySequence documents that it does not validate)",
    "GroupFastaParser circumstances with a root cause of their own get one signature each: [unaligned-ragged-nonlast-group] (every group but the last is built with make_aligned_seqs whatever ``aligned`` says) and [last-group-done] (the last group is yielded without consulting done_groups; evaluated in a call of its own)",
    "GenBank protein records are written like the nucleotide ones with 'aa' as unit and 'protein' in the molecule column (the value rich_parser looks for); real GenPept files leave that column empty, which the whitespace-split LOCUS parser is documented not to handle",
    "chunks sub-check text excludes '~' (content based encoding detection is a separate root cause, exercised in the roundtrip and variants sub-checks) and uses \\n or \\r\\n line ends only (bare \\r line ends are not generated); chunk_size >= 1 (0 means 'no data' to file.read)",
    "GenBank locus names are [A-Za-z0-9_.]+ (whitespace delimited LOCUS line)",
    "failures of clauses that read FASTA through the bytes parser while a name contains '>' are reported under one signature .../fasta-bytes-parser[gt-in-name]; failures of clauses that open a file in text mode while a name contains '~{' (the HZ-GB-2312 escape that content based encoding detection reacts to) under .../text-mode-open[hz-escape-in-name]; failures on GenBank files with more than one record under genbank/multi-record-file: these circumstances have their own root causes",
]

SCRATCH = os.path.join(os.path.dirname(os.path.dirname(os.path.abspath(__file__))), ".scratch")

ALPHABETS = {
    "dna": ("ACGT", "NRYKMSWBDHV", "-?"),
    "rna": ("ACGU", "NRYKMSWBDHV", "-?"),
    "protein": ("ACDEFGHIKLMNPQRSTVWY", "XBZ", "-?"),
}
_WEIGHTED = [">", "|", ":", ";", ",", "(", ")", "[", "]", "'", '"', "#", "%", "=", " "]
SPECIAL_TOKENS = _WEIGHTED * 2 + [" ", "~{Qx~}", "~}", "~", "}", "{", "\\", "/", "*", "-", "_", ".", "@", "!", "&", "+", "<", "?", "^", "`", "$"]
ALNUM = "abcdefghijklmnopqrstuvwxyzABCDEFGHIJKLMNOPQRSTUVWXYZ0123456789"
FASTA_SUFFIXES = ["fasta", "fa", "mfa"]
TEXT_FORMATS = ["fasta", "phylip", "paml", "gde"]


# ------------------------------------------------------------------ strategies
@st.composite
def _name(draw):
    cls = draw(st.sampled_from(["short", "short", "edge", "long"]))
    target = {"short": draw(st.integers(1, 8)), "edge": draw(st.integers(9, 11)), "long": draw(st.integers(12, 20))}[cls]
    plain = draw(st.integers(0, 3)) == 0
    toks = draw(
        st.lists(
            st.sampled_from(list(ALNUM)) if plain else st.one_of(st.sampled_from(SPECIAL_TOKENS), st.sampled_from(list(ALNUM)), st.sampled_from(list(ALNUM))),
            min_size=target,
            max_size=target,
        )
    )
    name = "".join(toks)[:target]
    if name[0] == " ":
        name = "x" + name[1:]
    if name[-1] == " ":
        name = name[:-1] + "x"
    return name


def _names(n):
    return st.lists(_name(), min_size=n, max_size=n, unique_by=(lambda x: x, lambda x: x[:9].strip()))


def _seq(draw, mt, length, style=None):
    canon, degen, gaps = ALPHABETS[mt]
    style = style or draw(st.sampled_from(["canon", "mixed", "gappy"]))
    if style == "canon":
        alpha = canon
    elif style == "mixed":
        alpha = canon * 3 + degen + gaps[0]
    else:
        alpha = canon + gaps[0] * (len(canon) // 2) + gaps
    return draw(st.text(alphabet=alpha, min_size=length, max_size=length))


def _length(draw, width):
    kind = draw(st.sampled_from(["tiny", "label", "wrap", "block", "random"]))
    if kind == "tiny":
        return draw(st.integers(1, 3))
    if kind == "label":
        return draw(st.integers(9, 11))
    if kind == "wrap":
        return draw(st.sampled_from([59, 60, 61, 119, 120, 121]))
    if kind == "block":
        return max(1, width * draw(st.integers(1, 4)) + draw(st.integers(-1, 1)))
    return draw(st.integers(1, 300))


def _blank_some(draw, seqs):
    """zero-length records at the first / a middle / the last position, at two of them, everywhere, or at a drawn subset"""
    n = len(seqs)
    pat = draw(st.sampled_from(["first", "last", "middle", "all", "some", "first+last", "middle+last", "first+middle"]))
    idx = set()
    if pat == "all":
        idx = set(range(n))
    elif pat != "some":
        if "first" in pat:
            idx.add(0)
        if "last" in pat:
            idx.add(n - 1)
        if "middle" in pat and n >= 3:
            idx.add(draw(st.integers(1, n - 2)))
    if not idx:
        idx = {i for i in range(n) if draw(st.booleans())} or {draw(st.integers(0, n - 1))}
    return ["" if i in idx else q for i, q in enumerate(seqs)]


@st.composite
def set_cases(draw, empties=True):
    mt = draw(st.sampled_from(["dna", "dna", "rna", "protein"]))
    n = draw(st.sampled_from([1, 2, 2, 3, 3, 4, 5, 6]))
    names = draw(_names(n))
    block_size = draw(st.sampled_from([None, None, None, 7, 10, 50, 60, 61, 100]))
    width = block_size or 60
    aligned = draw(st.integers(0, 3)) > 0
    if aligned:
        L = _length(draw, width)
        seqs = [_seq(draw, mt, L) for _ in range(n)]
        kind = draw(st.sampled_from(["array", "aln", "coll", "newcoll"]))
    else:
        seqs = [_seq(draw, mt, _length(draw, width)) for _ in range(n)]
        kind = draw(st.sampled_from(["coll", "newcoll"]))
        if empties and draw(st.integers(0, 2)) == 0:
            # zero-length records (unaligned classes only): what e.g. aln.degap() gives for an all-gap row
            seqs = _blank_some(draw, seqs)
    suffixes = {f: draw(st.sampled_from(["", "", ".gz", ".bz2", ".zip"])) for f in TEXT_FORMATS + ["json"]}
    return {
        "moltype": mt,
        "names": names,
        "seqs": seqs,
        "kind": kind,
        "block_size": block_size,
        "suffix": suffixes,
        "fasta_suffix": draw(st.sampled_from(FASTA_SUFFIXES)),
    }


@st.composite
def variant_cases(draw):
    mt = draw(st.sampled_from(["dna", "dna", "rna", "protein"]))
    fmt = draw(st.sampled_from(["fasta", "gde", "phylip-seq", "phylip-int", "paml"]))
    n = draw(st.sampled_from([1, 2, 2, 3, 3, 4, 5]))
    names = draw(st.lists(_name(), min_size=n, max_size=n, unique_by=(lambda x: x, lambda x: x[:10].strip())))
    width = draw(st.sampled_from([60, 60, 10, 10, 7, 1, 50, 61, 70, 80, 100]))
    aligned = fmt in ("phylip-seq", "phylip-int", "paml") or draw(st.booleans())
    if aligned:
        L = _length(draw, width)
        seqs = [_seq(draw, mt, L) for _ in range(n)]
    else:
        seqs = [_seq(draw, mt, _length(draw, width)) for _ in range(n)]
        if draw(st.integers(0, 3)) == 0:
            seqs = _blank_some(draw, seqs)  # FASTA / GDE records that consist of a label line only
    if fmt in ("fasta", "gde") and draw(st.integers(0, 5)) == 0:
        # soft-masked / lower-case residues: the parsers' documented case handling only (no loader clause)
        if draw(st.booleans()):
            seqs = [q.lower() for q in seqs]
        else:
            seqs = ["".join(ch.lower() if draw(st.booleans()) else ch for ch in q) if len(q) <= 24 else q[: len(q) // 2].lower() + q[len(q) // 2 :] for q in seqs]
    return {
        "moltype": mt,
        "fmt": fmt,
        "names": names,
        "seqs": seqs,
        "width": width,
        "crlf": draw(st.integers(0, 3)) == 0,
        "final_nl": draw(st.integers(0, 3)) > 0,
        "blank_between": draw(st.integers(0, 2)) == 0,
        "space_blocks": draw(st.integers(0, 2)) == 0,
        "suffix": draw(st.sampled_from(["", "", ".gz", ".bz2", ".zip"])),
    }


_LINE_ALPHA = "".join(chr(c) for c in range(0x20, 0x7F) if chr(c) != "~")


@st.composite
def chunk_cases(draw):
    big = draw(st.integers(0, 4)) == 0
    nlines = draw(st.integers(12, 40)) if big else draw(st.integers(0, 8))
    maxlen = 70 if big else 12
    lines = draw(
        st.lists(
            st.one_of(st.just(""), st.text(alphabet=_LINE_ALPHA, min_size=0, max_size=maxlen), st.text(alphabet="ACGT-", min_size=1, max_size=maxlen)),
            min_size=nlines,
            max_size=nlines,
        )
    )
    return {
        "lines": lines,
        "crlf": draw(st.integers(0, 3)) == 0,
        "final_nl": draw(st.integers(0, 3)) > 0,
        "suffix": draw(st.sampled_from(["", "", "", ".gz", ".bz2", ".zip"])),
        "ext": draw(st.sampled_from(["txt", "fasta", "phylip"])),
        "num_lines": draw(st.integers(1, 6)),
    }


@st.composite
def genbank_cases(draw):
    n = draw(st.sampled_from([1, 1, 1, 1, 2, 3]))
    loci = draw(st.lists(st.text(alphabet=ALNUM + "_.", min_size=1, max_size=14), min_size=n, max_size=n, unique=True))
    recs = []
    for locus in loci:
        mt = draw(st.sampled_from(["DNA", "DNA", "RNA", "mRNA", "protein"]))
        L = draw(st.sampled_from([1, 9, 10, 11, 59, 60, 61, 119, 120, 121])) if draw(st.booleans()) else draw(st.integers(1, 250))
        alpha = "acgtn" if mt == "DNA" else "acdefghiklmnpqrstvwyx" if mt == "protein" else "acgun"
        seq = draw(st.text(alphabet=alpha, min_size=L, max_size=L))
        feats = []
        for _ in range(draw(st.integers(0, 2))):
            a = draw(st.integers(1, L))
            b = draw(st.integers(a, L))
            if mt == "protein":
                feats.append([draw(st.sampled_from(["Protein", "Region", "Site"])), a, b, False])
            else:
                feats.append([draw(st.sampled_from(["gene", "CDS", "misc_feature"])), a, b, draw(st.booleans())])
        recs.append(
            {
                "locus": locus,
                "mol": mt,
                "seq": seq,
                "feats": feats,
                "definition": draw(st.booleans()),
                "source": draw(st.booleans()),
                "topology": draw(st.sampled_from(["linear", "circular"])),
            }
        )
    return {"records": recs, "suffix": draw(st.sampled_from(["", "", ".gz"])), "ext": draw(st.sampled_from(["gb", "gbk", "genbank"]))}


TREE_SUFFIXES = ["nwk", "tree", "json", "xml"]


@st.composite
def zip_cases(draw):
    """a set written by cogent3 itself to ``<name>.<format>.zip`` (all formats of the set), plus a small tree"""
    case = draw(set_cases(empties=False))
    del case["suffix"]
    case["overwrite"] = draw(st.integers(0, 2)) == 0
    ntips = draw(st.integers(3, 6))
    tip = st.builds(lambda a, b: a + b, st.sampled_from(list(ALNUM[:52])), st.text(alphabet=ALNUM, min_size=0, max_size=5))  # starts with a letter
    tips = draw(st.lists(tip, min_size=ntips, max_size=ntips, unique=True))
    lengths = [draw(st.sampled_from([None, 1.0, 0.5, 2.25, 10.0, 0.125])) for _ in range(ntips)]
    case["tree"] = {"tips": tips, "lengths": lengths, "shape": draw(st.sampled_from(["star", "ladder"])), "suffix": draw(st.sampled_from(TREE_SUFFIXES))}
    return case


@st.composite
def chunkparse_cases(draw):
    """small harness-laid-out files: every chunk size is streamed into the line parsers"""
    mt = draw(st.sampled_from(["dna", "dna", "rna", "protein"]))
    fmt = draw(st.sampled_from(["fasta", "gde", "phylip-seq", "phylip-int", "paml"]))
    n = draw(st.sampled_from([1, 2, 2, 3, 3, 4]))
    names = draw(st.lists(_name(), min_size=n, max_size=n, unique_by=(lambda x: x, lambda x: x[:10].strip())))
    width = draw(st.sampled_from([60, 10, 10, 7, 5, 1, 12]))
    aligned = fmt in ("phylip-seq", "phylip-int", "paml") or draw(st.booleans())
    pick = st.sampled_from([1, 2, 3, 9, 10, 11, 19, 20, 21, 24, width - 1 or 1, width, width + 1])
    if aligned:
        L = draw(pick)
        seqs = [_seq(draw, mt, L) for _ in range(n)]
    else:
        seqs = [_seq(draw, mt, draw(pick)) for _ in range(n)]
    return {
        "moltype": mt,
        "fmt": fmt,
        "names": names,
        "seqs": seqs,
        "width": width,
        "crlf": draw(st.integers(0, 3)) == 0,
        "final_nl": draw(st.integers(0, 3)) > 0,
        "blank_between": draw(st.integers(0, 2)) == 0,
        "space_blocks": draw(st.integers(0, 2)) == 0,
        "suffix": draw(st.sampled_from(["", "", "", ".gz", ".bz2", ".zip"])),
    }


_FIELD = st.text(alphabet=ALNUM + "_.-", min_size=1, max_size=8)
_DESC_ALPHA = ALNUM + " []()|,;:=/_.-'>"


@st.composite
def entry_cases(draw):
    """FASTA text for the record-object / label-callback entry points.
    mode plain: free names; mode ncbi: 'gi|<id>|<db>|<accession>|<description>' labels; mode group: '<group>:<seqid>:<name>'
    labels laid out in contiguous groups"""
    mt = draw(st.sampled_from(["dna", "dna", "rna", "protein"]))
    mode = draw(st.sampled_from(["plain", "plain", "ncbi", "group"]))
    width = draw(st.sampled_from([60, 60, 10, 7, 80]))
    case = {"moltype": mt, "mode": mode, "width": width, "crlf": draw(st.integers(0, 3)) == 0, "final_nl": draw(st.integers(0, 3)) > 0, "blank_between": draw(st.integers(0, 3)) == 0, "suffix": draw(st.sampled_from(["", "", ".gz", ".bz2", ".zip"]))}
    if mode == "plain":
        n = draw(st.sampled_from([1, 2, 3, 4, 5]))
        case["names"] = draw(st.lists(_name(), min_size=n, max_size=n, unique_by=(lambda x: x, lambda x: x.split()[0])))
        case["seqs"] = [_seq(draw, mt, _length(draw, width)) for _ in range(n)]
        if draw(st.integers(0, 5)) == 0:
            case["seqs"] = _blank_some(draw, case["seqs"])
        case["renamer"] = draw(st.sampled_from(["bracket", "first-word", "upper", "reverse"]))
    elif mode == "ncbi":
        n = draw(st.sampled_from([1, 2, 3, 4]))
        gis = draw(st.lists(st.text(alphabet="0123456789", min_size=1, max_size=9), min_size=n, max_size=n, unique=True))
        fields = []
        for gi in gis:
            desc = draw(st.text(alphabet=_DESC_ALPHA, min_size=0, max_size=30)).strip()
            fields.append([gi, draw(st.sampled_from(["dbj", "emb", "gb", "ref"])), draw(_FIELD), desc])
        case["fields"] = fields
        case["pad"] = draw(st.booleans())  # blanks around the '|' separated fields (stripped by the label parser)
        case["seqs"] = [_seq(draw, mt, _length(draw, width)) for _ in range(n)]
    else:
        ngroups = draw(st.sampled_from([1, 2, 2, 3]))
        gnames = draw(st.lists(_FIELD, min_size=ngroups, max_size=ngroups, unique=True))
        aligned = draw(st.booleans())
        typed = draw(st.booleans())  # pass the moltype of the set instead of the default ASCII
        # the letters-only alphabet of the default (text) moltype has no code for '-': gap free sequences there
        style = None if typed else "canon"
        groups, seqs = [], []
        for g in gnames:
            k = draw(st.sampled_from([1, 2, 2, 3]))
            members = draw(st.lists(_FIELD, min_size=k, max_size=k, unique=True))
            L = _length(draw, width)
            even = aligned or draw(st.booleans())
            for i, m in enumerate(members):
                groups.append([g, f"id{len(groups)}", m])
                seqs.append(_seq(draw, mt, L if even else _length(draw, width), style))
        case["groups"] = groups
        case["seqs"] = seqs
        case["aligned"] = aligned
        case["done"] = [g for g in gnames if draw(st.integers(0, 4)) == 0]
        case["typed"] = typed
    return case


# ------------------------------------------------------------------- helpers
def _tmpdir():
    """per-case scratch directory; memory backed when available (thousands of small files and atomic-write
    temporary directories per run make a journalled disk the bottleneck)"""
    if os.path.isdir("/dev/shm") and os.access("/dev/shm", os.W_OK):
        return tempfile.mkdtemp(prefix="verif_c06.", dir="/dev/shm")
    os.makedirs(SCRATCH, exist_ok=True)
    return tempfile.mkdtemp(prefix="c06.", dir=SCRATCH)


def _read_raw(path: str) -> bytes:
    """bytes of a file written by cogent3, decompressed with the standard library"""
    if path.endswith(".gz"):
        with gzip.open(path, "rb") as f:
            return f.read()
    if path.endswith(".bz2"):
        with bz2.open(path, "rb") as f:
            return f.read()
    with open(path, "rb") as f:
        return f.read()


def _write_raw(path: str, data: bytes):
    if path.endswith(".gz"):
        with gzip.open(path, "wb") as f:
            f.write(data)
    elif path.endswith(".bz2"):
        with bz2.open(path, "wb") as f:
            f.write(data)
    elif path.endswith(".zip"):
        member = os.path.basename(path)[: -len(".zip")]
        with zipfile.ZipFile(path, "w") as z:
            z.writestr(member, data)
    else:
        with open(path, "wb") as f:
            f.write(data)


_HZ = re.compile(r"~\{")


class _Clause:
    """one clause evaluated on one case.  ``collapsed`` is set when the case lies in a circumstance with its own
    root cause (a '>' inside a FASTA name read by the bytes parser; '~{' inside a name of a file opened in text mode):
    every failure of the clause is then reported under that one signature."""

    def __init__(self, s: Soft, sig: str, collapsed=None):
        self.s, self.sig, self.collapsed = s, sig, collapsed

    def call(self, fn, allowed=()):
        if self.collapsed is None:
            return self.s.call(self.sig, fn, allowed=allowed)
        try:
            return True, fn()
        except allowed as e:  # documented outcome
            return False, e
        except Exception as e:  # noqa: BLE001
            if not raised_in_repo(e):
                raise
            self.s.fail(self.collapsed, f"{self.sig}: {type(e).__name__}: {e}")
            return False, e

    def eq(self, got, want, part, what):
        if self.collapsed is None:
            return self.s.eq(got, want, f"{self.sig}/{part}", what)
        return self.s.eq(got, want, self.collapsed, f"{self.sig}/{part} {what}")

    def check(self, cond, part, what):
        if self.collapsed is None:
            return self.s.check(cond, f"{self.sig}/{part}", what)
        return self.s.check(cond, self.collapsed, f"{self.sig}/{part} {what}")


def _clause(s: Soft, sub: str, sig: str, names, reads: str) -> _Clause:
    """reads: 'fasta-bytes' (goes through iter_fasta_records on bytes), 'text-open' (file opened in text mode by
    cogent3.util.io.open_), 'memory' (lines handed over by the harness)"""
    collapsed = None
    if reads == "fasta-bytes" and any(">" in n for n in names):
        collapsed = f"{sub}/fasta-bytes-parser[gt-in-name]"
    elif reads == "text-open" and any(_HZ.search(n) for n in names):
        collapsed = f"{sub}/text-mode-open[hz-escape-in-name]"
    return _Clause(s, sig, collapsed)


def _records(fn, *args, **kw):
    return [(str(a), str(b)) for a, b in fn(*args, **kw)]


def _special(name: str) -> bool:
    return any(not c.isalnum() for c in name)


def _near(length: int, width: int) -> bool:
    return length >= width - 1 and min(length % width, width - length % width) <= 1


def _set_classes(s: Soft, names, seqs, mt, width):
    s.cls(mt, f"records={min(len(names), 4)}{'+' if len(names) >= 4 else ''}")
    if any(_special(n) for n in names):
        s.cls("special-char-name")
    if any(" " in n for n in names):
        s.cls("blank-in-name")
    if any(">" in n for n in names):
        s.cls("gt-in-name")
    if any(_HZ.search(n) for n in names):
        s.cls("hz-escape-in-name")
    if any(len(n) in (9, 10, 11) for n in names):
        s.cls("name-len-9..11")
    if any(len(n) > 11 for n in names):
        s.cls("name-len>11")
    if any(_near(len(q), width) for q in seqs):
        s.cls("len-at-line-boundary")
    if any(len(q) % width == 0 for q in seqs):
        s.cls("len-multiple-of-width")
    if any(_near(len(q), 10) for q in seqs):
        s.cls("len-at-10col-boundary")
    if any("-" in q for q in seqs):
        s.cls("gapped")
    if len({len(q) for q in seqs}) > 1:
        s.cls("ragged")
    if max(len(q) for q in seqs) <= 3:
        s.cls("tiny-seqs")
    boundary = any(_near(len(q), width) or _near(len(q), 10) for q in seqs)
    return len(names) >= 2 and (any(_special(n) for n in names) or boundary)


def _parser_differential(s: Soft, fmt, sub, pre, names, text, path, want, evals):
    """every parser entry point of ``fmt`` on the same well-formed text"""
    from cogent3.parse import fasta as pfasta
    from cogent3.parse.sequence import PARSERS, LineBasedParser, get_parser

    lines = text.splitlines()
    entries = []
    if fmt == "fasta":
        entries += [
            ("iter_fasta_records(bytes)", "fasta-bytes", lambda: _records(pfasta.iter_fasta_records, text.encode("ascii"))),
            ("iter_fasta_records(list)", "memory", lambda: _records(pfasta.iter_fasta_records, list(lines))),
            ("MinimalFastaParser(list,strict)", "memory", lambda: _records(pfasta.MinimalFastaParser, list(lines), strict=True)),
            ("MinimalFastaParser(list,non-strict)", "memory", lambda: _records(pfasta.MinimalFastaParser, list(lines), strict=False)),
            ("MinimalFastaParser(tuple,strict)", "memory", lambda: _records(pfasta.MinimalFastaParser, tuple(lines), strict=True)),
            ("LineBasedParser(MinimalFastaParser)(list)", "memory", lambda: _records(LineBasedParser(pfasta.MinimalFastaParser), list(lines))),
        ]
        if path is not None:
            entries += [
                ("iter_fasta_records(str-path)", "fasta-bytes", lambda: _records(pfasta.iter_fasta_records, path)),
                ("iter_fasta_records(Path)", "fasta-bytes", lambda: _records(pfasta.iter_fasta_records, pathlib.Path(path))),
                ("get_parser(fasta)(str-path)", "fasta-bytes", lambda: _records(get_parser("fasta"), path)),
                ("MinimalFastaParser(str-path,strict)", "text-open", lambda: _records(pfasta.MinimalFastaParser, path, strict=True)),
                ("MinimalFastaParser(Path,non-strict)", "text-open", lambda: _records(pfasta.MinimalFastaParser, pathlib.Path(path), strict=False)),
                ("LineBasedParser(MinimalFastaParser)(str-path)", "text-open", lambda: _records(LineBasedParser(pfasta.MinimalFastaParser), path)),
                ("LineBasedParser(MinimalFastaParser)(Path)", "text-open", lambda: _records(LineBasedParser(pfasta.MinimalFastaParser), pathlib.Path(path))),
            ]
    else:
        p = PARSERS[fmt]
        entries += [
            (f"PARSERS[{fmt}](list)", "memory", lambda: _records(p, list(lines))),
            (f"PARSERS[{fmt}](tuple)", "memory", lambda: _records(p, tuple(lines))),
        ]
        if path is not None:
            entries += [
                (f"PARSERS[{fmt}](str-path)", "text-open", lambda: _records(p, path)),
                (f"PARSERS[{fmt}](Path)", "text-open", lambda: _records(p, pathlib.Path(path))),
            ]
        if fmt == "gde":
            entries += [
                ("MinimalGdeParser(list,non-strict)", "memory", lambda: _records(pfasta.MinimalGdeParser, list(lines), strict=False)),
                ("MinimalGdeParser(list,strict)", "memory", lambda: _records(pfasta.MinimalGdeParser, list(lines), strict=True)),
            ]
    for label, reads, fn in entries:
        evals[0] += 1
        c = _clause(s, sub, f"{pre}/parse/{label}", names, reads)
        ok, got = c.call(fn)
        if ok and c.eq([r[0] for r in got], [r[0] for r in want], "labels", f"{label} on {text[:120]!r}"):
            # documented case handling: the bytes parser coerces lower case to upper case (minimal_converter), the line
            # parsers return the text as it is (tests/test_parse/test_fasta.py::test_fasta_with_spaces)
            c.eq([r[1] for r in got], [r[1].upper() if reads == "fasta-bytes" else r[1] for r in want], "seqs", f"{label} on {text[:120]!r}")


# ------------------------------------------------- zero-length (label only) records
def _has_empty(seqs) -> bool:
    return any(not q for q in seqs)


def _kept(want):
    """the records that have data"""
    return [w for w in want if w[1]]


def _refusals():
    from cogent3.parse.record import RecordError

    return (RecordError, ValueError)


def _empty_classes(s: Soft, seqs):
    n = len(seqs)
    idx = [i for i, q in enumerate(seqs) if not q]
    s.cls("empty-record")
    if len(idx) == n:
        s.cls("all-records-empty")
    else:
        if 0 in idx:
            s.cls("empty-record-first")
        if n - 1 in idx:
            s.cls("empty-record-last")
        if any(0 < i < n - 1 for i in idx):
            s.cls("empty-record-middle")
    if any(b - a == 1 for a, b in zip(idx, idx[1:])):
        s.cls("adjacent-empty-records")


def _eclause(s: Soft, sub: str, sig: str, names, reads: str) -> _Clause:
    """clause on a set with zero-length records: everything that reads FASTA through the bytes parser is one
    circumstance with one root cause (a record that consists of its label line only is kept or dropped depending on
    what follows it), reported under one signature per sub-check"""
    if reads == "fasta-bytes":
        return _Clause(s, sig, f"{sub}/fasta-bytes-parser[empty-record]")
    return _clause(s, sub, sig, names, reads)


def _uniform(c: _Clause, got, want, what) -> bool:
    """clause (ii): label-only records are treated alike wherever they stand: all of them come back (with an empty
    sequence) or none of them does; the records with data always come back"""
    got = [tuple(g) for g in got]
    return c.check(got == list(want) or got == _kept(want), "empty-records-not-treated-alike", f"{what}: got {got!r}; expected {list(want)!r} or {_kept(want)!r}")


def _loaded_records(obj):
    names = [str(n) for n in obj.names]
    d = obj.to_dict()
    return [(n, str(d.get(n))) for n in names]


def _parser_differential_empty(s: Soft, fmt, sub, pre, names, text, path, want, evals):
    """parser entry points on text that holds label-only records.  Documented and pinned by tests/test_parse/test_fasta.py
    (test_no_labels_strict, test_no_labels, test_multiple_bad_*): the strict line parser raises RecordError, the
    non-strict one skips such records.  The bytes parser documents nothing: it may keep them all, drop them all, or refuse."""
    from cogent3.parse import fasta as pfasta
    from cogent3.parse.record import RecordError
    from cogent3.parse.sequence import PARSERS, LineBasedParser, get_parser

    lines = text.splitlines()
    P = pathlib.Path
    if fmt == "fasta":
        entries = [
            ("iter_fasta_records(bytes)", "bytes", "fasta-bytes", lambda: _records(pfasta.iter_fasta_records, text.encode("ascii"))),
            ("iter_fasta_records(list)", "lenient", "memory", lambda: _records(pfasta.iter_fasta_records, list(lines))),
            ("MinimalFastaParser(list,strict)", "strict", "memory", lambda: _records(pfasta.MinimalFastaParser, list(lines), strict=True)),
            ("MinimalFastaParser(list,non-strict)", "lenient", "memory", lambda: _records(pfasta.MinimalFastaParser, list(lines), strict=False)),
            ("LineBasedParser(MinimalFastaParser)(list)", "strict", "memory", lambda: _records(LineBasedParser(pfasta.MinimalFastaParser), list(lines))),
        ]
        if path is not None:
            entries += [
                ("iter_fasta_records(str-path)", "bytes", "fasta-bytes", lambda: _records(pfasta.iter_fasta_records, path)),
                ("iter_fasta_records(Path)", "bytes", "fasta-bytes", lambda: _records(pfasta.iter_fasta_records, P(path))),
                ("get_parser(fasta)(str-path)", "bytes", "fasta-bytes", lambda: _records(get_parser("fasta"), path)),
                ("MinimalFastaParser(str-path,strict)", "strict", "text-open", lambda: _records(pfasta.MinimalFastaParser, path, strict=True)),
                ("MinimalFastaParser(Path,non-strict)", "lenient", "text-open", lambda: _records(pfasta.MinimalFastaParser, P(path), strict=False)),
                ("LineBasedParser(MinimalFastaParser)(str-path)", "strict", "text-open", lambda: _records(LineBasedParser(pfasta.MinimalFastaParser), path)),
            ]
    else:
        p = PARSERS[fmt]
        entries = [
            (f"PARSERS[{fmt}](list)", "strict", "memory", lambda: _records(p, list(lines))),
            ("MinimalGdeParser(list,non-strict)", "lenient", "memory", lambda: _records(pfasta.MinimalGdeParser, list(lines), strict=False)),
            ("MinimalGdeParser(list,strict)", "strict", "memory", lambda: _records(pfasta.MinimalGdeParser, list(lines), strict=True)),
        ]
        if path is not None:
            entries.append((f"PARSERS[{fmt}](str-path)", "strict", "text-open", lambda: _records(p, path)))
    for label, family, reads, fn in entries:
        evals[0] += 1
        what = f"{label} on {text[:120]!r}"
        c = _eclause(s, sub, f"{pre}/parse/{label}", names, reads)
        if family == "bytes":
            ok, got = c.call(fn, allowed=(RecordError,))
            if ok:
                _uniform(c, got, [(n, q.upper()) for n, q in want], what)  # the bytes parser upper-cases (minimal_converter)
        elif family == "strict":
            ok, got = c.call(fn, allowed=(RecordError,))
            c.check(not ok, "strict-parser-accepts-record-without-data", f"{what}: no RecordError, got {got!r}")
        else:
            ok, got = c.call(fn)
            if ok:
                c.eq(got, _kept(want), "records", what)


def _load(kind, path, mt):
    from cogent3 import load_aligned_seqs, load_unaligned_seqs

    if kind == "array":
        return load_aligned_seqs(path, moltype=mt, array_align=True)
    if kind == "aln":
        return load_aligned_seqs(path, moltype=mt, array_align=False)
    if kind == "coll":
        return load_unaligned_seqs(path, moltype=mt)
    return load_unaligned_seqs(path, moltype=mt, new_type=True)


def _check_loaded(c: _Clause, obj, want, what):
    ok, got = c.call(lambda: (list(obj.names), dict(obj.to_dict())))
    if not ok:
        return
    names, d = got
    if c.eq([str(n) for n in names], [w[0] for w in want], "names", what):
        c.eq([str(d.get(n)) for n in names], [w[1] for w in want], "seqs", what)


def _reads(fmt):
    return "fasta-bytes" if fmt == "fasta" else "text-open"


# ------------------------------------------------------------ sub: roundtrip
def exec_roundtrip(case) -> Soft:
    s = Soft("C06/")
    root = _tmpdir()
    try:
        _roundtrip(s, case, root)
    finally:
        shutil.rmtree(root, ignore_errors=True)
    return s


def _roundtrip(s: Soft, case, root):
    from cogent3 import load_seq, make_aligned_seqs, make_unaligned_seqs

    mt, names, seqs, kind = case["moltype"], case["names"], case["seqs"], case["kind"]
    bs = case["block_size"]
    width = bs or 60
    data = dict(zip(names, seqs))
    ragged = len({len(q) for q in seqs}) > 1
    makers = {
        "array": lambda: make_aligned_seqs(data, moltype=mt, array_align=True),
        "aln": lambda: make_aligned_seqs(data, moltype=mt, array_align=False),
        "coll": lambda: make_unaligned_seqs(data, moltype=mt),
        "newcoll": lambda: make_unaligned_seqs(data, moltype=mt, new_type=True),
    }
    s.nontrivial = _set_classes(s, names, seqs, mt, width)
    s.cls(f"kind={kind}", f"block_size={bs}")
    ok, obj = s.call(f"construct/{kind}", makers[kind])
    if not ok:
        return
    if _has_empty(seqs):
        _roundtrip_empty(s, case, root, obj)
        return
    formats = ["fasta", "gde", "json"] if ragged else ["fasta", "phylip", "paml", "gde", "json"]
    evals = [0]
    for fmt in formats:
        sfx = case["suffix"][fmt]
        ext = case["fasta_suffix"] if fmt == "fasta" else fmt
        pre = f"roundtrip/{fmt}"
        s.cls(f"fmt={fmt}", f"suffix={sfx or 'plain'}")
        want = [(n[:9].strip() if fmt == "phylip" else n, q) for n, q in zip(names, seqs)]
        # .zip archives are produced by the harness from the plain file written by cogent3
        wsfx = "" if sfx == ".zip" else sfx
        wpath = os.path.join(root, f"w_{fmt}.{ext}{wsfx}")
        kw = {"block_size": bs} if (bs and fmt != "json") else {}
        evals[0] += 1
        ok, _ = s.call(f"{pre}/write/{kind}", lambda: obj.write(wpath, **kw))
        if not ok:
            continue
        if not os.path.exists(wpath):
            s.fail(f"{pre}/write/{kind}/no-file", f"{wpath} was not created")
            continue
        raw = _read_raw(wpath)
        if sfx == ".zip":
            path = os.path.join(root, f"z_{fmt}.{ext}.zip")
            _write_raw(path, raw)
        else:
            path = wpath
        # (a) the loaders
        what = f"{kind} written as {fmt}{sfx} block_size={bs}; names {names!r}"
        evals[0] += 1
        if fmt == "json" and kind == "newcoll" and not any(_HZ.search(n) for n in names):
            # own signature: the loader's class filter is a root cause of its own
            c = _Clause(s, f"{pre}/load/{kind}")
        else:
            c = _clause(s, "roundtrip", f"{pre}/load/{kind}", names, _reads(fmt))
        ok, back = c.call(lambda: _load(kind, path, mt))
        if ok:
            _check_loaded(c, back, want, what)
        elif fmt == "json" and kind == "newcoll":
            # content of the file, independent of the loader's class filter
            import json as _json

            from cogent3.util.deserialise import deserialise_object

            c = _Clause(s, f"{pre}/deserialise/{kind}")
            ok, back = c.call(lambda: deserialise_object(_json.loads(raw.decode("ascii"))))
            if ok:
                _check_loaded(c, back, want, what)
        if fmt == "json":
            continue
        # a second class reads the same file: the file content does not depend on the writer class
        other = {"array": "coll", "aln": "array", "coll": "newcoll", "newcoll": "coll"}[kind]
        if ragged and other in ("array", "aln"):
            other = "coll"
        evals[0] += 1
        c = _clause(s, "roundtrip", f"{pre}/load/{other}", names, _reads(fmt))
        ok, back = c.call(lambda: _load(other, path, mt))
        if ok:
            _check_loaded(c, back, want, what)
        evals[0] += 1
        c = _clause(s, "roundtrip", f"{pre}/load_seq", names, _reads(fmt))
        ok, one = c.call(lambda: load_seq(path, moltype=mt))
        if ok:
            ok, got = c.call(lambda: (str(one.name), str(one)))
            if ok:
                c.eq(got, want[0], "first-record", what)
        # (b) parser differential on the written text
        try:
            text = raw.decode("ascii")
        except UnicodeDecodeError:
            s.fail(f"{pre}/write/{kind}/non-ascii-output", repr(raw[:80]))
            continue
        _parser_differential(s, fmt, "roundtrip", pre, names, text, path, want, evals)
    s.evals = evals[0]


def _roundtrip_empty(s: Soft, case, root, obj):
    """a set of an unaligned class that holds zero-length sequences, written by the collection as FASTA, GDE and JSON.
    Clause (i): the library's own writer + loader never lose a named sequence silently: all names (and sequences) come
    back, or the write / the load refuses (RecordError / ValueError).  JSON represents the set exactly."""
    from cogent3 import load_seq

    mt, names, seqs, kind = case["moltype"], case["names"], case["seqs"], case["kind"]
    bs = case["block_size"]
    _empty_classes(s, seqs)
    s.nontrivial = len(names) >= 2
    refusals = _refusals()
    want = list(zip(names, seqs))
    other = "coll" if kind == "newcoll" else "newcoll"
    evals = [0]
    for fmt in ("fasta", "gde", "json"):
        sfx = case["suffix"][fmt]
        ext = case["fasta_suffix"] if fmt == "fasta" else fmt
        pre = f"roundtrip/{fmt}[empty-record]"
        s.cls(f"fmt={fmt}", f"suffix={sfx or 'plain'}")
        wsfx = "" if sfx == ".zip" else sfx
        wpath = os.path.join(root, f"w_{fmt}.{ext}{wsfx}")
        kw = {"block_size": bs} if (bs and fmt != "json") else {}
        evals[0] += 1
        ok, _ = s.call(f"{pre}/write/{kind}", lambda: obj.write(wpath, **kw), allowed=refusals)
        if not ok:
            s.cls(f"{fmt}-write-refuses-empty-record")
            continue
        if not os.path.exists(wpath):
            s.fail(f"{pre}/write/{kind}/no-file", f"{wpath} was not created")
            continue
        raw = _read_raw(wpath)
        if sfx == ".zip":
            path = os.path.join(root, f"z_{fmt}.{ext}.zip")
            _write_raw(path, raw)
        else:
            path = wpath
        what = f"{kind} with zero-length sequences written as {fmt}{sfx} block_size={bs}; names {names!r} lengths {[len(q) for q in seqs]}"
        for k in (kind,) if fmt == "json" else (kind, other):
            evals[0] += 1
            c = _eclause(s, "roundtrip", f"{pre}/load/{k}", names, _reads(fmt))
            ok, back = c.call(lambda: _load(k, path, mt), allowed=() if fmt == "json" else refusals)
            if ok:
                _check_loaded(c, back, want, what)
            else:
                s.cls(f"{fmt}-load-refuses-empty-record")
        if fmt == "json":
            continue
        evals[0] += 1
        c = _eclause(s, "roundtrip", f"{pre}/load_seq", names, _reads(fmt))
        ok, one = c.call(lambda: load_seq(path, moltype=mt), allowed=refusals)
        if ok:
            ok, got = c.call(lambda: (str(one.name), str(one)))
            if ok:
                c.eq(got, want[0], "first-record", what)
        try:
            text = raw.decode("ascii")
        except UnicodeDecodeError:
            s.fail(f"{pre}/write/{kind}/non-ascii-output", repr(raw[:80]))
            continue
        _parser_differential_empty(s, fmt, "roundtrip", pre, names, text, path, want, evals)
    s.evals = evals[0]


# ------------------------------------------------------------- sub: variants
def _wrap(seq, width):
    return [seq[i : i + width] for i in range(0, len(seq), width)]


def _spaced(chunk):
    return " ".join(chunk[i : i + 10] for i in range(0, len(chunk), 10))


def layout(case):
    """well-formed text of the set in the requested layout, plus the expected records"""
    fmt, names, seqs, w = case["fmt"], case["names"], case["seqs"], case["width"]
    lines = []
    want = list(zip(names, seqs))
    blank = case["blank_between"]
    if fmt in ("fasta", "gde"):
        mark = ">" if fmt == "fasta" else "%"
        for n, q in want:
            lines.append(mark + n)
            lines.extend(_wrap(q, w))
            if blank:
                lines.append("")
    elif fmt == "paml":
        lines.append(f"{len(names)}  {len(seqs[0])}")
        for n, q in want:
            lines.append(n)
            lines.extend(_wrap(q, w))
            if blank:
                lines.append("")
    else:
        sp = _spaced if case["space_blocks"] else (lambda x: x)
        want = [(n[:10].strip(), q) for n, q in want]
        L = len(seqs[0])
        if fmt == "phylip-seq":
            lines.append(f" {len(names)} {L}")
            for n, q in zip(names, seqs):
                for i, chunk in enumerate(_wrap(q, w)):
                    lines.append((n[:10].ljust(10) if i == 0 else " " * 10) + sp(chunk))
        else:
            lines.append(f" {len(names)} {L} I")
            blocks = [_wrap(q, w) for q in seqs]
            for b in range(len(blocks[0])):
                if b:
                    lines.append("")
                for n, chunks in zip(names, blocks):
                    lines.append((n[:10].ljust(10) if b == 0 else "") + sp(chunks[b]))
    nl = "\r\n" if case["crlf"] else "\n"
    text = nl.join(lines) + (nl if case["final_nl"] else "")
    return text, want


def exec_variants(case) -> Soft:
    s = Soft("C06/")
    root = _tmpdir()
    try:
        _variants(s, case, root)
    finally:
        shutil.rmtree(root, ignore_errors=True)
    return s


def _variants(s: Soft, case, root):
    fmt, names, seqs, mt = case["fmt"], case["names"], case["seqs"], case["moltype"]
    text, want = layout(case)
    base = fmt.split("-")[0]
    pre = f"variants/{fmt}"
    path = os.path.join(root, f"v.{base}{case['suffix']}")
    _write_raw(path, text.encode("ascii"))
    s.nontrivial = _set_classes(s, names, seqs, mt, case["width"])
    s.cls(f"layout={fmt}", f"suffix={case['suffix'] or 'plain'}", f"width={case['width']}")
    for flag in ("crlf", "final_nl", "blank_between"):
        if case[flag]:
            s.cls(flag)
    if fmt.startswith("phylip") and case["space_blocks"]:
        s.cls("10-column-blocks")
    evals = [0]
    if _has_empty(seqs):
        # label-only records (FASTA / GDE): documented behaviour of the line parsers; clause (ii) for everything that goes
        # through the bytes parser (the loaders included): such records are kept everywhere or dropped everywhere, whatever
        # their position and the layout (CRLF, blank lines, missing final newline), or the input is refused
        _empty_classes(s, seqs)
        pre = f"variants/{fmt}[empty-record]"
        _parser_differential_empty(s, base, "variants", pre, names, text, path, want, evals)
        what = f"harness-written {fmt} {text[:160]!r}"
        lower = any(q != q.upper() for q in seqs)
        if lower:
            s.cls("lower-case-residues")
        for kind in () if lower else ("coll", "newcoll"):
            evals[0] += 1
            c = _eclause(s, "variants", f"{pre}/load/{kind}", names, _reads(base))
            ok, back = c.call(lambda: _load(kind, path, mt), allowed=_refusals())
            if ok:
                ok, got = c.call(lambda: _loaded_records(back))
                if ok:
                    _uniform(c, got, want, what)
        s.evals = evals[0]
        return
    # the text handed to list/bytes based parsers keeps its line ends in the bytes form only
    _parser_differential(s, base, "variants", pre, names, text, path, want, evals)
    if any(q != q.upper() for q in seqs):
        # lower case: what a collection does with it is documented nowhere (old-type classes upper-case on construction,
        # new-type ones keep what the parser hands them): parsers only
        s.cls("lower-case-residues")
        s.evals = evals[0]
        return
    ragged = len({len(q) for q in seqs}) > 1
    what = f"harness-written {fmt} {text[:160]!r}"
    for kind in ("coll", "newcoll") if ragged else ("array", "aln", "coll"):
        evals[0] += 1
        c = _clause(s, "variants", f"{pre}/load/{kind}", names, _reads(base))
        ok, back = c.call(lambda: _load(kind, path, mt))
        if ok:
            _check_loaded(c, back, want, what)
    s.evals = evals[0]


# --------------------------------------------------------------- sub: chunks
def exec_chunks(case) -> Soft:
    s = Soft("C06/")
    root = _tmpdir()
    try:
        _chunks(s, case, root)
    finally:
        shutil.rmtree(root, ignore_errors=True)
    return s


def _chunks(s: Soft, case, root):
    from cogent3.util.io import iter_line_blocks, iter_splitlines

    nl = "\r\n" if case["crlf"] else "\n"
    text = nl.join(case["lines"]) + (nl if case["final_nl"] and case["lines"] else "")
    seen = text.replace("\r\n", "\n")  # what a text-mode read returns
    want = seen.splitlines()
    path = os.path.join(root, f"c.{case['ext']}{case['suffix']}")
    _write_raw(path, text.encode("ascii"))
    n = len(seen)
    if n <= 150:
        ks = list(range(1, n + 3))
        s.cls("every-chunk-size")
    else:
        ends, pos = set(), 0
        for line in seen.split("\n"):
            pos += len(line) + 1
            ends.update((pos - 1, pos, pos + 1))
        ks = sorted(k for k in ends | {1, 2, 3, n - 1, n, n + 1, n + 2} if 1 <= k <= n + 2)
        if len(ks) > 90:
            step = len(ks) / 90.0
            ks = sorted({ks[int(i * step)] for i in range(90)})
        s.cls("boundary-chunk-sizes")
    s.cls(f"suffix={case['suffix'] or 'plain'}", "crlf" if case["crlf"] else "lf")
    if "" in case["lines"]:
        s.cls("empty-line")
    if not case["final_nl"]:
        s.cls("no-final-newline")
    if not want:
        s.cls("empty-file")
    evals = 0
    for k in ks:
        evals += 1
        ok, got = s.call("chunks/iter_splitlines", lambda: list(iter_splitlines(path, chunk_size=k)))
        if ok and not s.eq(got, want, "chunks/iter_splitlines/lines", f"chunk_size={k} text {seen[:200]!r}"):
            break
    evals += 1
    ok, got = s.call("chunks/iter_splitlines/default", lambda: list(iter_splitlines(pathlib.Path(path))))
    if ok:
        s.eq(got, want, "chunks/iter_splitlines/default/lines", f"default chunk_size, text {seen[:200]!r}")
    m = case["num_lines"]
    for k in [ks[0], ks[len(ks) // 2], ks[-1], None]:
        evals += 1
        ok, blocks = s.call("chunks/iter_line_blocks", lambda: [list(b) for b in iter_line_blocks(path, num_lines=m, chunk_size=k)])
        if ok:
            s.eq([x for b in blocks for x in b], want, "chunks/iter_line_blocks/concatenation", f"num_lines={m} chunk_size={k} text {seen[:200]!r}")
            s.check(all(len(b) == m for b in blocks[:-1]) and all(1 <= len(b) <= m for b in blocks[-1:]), "chunks/iter_line_blocks/block-sizes", f"num_lines={m} chunk_size={k}: {[len(b) for b in blocks]}")
    evals += 1
    ok, blocks = s.call("chunks/iter_line_blocks", lambda: [list(b) for b in iter_line_blocks(path, num_lines=None, chunk_size=ks[0])])
    if ok:
        s.eq(blocks, [want] if want else [], "chunks/iter_line_blocks/num_lines=None", f"text {seen[:200]!r}")
    s.evals = evals
    s.nontrivial = len(want) >= 2 and n > 2


# -------------------------------------------------------------- sub: genbank
def genbank_text(rec) -> str:
    L = len(rec["seq"])
    unit = "aa" if rec["mol"] == "protein" else "bp"
    out = ["LOCUS       %-16s %7d %s    %-6s  %-8s BCT 01-JAN-2000" % (rec["locus"], L, unit, rec["mol"], rec["topology"])]
    if rec["definition"]:
        out.append("DEFINITION  generated record %s, complete" % rec["locus"])
        out.append("            sequence.")
    out.append("ACCESSION   %s" % rec["locus"])
    out.append("VERSION     %s.1" % rec["locus"])
    out.append("KEYWORDS    .")
    if rec["source"]:
        out.append("SOURCE      Escherichia coli")
        out.append("  ORGANISM  Escherichia coli")
        out.append("            Bacteria; Proteobacteria; Gammaproteobacteria.")
    out.append("FEATURES             Location/Qualifiers")
    out.append("     %-16s%s" % ("source", f"1..{L}"))
    out.append('                     /organism="Escherichia coli"')
    if rec["mol"] != "protein":
        out.append('                     /mol_type="genomic %s"' % ("RNA" if "RNA" in rec["mol"] else "DNA"))
    for i, (kind, a, b, minus) in enumerate(rec["feats"]):
        loc = f"{a}..{b}"
        out.append("     %-16s%s" % (kind, f"complement({loc})" if minus else loc))
        out.append(f'                     /gene="g{i}"')
        if kind == "CDS":
            out.append(f'                     /product="hypothetical protein {i}"')
    out.append("ORIGIN")
    seq = rec["seq"]
    for i in range(0, L, 60):
        chunk = seq[i : i + 60]
        out.append("%9d %s" % (i + 1, " ".join(chunk[j : j + 10] for j in range(0, len(chunk), 10))))
    out.append("//")
    return "\n".join(out) + "\n"


def exec_genbank(case) -> Soft:
    s = Soft("C06/")
    root = _tmpdir()
    try:
        _genbank(s, case, root)
    finally:
        shutil.rmtree(root, ignore_errors=True)
    return s


def _genbank(s: Soft, case, root):
    from cogent3 import load_seq, load_unaligned_seqs
    from cogent3.parse import genbank

    recs = case["records"]
    text = "".join(genbank_text(r) for r in recs)
    path = os.path.join(root, f"g.{case['ext']}{case['suffix']}")
    _write_raw(path, text.encode("ascii"))
    want = [(r["locus"], r["seq"].upper()) for r in recs]
    what = f"generated GenBank text {text[:200]!r}"
    s.cls(f"records={len(recs)}", f"suffix={case['suffix'] or 'plain'}")
    if any(len(r["seq"]) % 60 == 0 for r in recs):
        s.cls("len-multiple-of-60")
    if any(len(r["seq"]) % 10 == 0 for r in recs):
        s.cls("len-multiple-of-10")
    if any(r["feats"] for r in recs):
        s.cls("has-features")
    if any(not r["source"] for r in recs):
        s.cls("no-source-block")
    if any(r["mol"] == "protein" for r in recs):
        s.cls("protein-record")
    evals = 0
    # a file with more than one record is a circumstance with its own root cause: one signature for all entry points
    multi = "genbank/multi-record-file" if len(recs) > 1 else None
    sources = [("bytes", lambda: text.encode("ascii")), ("str-path", lambda: path), ("Path", lambda: pathlib.Path(path))]
    for label, src in sources:
        for full in (True, False):
            evals += 1
            c = _Clause(s, f"genbank/minimal_parser({label},{'metadata' if full else 'no-metadata'})", multi)
            kw = {} if full else {"convert_features": None}
            ok, got = c.call(lambda: [dict(r) for r in genbank.minimal_parser(src(), **kw)])
            if not ok:
                continue
            if c.eq([str(r.get("locus")) for r in got], [w[0] for w in want], "locus", what):
                c.eq([str(r.get("sequence")) for r in got], [w[1] for w in want], "sequence", what)
                if full:
                    c.eq([r.get("length") for r in got], [len(w[1]) for w in want], "length-field", what)
                    c.eq([r.get("mol_type") for r in got], [r["mol"] for r in recs], "mol_type-field", what)
                    c.eq([len(r.get("features", [])) for r in got], [1 + len(r["feats"]) for r in recs], "feature-count", what)
        for just_seq in (False, True):
            evals += 1
            c = _Clause(s, f"genbank/rich_parser({label},just_seq={just_seq})", multi)
            ok, got = c.call(lambda: [(str(n), str(q)) for n, q in genbank.rich_parser(src(), just_seq=just_seq)])
            if ok and c.eq([g[0] for g in got], [w[0] for w in want], "locus", what):
                c.eq([g[1] for g in got], [w[1] for w in want], "sequence", what)
        if all(r["mol"] == "protein" for r in recs):
            # the documented moltype argument on protein records
            evals += 1
            c = _Clause(s, f"genbank/rich_parser({label},moltype=protein)", multi)
            ok, got = c.call(lambda: [(str(n), str(q), q.moltype.label) for n, q in genbank.rich_parser(src(), moltype="protein", just_seq=True)])
            if ok:
                c.eq(got, [(w[0], w[1], "protein") for w in want], "records", what)
    evals += 2
    c = _Clause(s, "genbank/load_unaligned_seqs", multi)
    ok, coll = c.call(lambda: load_unaligned_seqs(path, moltype="text"))
    if ok:
        _check_loaded(c, coll, want, what)
    c = _Clause(s, "genbank/load_seq", multi)
    ok, one = c.call(lambda: load_seq(path, moltype="text"))
    if ok:
        ok, got = c.call(lambda: (str(one.name), str(one)))
        if ok:
            c.eq(got, want[0], "first-record", what)
    s.evals = evals
    s.nontrivial = len(recs) >= 2 or any(len(r["seq"]) % 10 == 0 or r["feats"] for r in recs)


# ------------------------------------------------------------- sub: zipwrite
def _listing(d):
    out = []
    for base, dirs, files in os.walk(d):
        rel = os.path.relpath(base, d)
        out += [os.path.normpath(os.path.join(rel, x)) for x in dirs + files]
    return sorted(out)


def _zip_members(path):
    """(names, {name: bytes}, testzip result) of an archive, read with the standard library"""
    with zipfile.ZipFile(path) as z:
        names = z.namelist()
        return names, {n: z.read(n) for n in names}, z.testzip()


def _zip_written(s: Soft, sig: str, zdir: str, zname: str, plain: bytes, what: str) -> bool:
    """the directory holds the archive only, the archive is sound, has one member and that member is what the plain write gives"""
    left = _listing(zdir)
    ok = s.eq(left, [zname], f"{sig}/directory-content", f"{what}: directory after the write {left!r}")
    if zname not in left:
        return False
    try:
        members, content, bad = _zip_members(os.path.join(zdir, zname))
    except (zipfile.BadZipFile, OSError, EOFError) as e:
        s.fail(f"{sig}/unreadable-archive", f"{what}: {type(e).__name__}: {e}")
        return False
    ok = s.check(bad is None, f"{sig}/unsound-archive", f"{what}: testzip() reports {bad!r}") and ok
    if not s.eq(len(members), 1, f"{sig}/member-count", f"{what}: members {members!r}"):
        return False
    s.cls("zip-member-named-after-file" if members[0] == zname[: -len(".zip")] else "zip-member-other-name")
    return s.eq(content[members[0]], plain, f"{sig}/member-differs-from-plain-write", what) and ok


def exec_zipwrite(case) -> Soft:
    s = Soft("C06/")
    root = _tmpdir()
    try:
        _zipwrite(s, case, root)
    finally:
        shutil.rmtree(root, ignore_errors=True)
    return s


def _newick(spec):
    tips = [t if l is None else f"{t}:{l}" for t, l in zip(spec["tips"], spec["lengths"])]
    if spec["shape"] == "star":
        return "(" + ",".join(tips) + ");"
    cur = f"({tips[0]},{tips[1]})"
    for t in tips[2:-1]:
        cur = f"({cur}:1.5,{t})"
    return f"({cur}:0.25,{tips[-1]});" if len(tips) > 2 else cur + ";"


def _zipwrite(s: Soft, case, root):
    from cogent3 import load_seq, load_tree, make_aligned_seqs, make_tree, make_unaligned_seqs
    from cogent3.parse import fasta as pfasta
    from cogent3.parse.sequence import PARSERS

    mt, names, seqs, kind = case["moltype"], case["names"], case["seqs"], case["kind"]
    bs = case["block_size"]
    ragged = len({len(q) for q in seqs}) > 1

    def make(order):
        data = {n: dict(zip(names, seqs))[n] for n in order}
        if kind in ("array", "aln"):
            return make_aligned_seqs(data, moltype=mt, array_align=kind == "array")
        return make_unaligned_seqs(data, moltype=mt, new_type=kind == "newcoll")

    s.nontrivial = _set_classes(s, names, seqs, mt, bs or 60)
    s.cls(f"kind={kind}", f"block_size={bs}")
    ok, obj = s.call(f"construct/{kind}", lambda: make(names))
    if not ok:
        return
    evals = [0]
    formats = ["fasta", "gde", "json"] if ragged else ["fasta", "phylip", "paml", "gde", "json"]
    for fmt in formats:
        ext = case["fasta_suffix"] if fmt == "fasta" else fmt
        pre = f"zipwrite/{fmt}"
        # the text formats share one writer (format.alignment.save_to_filename), json has its own: one signature each
        wsig = "zipwrite/seqs[json]/write" if fmt == "json" else "zipwrite/seqs[text-format]/write"
        kw = {"block_size": bs} if (bs and fmt != "json") else {}
        want = [(n[:9].strip() if fmt == "phylip" else n, q) for n, q in zip(names, seqs)]
        s.cls(f"fmt={fmt}")
        ppath = os.path.join(root, f"p_{fmt}.{ext}")
        ok, _ = s.call(f"{pre}/plain-write/{kind}", lambda: obj.write(ppath, **kw))
        if not ok:
            continue
        plain = _read_raw(ppath)
        zdir = os.path.join(root, f"z_{fmt}")
        os.mkdir(zdir)
        zname = f"x.{ext}.zip"
        zpath = os.path.join(zdir, zname)
        what = f"{kind}.write('{zname}') block_size={bs}; names {names!r}"
        evals[0] += 1
        ok, _ = s.call(wsig, lambda: obj.write(zpath, **kw))
        if not ok:
            # refused: at least nothing may be left where the archive was to be
            s.cls("zip-write-refused")
            left = _listing(zdir)
            s.check(not left, f"{wsig}/refused-but-left-files", f"{what}: {left!r}")
            continue
        s.cls("zip-write-done")
        if not _zip_written(s, f"{pre}/written", zdir, zname, plain, what):
            continue
        # load back
        loads = [(kind, lambda: _load(kind, zpath, mt))]
        other = {"array": "coll", "aln": "array", "coll": "newcoll", "newcoll": "coll"}[kind]
        if ragged and other in ("array", "aln"):
            other = "coll"
        if fmt != "json":
            loads.append((other, lambda: _load(other, zpath, mt)))
        for k, fn in loads:
            evals[0] += 1
            c = _clause(s, "zipwrite", f"{pre}/load/{k}", names, _reads(fmt))
            ok, back = c.call(fn)
            if ok:
                _check_loaded(c, back, want, what)
        if fmt != "json":
            evals[0] += 1
            c = _clause(s, "zipwrite", f"{pre}/load_seq", names, _reads(fmt))
            ok, one = c.call(lambda: load_seq(zpath, moltype=mt))
            if ok:
                ok, got = c.call(lambda: (str(one.name), str(one)))
                if ok:
                    c.eq(got, want[0], "first-record", what)
            entries = [(f"PARSERS[{fmt}](str-path)", _reads(fmt), lambda: _records(PARSERS[fmt], zpath)), (f"PARSERS[{fmt}](Path)", _reads(fmt), lambda: _records(PARSERS[fmt], pathlib.Path(zpath)))]
            if fmt == "fasta":
                entries.append(("MinimalFastaParser(str-path,strict)", "text-open", lambda: _records(pfasta.MinimalFastaParser, zpath, strict=True)))
            for label, reads, fn in entries:
                evals[0] += 1
                c = _clause(s, "zipwrite", f"{pre}/parse/{label}", names, reads)
                ok, got = c.call(fn)
                if ok and c.eq([r[0] for r in got], [r[0] for r in want], "labels", what):
                    c.eq([r[1] for r in got], [r[1] for r in want], "seqs", what)
        # a second write to the same path replaces the archive
        if case["overwrite"] and len(names) > 1:
            s.cls("zip-overwrite")
            order = list(reversed(names))
            ok, obj2 = s.call(f"construct/{kind}", lambda: make(order))
            if not ok:
                continue
            ppath2 = os.path.join(root, f"p2_{fmt}.{ext}")
            ok, _ = s.call(f"{pre}/plain-write/{kind}", lambda: obj2.write(ppath2, **kw))
            if not ok:
                continue
            evals[0] += 1
            ok, _ = s.call(wsig.replace("/write", "/overwrite"), lambda: obj2.write(zpath, **kw))
            if ok and _zip_written(s, f"{pre}/overwritten", zdir, zname, _read_raw(ppath2), "second " + what):
                c = _clause(s, "zipwrite", f"{pre}/overwritten/load/{kind}", names, _reads(fmt))
                ok, back = c.call(lambda: _load(kind, zpath, mt))
                if ok:
                    _check_loaded(c, back, list(reversed(want)), "second " + what)
    # the tree writer uses the same compression-aware open: plain and zipped files must hold the same text
    spec = case["tree"]
    ext = spec["suffix"]
    s.cls(f"tree-suffix={ext}")
    nwk = _newick(spec)
    ok, tree = s.call("construct/tree", lambda: make_tree(nwk))
    if ok:
        tsig = "zipwrite/tree[json]" if ext == "json" else "zipwrite/tree[newick-or-xml]"
        ppath = os.path.join(root, f"pt.{ext}")
        zdir = os.path.join(root, "z_tree")
        os.mkdir(zdir)
        zname = f"t.{ext}.zip"
        zpath = os.path.join(zdir, zname)
        what = f"tree {nwk} written as {zname}"
        ok, _ = s.call(f"{tsig}/plain-write", lambda: tree.write(ppath))
        if ok:
            evals[0] += 1
            ok, _ = s.call(f"{tsig}/write", lambda: tree.write(zpath))
            if not ok:
                s.cls("tree-zip-write-refused")
                left = _listing(zdir)
                s.check(not left, f"{tsig}/write/refused-but-left-files", f"{what}: {left!r}")
            elif _zip_written(s, f"{tsig}/written", zdir, zname, _read_raw(ppath), what):
                s.cls("tree-zip-write-done")
                evals[0] += 1
                ok, got = s.call(f"{tsig}/load_tree", lambda: (load_tree(zpath).get_newick(with_distances=True), load_tree(ppath).get_newick(with_distances=True)))
                if ok:
                    s.eq(got[0], got[1], f"{tsig}/load_tree/differs-from-plain", what)
    s.evals = evals[0]


# ----------------------------------------------------------- sub: chunkparse
def exec_chunkparse(case) -> Soft:
    s = Soft("C06/")
    root = _tmpdir()
    try:
        _chunkparse(s, case, root)
    finally:
        shutil.rmtree(root, ignore_errors=True)
    return s


def _chunkparse(s: Soft, case, root):
    from cogent3.parse import fasta as pfasta
    from cogent3.parse import paml as ppaml
    from cogent3.parse import phylip as pphylip
    from cogent3.util.io import iter_splitlines

    fmt, names, seqs, mt = case["fmt"], case["names"], case["seqs"], case["moltype"]
    text, want = layout(case)
    base = fmt.split("-")[0]
    path = os.path.join(root, f"k.{base}{case['suffix']}")
    _write_raw(path, text.encode("ascii"))
    seen = text.replace("\r\n", "\n")
    n = len(seen)
    parsers = {
        "fasta": [("MinimalFastaParser(strict)", lambda it: pfasta.MinimalFastaParser(it, strict=True)), ("MinimalFastaParser(non-strict)", lambda it: pfasta.MinimalFastaParser(it, strict=False))],
        "gde": [("MinimalGdeParser(strict)", lambda it: pfasta.MinimalGdeParser(it, strict=True)), ("MinimalGdeParser(non-strict)", lambda it: pfasta.MinimalGdeParser(it, strict=False))],
        "phylip": [("MinimalPhylipParser", lambda it: pphylip.MinimalPhylipParser(it))],
        "paml": [("PamlParser", lambda it: ppaml.PamlParser(it))],
    }[base]
    if n <= 160:
        ks = list(range(1, n + 3))
        s.cls("every-chunk-size")
    else:
        ends, pos = set(), 0
        for line in seen.split("\n"):
            pos += len(line) + 1
            ends.update((pos - 1, pos, pos + 1))
        ks = sorted(k for k in ends | {1, 2, 3, n - 1, n, n + 1, n + 2} if 1 <= k <= n + 2)
        if len(ks) > 80:
            step = len(ks) / 80.0
            ks = sorted({ks[int(i * step)] for i in range(80)})
        s.cls("boundary-chunk-sizes")
    s.nontrivial = _set_classes(s, names, seqs, mt, case["width"]) and n > 2
    s.cls(f"layout={fmt}", f"suffix={case['suffix'] or 'plain'}", "crlf" if case["crlf"] else "lf")
    if case["blank_between"]:
        s.cls("blank_between")
    if not case["final_nl"]:
        s.cls("no-final-newline")
    evals = 0
    for label, parse in parsers:
        # the whole-file parse of the same lines is the reference of "identical records"; it must also be the model
        c = _clause(s, "chunkparse", f"chunkparse/{fmt}/{label}/whole-file", names, "memory")
        ok, whole = c.call(lambda: _records(parse, seen.splitlines()))
        if not ok:
            continue
        evals += 1
        if not (c.eq([r[0] for r in whole], [w[0] for w in want], "labels", f"{text[:160]!r}") and c.eq([r[1] for r in whole], [w[1] for w in want], "seqs", f"{text[:160]!r}")):
            continue
        c = _clause(s, "chunkparse", f"chunkparse/{fmt}/{label}/chunked", names, "text-open")
        for k in ks:
            evals += 1
            ok, got = c.call(lambda: _records(parse, iter_splitlines(path, chunk_size=k)))
            if not ok or not c.eq(got, whole, "records-differ-from-whole-file", f"chunk_size={k} of {n} characters, text {text[:160]!r}"):
                break
    s.evals = evals


# ---------------------------------------------------------- sub: entrypoints
RENAMERS = {
    "bracket": lambda x: f"[{x}]",
    "first-word": lambda x: x.split()[0],
    "upper": lambda x: x.upper(),
    "reverse": lambda x: x[::-1],
}


def exec_entrypoints(case) -> Soft:
    s = Soft("C06/")
    root = _tmpdir()
    try:
        _entrypoints(s, case, root)
    finally:
        shutil.rmtree(root, ignore_errors=True)
    return s


def _fasta_text(labels, seqs, case):
    lines = []
    for n, q in zip(labels, seqs):
        lines.append(">" + n)
        lines.extend(_wrap(q, case["width"]))
        if case["blank_between"]:
            lines.append("")
    nl = "\r\n" if case["crlf"] else "\n"
    return nl.join(lines) + (nl if case["final_nl"] else "")


def _entry_plain_empty(s: Soft, case, labels, text, lines, path, evals, what):
    """plain mode on text with label-only records: the bytes family (handles, label_to_name) under clause (ii), the line
    family as documented (strict: RecordError; non-strict: such records are skipped)"""
    from cogent3 import get_moltype, open_
    from cogent3.parse import fasta as pfasta
    from cogent3.parse.record import RecordError

    mt, seqs = case["moltype"], case["seqs"]
    _empty_classes(s, seqs)
    sub = "entrypoints"
    want = list(zip(labels, seqs))
    rn = RENAMERS[case["renamer"]]
    s.cls(f"renamer={case['renamer']}")
    renamed = [(rn(n), q) for n, q in want]
    make_seq = get_moltype(mt).make_seq

    def handle(opener, **kw):
        with opener() as f:
            return _records(pfasta.iter_fasta_records, f, **kw)

    entries = [
        ("iter_fasta_records(open_-handle)", "bytes", "fasta-bytes", lambda: handle(lambda: open_(path)), want),
        ("iter_fasta_records(bytes,label_to_name)", "bytes", "fasta-bytes", lambda: _records(pfasta.iter_fasta_records, text.encode("ascii"), label_to_name=rn), renamed),
        ("iter_fasta_records(str-path,label_to_name)", "bytes", "fasta-bytes", lambda: _records(pfasta.iter_fasta_records, path, label_to_name=rn), renamed),
        ("iter_fasta_records(open_-handle,label_to_name)", "bytes", "fasta-bytes", lambda: handle(lambda: open_(path), label_to_name=rn), renamed),
        ("iter_fasta_records(list,label_to_name)", "lenient", "memory", lambda: _records(pfasta.iter_fasta_records, list(lines), label_to_name=rn), renamed),
        ("MinimalFastaParser(list,strict,label_to_name)", "strict", "memory", lambda: _records(pfasta.MinimalFastaParser, list(lines), strict=True, label_to_name=rn), renamed),
        ("MinimalFastaParser(list,non-strict,label_to_name)", "lenient", "memory", lambda: _records(pfasta.MinimalFastaParser, list(lines), strict=False, label_to_name=rn), renamed),
        ("MinimalFastaParser(str-path,strict,label_to_name)", "strict", "text-open", lambda: _records(pfasta.MinimalFastaParser, path, strict=True, label_to_name=rn), renamed),
        ("FastaParser(list,strict)", "strict", "memory", lambda: _records(pfasta.FastaParser, list(lines), strict=True), want),
        ("FastaParser(list,non-strict)", "lenient", "memory", lambda: _records(pfasta.FastaParser, list(lines), strict=False), want),
        ("FastaParser(str-path,non-strict)", "lenient", "text-open", lambda: _records(pfasta.FastaParser, path, strict=False), want),
        (f"FastaParser(list,{mt}.make_seq,non-strict)", "lenient", "memory", lambda: _records(pfasta.FastaParser, list(lines), seq_maker=make_seq, strict=False), want),
    ]
    if not case["suffix"]:
        entries.append(("iter_fasta_records(builtin-open-handle)", "bytes", "fasta-bytes", lambda: handle(lambda: open(path)), want))
    for label, family, reads, fn, expected in entries:
        evals[0] += 1
        c = _eclause(s, sub, f"{sub}/{label}[empty-record]", labels, reads)
        w = f"{label} on {what}"
        if family == "bytes":
            ok, got = c.call(fn, allowed=(RecordError,))
            if ok:
                _uniform(c, got, expected, w)
        elif family == "strict":
            ok, got = c.call(fn, allowed=(RecordError,))
            c.check(not ok, "strict-parser-accepts-record-without-data", f"{w}: no RecordError, got {got!r}")
        else:
            ok, got = c.call(fn)
            if ok:
                c.eq(got, _kept(expected), "records", w)


def _entrypoints(s: Soft, case, root):
    from cogent3 import get_moltype, open_
    from cogent3.parse import fasta as pfasta

    mt, mode, seqs = case["moltype"], case["mode"], case["seqs"]
    if mode == "plain":
        labels = list(case["names"])
    elif mode == "ncbi":
        sep = " | " if case["pad"] else "|"
        labels = [sep.join(["gi", gi, db, acc, desc]).strip() for gi, db, acc, desc in case["fields"]]
    else:
        labels = [":".join(g) for g in case["groups"]]
    text = _fasta_text(labels, seqs, case)
    lines = text.splitlines()
    path = os.path.join(root, f"e.fasta{case['suffix']}")
    _write_raw(path, text.encode("ascii"))
    s.cls(f"mode={mode}", mt, f"suffix={case['suffix'] or 'plain'}", "crlf" if case["crlf"] else "lf", f"records={min(len(labels), 4)}")
    if case["blank_between"]:
        s.cls("blank_between")
    s.nontrivial = len(labels) >= 2
    evals = [0]
    what = f"text {text[:200]!r}"
    sub = "entrypoints"

    def run(label, reads, fn, want, part="records"):
        evals[0] += 1
        c = _clause(s, sub, f"{sub}/{label}", labels, reads)
        ok, got = c.call(fn)
        if ok:
            c.eq(got, want, part, f"{label} on {what}")

    make_seq = get_moltype(mt).make_seq
    if mode == "plain" and _has_empty(seqs):
        _entry_plain_empty(s, case, labels, text, lines, path, evals, what)
    elif mode == "plain":
        want = list(zip(labels, seqs))
        # text handles (io.TextIOWrapper) given to the bytes parser
        def handle(opener, **kw):
            with opener() as f:
                return _records(pfasta.iter_fasta_records, f, **kw)

        run("iter_fasta_records(open_-handle)", "fasta-bytes", lambda: handle(lambda: open_(path)), want)
        if not case["suffix"]:
            run("iter_fasta_records(builtin-open-handle)", "fasta-bytes", lambda: handle(lambda: open(path)), want)
        # label_to_name of every FASTA entry point
        rn = RENAMERS[case["renamer"]]
        s.cls(f"renamer={case['renamer']}")
        renamed = [(rn(n), q) for n, q in want]
        for label, reads, fn in [
            ("iter_fasta_records(bytes,label_to_name)", "fasta-bytes", lambda: _records(pfasta.iter_fasta_records, text.encode("ascii"), label_to_name=rn)),
            ("iter_fasta_records(str-path,label_to_name)", "fasta-bytes", lambda: _records(pfasta.iter_fasta_records, path, label_to_name=rn)),
            ("iter_fasta_records(Path,label_to_name)", "fasta-bytes", lambda: _records(pfasta.iter_fasta_records, pathlib.Path(path), label_to_name=rn)),
            ("iter_fasta_records(list,label_to_name)", "memory", lambda: _records(pfasta.iter_fasta_records, list(lines), label_to_name=rn)),
            ("iter_fasta_records(open_-handle,label_to_name)", "fasta-bytes", lambda: handle(lambda: open_(path), label_to_name=rn)),
            ("MinimalFastaParser(list,strict,label_to_name)", "memory", lambda: _records(pfasta.MinimalFastaParser, list(lines), strict=True, label_to_name=rn)),
            ("MinimalFastaParser(list,non-strict,label_to_name)", "memory", lambda: _records(pfasta.MinimalFastaParser, list(lines), strict=False, label_to_name=rn)),
            ("MinimalFastaParser(str-path,strict,label_to_name)", "text-open", lambda: _records(pfasta.MinimalFastaParser, path, strict=True, label_to_name=rn)),
        ]:
            run(label, reads, fn, renamed)
        # record-object parsers
        for strict in (True, False):
            tag = "strict" if strict else "non-strict"
            for src_label, reads, src in [("list", "memory", lambda: list(lines)), ("str-path", "text-open", lambda: path)]:
                run(f"FastaParser({src_label},{tag})", reads, lambda: [(str(n), str(q), str(q.name)) for n, q in pfasta.FastaParser(src(), strict=strict)], [(n, q, n) for n, q in want])
            run(
                f"FastaParser(list,{mt}.make_seq,NameLabelInfo,{tag})",
                "memory",
                lambda: [(str(n), str(q), str(q.name), str(q.info.label), q.moltype.label) for n, q in pfasta.FastaParser(list(lines), seq_maker=make_seq, info_maker=pfasta.NameLabelInfo, strict=strict)],
                [(n.split()[0], q, n.split()[0], n, mt) for n, q in want],
            )
    elif mode == "ncbi":
        dbs = pfasta.NcbiLabels
        want = []
        for (gi, db, acc, desc), q in zip(case["fields"], seqs):
            want.append((gi, q, gi, [gi], [acc], desc))
        for strict in (True, False):
            tag = "strict" if strict else "non-strict"
            for src_label, reads, src in [("list", "memory", lambda: list(lines)), ("Path", "text-open", lambda: pathlib.Path(path))]:
                run(
                    f"NcbiFastaParser({src_label},{tag})",
                    reads,
                    lambda: [(str(n), str(q), str(q.name), list(q.info.GI), list(q.info[dbs[f[1]]]), str(q.info.Description)) for (n, q), f in zip(pfasta.NcbiFastaParser(src(), seq_maker=make_seq, strict=strict), case["fields"])],
                    want,
                )
        # the number of records, separately (zip above stops at the shorter)
        run("NcbiFastaParser(list,default-seq_maker)", "memory", lambda: [(str(n), str(q)) for n, q in pfasta.NcbiFastaParser(list(lines))], [(w[0], w[1]) for w in want])
        # the generic parsers keep the whole label
        run("MinimalFastaParser(list,strict)", "memory", lambda: _records(pfasta.MinimalFastaParser, list(lines)), list(zip(labels, seqs)))
        run("iter_fasta_records(str-path)", "fasta-bytes", lambda: _records(pfasta.iter_fasta_records, path), list(zip(labels, seqs)))
    else:
        groups, done, aligned = case["groups"], case["done"], case["aligned"]
        order = []
        for g, _, _ in groups:
            if g not in order:
                order.append(g)
        members = {g: [(m, q) for (gg, _, m), q in zip(groups, seqs) if gg == g] for g in order}
        s.cls(f"groups={len(order)}", "aligned" if aligned else "unaligned")
        if done:
            s.cls("done_groups")
        last = order[-1]
        live = [g for g in order if g not in done]
        # circumstances with a root cause of their own (one signature each):
        # * GroupFastaParser builds every group but the last as an alignment whatever ``aligned`` says
        # * the last group is yielded without consulting done_groups (evaluated in a call of its own below)
        tag = ""
        if not aligned and any(len({len(q) for _, q in members[g]}) > 1 for g in live if g != last):
            tag = "[unaligned-ragged-nonlast-group]"
            s.cls("ragged-nonlast-group")
        kw = {"aligned": aligned}
        if case["typed"]:
            kw["moltype"] = get_moltype(mt)
            s.cls("typed")

        def grouped(src, **kw):
            lp = pfasta.LabelParser("%(name)s", [(0, "Group", str), (1, "seq_id", str), (2, "name", str)], split_with=":")
            out = []
            for coll in pfasta.GroupFastaParser(src, lp, **kw):
                d = coll.to_dict()
                out.append((str(coll.info.Group), [str(x) for x in coll.names], [str(d[x]) for x in coll.names]))
            return out

        def expect(excluded):
            return [(g, [m for m, _ in members[g]], [q for _, q in members[g]]) for g in order if g not in excluded]

        done1 = [g for g in done if g != last]
        kw1 = dict(kw, done_groups=list(done1)) if done1 else kw
        evals[0] += 1
        ok, got = s.call(f"{sub}/GroupFastaParser{tag}", lambda: grouped(list(lines), **kw1))
        if ok:
            s.eq(got, expect(done1), f"{sub}/GroupFastaParser{tag}/groups", f"aligned={aligned} done_groups={done1} typed={case['typed']} on {what}")
        if last in done and not tag:
            s.cls("last-group-done")
            evals[0] += 1
            ok, got = s.call(f"{sub}/GroupFastaParser[last-group-done]", lambda: grouped(list(lines), **dict(kw, done_groups=list(done))))
            if ok:
                s.eq(got, expect(done), f"{sub}/GroupFastaParser[last-group-done]/groups", f"aligned={aligned} done_groups={done} on {what}")
        # label_to_name given a LabelParser: the generic parser returns the display names
        lp = pfasta.LabelParser("%(name)s/%(Group)s", [(0, "Group", str), (2, "name", str)], split_with=":")
        run("MinimalFastaParser(list,LabelParser)", "memory", lambda: _records(pfasta.MinimalFastaParser, list(lines), label_to_name=lp), [(f"{m}/{g}", q) for (g, _, m), q in zip(groups, seqs)])
    s.evals = evals[0]


SUBS = [
    Sub("roundtrip", exec_roundtrip, strategy=set_cases(), quick=1600, thorough=160_000, shards_quick=16),
    Sub("variants", exec_variants, strategy=variant_cases(), quick=1600, thorough=160_000, shards_quick=8),
    Sub("chunks", exec_chunks, strategy=chunk_cases(), quick=800, thorough=80_000, shards_quick=8),
    Sub("genbank", exec_genbank, strategy=genbank_cases(), quick=400, thorough=40_000, shards_quick=4),
    Sub("zipwrite", exec_zipwrite, strategy=zip_cases(), quick=480, thorough=48_000, shards_quick=16),
    Sub("chunkparse", exec_chunkparse, strategy=chunkparse_cases(), quick=480, thorough=48_000, shards_quick=8),
    Sub("entrypoints", exec_entrypoints, strategy=entry_cases(), quick=800, thorough=80_000, shards_quick=8),
]

KNOWN_PREDICATES = {}

# thorough tier: coverage-guided campaigns (atheris/libFuzzer mutating the bytes Hypothesis draws from)
FUZZ = {
    "subs": ['chunks', 'genbank'],  # roundtrip/variants cases need more than the 8 KB of choices fuzz_one_input accepts
    "targets": ['cogent3.parse', 'cogent3.format', 'cogent3.util.io'],
    "execs_thorough": 40_000, "jobs_thorough": 4, "execs_quick": 1000, "jobs_quick": 2,
}

META = {
    "technique": "Hypothesis-generated name/sequence sets; write->load round trip against the generated set (plain, .gz, .bz2 and .zip written by the library itself), differential between all parser entry points of a format on identical text (cogent3-written and harness-written layouts), chunked line streaming against str.splitlines and, fed to the parsers, against the whole-file parse",
    "level_text": "Each run writes about 1 600 generated sets (names weighted towards FASTA/PHYLIP/Newick metacharacters, lengths around the wrap width and the PHYLIP label field) in all five formats with plain/gz/bz2/zip suffixes through four collection classes, loads them back and feeds the written text to every parser entry point (bytes, list, tuple, str path, Path; strict and non-strict); a further 1 600 sets are laid out by the harness itself (other widths, CRLF, blank lines, interleaved PHYLIP) and 800 line lists are streamed with every chunk size; 480 sets are written straight to .zip destinations in every format (plus a tree), 480 small files are streamed into the line parsers with every chunk size, and 800 FASTA texts go through the record-object / label-callback entry points. About 130 of the roundtrip sets, 80 of the harness layouts and 130 of the entry-point texts hold zero-length records (first / middle / last / all), about 100 layouts are lower case.",
    "level_note": "Exploration only: no coverage-guided byte-level fuzzing of the parsers (the design's atheris part is left out); Clustal/MSF/Nexus/XMFA parsers are not exercised; the name of the member inside a library-written .zip is not asserted; real GenPept LOCUS lines (empty molecule column) are not generated; zero-length sequences are generated for the unaligned classes and FASTA/GDE/JSON only (not for alignments, PHYLIP, PAML, zipwrite, chunkparse); lower case reaches the FASTA/GDE parsers only, never a collection writer or loader.",
    "design_ref": "DESIGN.md section 1, C06",
}
