"""C10 — every serialisable object round-trips, whatever state it is in.

Oracle: round trip with observational equality.  An object is brought into a
non-fresh state by a generated history (slices, strides, reverse complements,
re-rooting, scoped parameter rules, ...), observed with type specific
observers written here (strings, names, coordinates, features, parameter
values, log-likelihood), sent through every serialisation route
(``to_json`` -> ``deserialise_object``, ``to_rich_dict`` ->
``deserialise_object``, ``pickle``) and observed again.  For sequences and
collections the observation of the original is additionally compared with a
plain-string model of the history, so that "both sides equally wrong" is not
accepted silently.
"""

from __future__ import annotations

import json
import math
import os
import pickle
import shutil
import tempfile

from hypothesis import strategies as st

from vlib.core import HarnessError, Soft, Sub, exception_site, raised_in_repo

PROPERTY_ID = "C10"
LEVEL = "exploration"
RULE = (
    "A case is a type from the deserialiser registry, generated content, and a history of 0-4 state changing operations applied "
    "before serialisation: sequences (old/new implementation, 6 moltypes, annotation offset, features) after slice / stride / rc / "
    "reversed-stride chains; Alignment, ArrayAlignment, SequenceCollection (old/new) with row features after take_seqs / slice / rc / "
    "take_positions / degap / to_type, plus their Aligned rows and SeqsData; IndelMap / FeatureMap after slicing and nucleic reversal; "
    "trees with extra edge parameters after re-rooting, unrooting, pruning, sorting; Table / DictArray / DistanceMatrix after "
    "sorted / filtered / get_columns / with_new_column / take_dists / drop_invalid; annotation dbs (Basic / Gff / Genbank) after "
    "add / update / union / subset; likelihood functions (continuous and discrete models, rate bins, multiple loci with unsorted "
    "names) after scoped parameter rules, motif-prob setting and a short optimisation; app results (generic, model, split-codon model, "
    "hypothesis, model collection, bootstrap, tabular) and NotCompleted with nested sources; codon (GY94, CNFGTR, MG94GTR) and empirical protein (JTT92, WG01, "
    "DSO78, AH96, optionally gamma rate bins) likelihood functions with the same histories (sub-check lf_families); profile arrays (MotifCountsArray, "
    "MotifFreqsArray, PSSM) obtained from alignments (counts_per_pos / counts_per_seq / probs_per_pos / probs_per_seq / to_freq_array / to_pssm / motif_totals, "
    "motif length 1-3, gaps / ambiguity included or not) or built directly (string / int / default row keys, 1-D and 2-D, background, pseudocount, log-odds "
    "given as such) after take (rows, motifs, negate) / row indexing / row slicing, alone and as a tabular_result member, plus 1-3 dimensional DictArrays with "
    "string / range / arbitrary int keys and DistanceMatrix, all additionally through copy.copy and copy.deepcopy: the copy must be of the same class with "
    "equal names, array, dtype kind, shape, to_dict, motifs and equal results of derived methods (to_freq_array, to_pssm, motif_totals, entropy, "
    "relative_entropy, information, pairwise_jsd, score_seq, str) (sub-check profile). Alphabets, moltypes, genetic codes and every registered "
    "substitution model (plus keyword variants and user defined predicate models) are enumerated. Each object is observed, sent "
    "through to_json -> deserialise_object, to_rich_dict -> deserialise_object and pickle, and observed again; observations must be "
    "equal (floats of likelihood functions within 1e-9 relative). Codon models are also built for non-standard genetic codes "
    "(get_model(name, gc=k), k in 2, 4, 6, 12 and an explicit 1; GY94, Y98, CNFGTR, MG94GTR and the non-reversible GNC in the models sub-check, "
    "GY94 / CNFGTR / MG94GTR likelihood functions with histories in lf_families) with alignments that hold a codon which is a sense codon only in that "
    "code (or, code 12, one translated differently): through to_json, to_rich_dict, pickle, copy.copy (models) and copy.deepcopy the copy must have "
    "the same genetic code (ID, name, 64-codon table), the same states, parameter values, psubs and lnL; the code is compared first and a copy with "
    "another code is reported once per route (<route>/genetic-code) without applying the remaining observers. Sequences handed out by a new-style collection "
    "(make_unaligned_seqs(..., new_type=True) of 1-3 dna / rna / protein / text sequences, after 0-2 of rc / take_seqs (also negate=True, reordering) / rename_seqs, then "
    "get_seq(name), then 0-3 of slice / stride / reversed stride / rc; single-span features on the collection when it was not reverse complemented or renamed) are views on the "
    "collection's storage: sub-check collection_seq sends them through to_json, to_rich_dict, pickle, copy.copy, copy.deepcopy, Sequence.copy() and Sequence.copy(sliced=False); the "
    "copy must display the string of the plain-string model (compared first: a copy with another string is reported once per route as <route>/str) and have the same length, name, "
    "class, moltype, parent_coordinates, annotation_offset, info and (pickle / copy routes) features; signatures of views other than the whole plus strand carry the tag "
    "[collection-backed-view]. Registry keys without a generator are reported as classes "
    "'uncovered:<key>'. Non-trivial = the object is not freshly constructed (history length >= 1, or derived alphabet / keyword "
    "variant model); distinct = distinct case encodings."
)
ASSUMPTIONS = [
    "new-style Sequence / SequenceCollection rich dict and JSON are documented not to carry the annotation_db: features of new-style objects are only compared through pickle",
    "features are added to the un-sliced parent (offset 0) or written to the db in absolute coordinates; an observer that already raises on the original object (defects of other properties) is skipped for that case",
    "info is compared without the automatically added 'Refs' key (Info adds it on construction, to_rich_dict removes it)",
    "views are non-empty; alignment histories never slice an alignment that carries alignment-level (on_alignment) features (known finding C04); Alignment strides are not used (documented NotImplementedError)",
    "omit_gap_pos and other filtering operations that may legitimately return None are not part of collection histories",
    "alignment rows that are all gaps in the view (empty sequence views) are not compared for strand / coordinates / features; trees on which the history itself produced duplicate node names are not serialised (rich dicts key edges by name)",
    "tree node names are plain ([a-z0-9.]) (newick punctuation in names is known finding C09); names of internal nodes that were unnamed before serialisation are not compared (to_rich_dict documents that it names them)",
    "moltypes / alphabets are compared by their observable content (motifs, gap, missing, ambiguities, complements, indices), not by identity or ==",
    "likelihood functions: lnL, parameter values and motif probs within 1e-9 relative (+1e-12 absolute); rule sets compared after normalising numeric values with the same tolerance",
    "floating point values of tables, dict arrays, distance matrices, trees and maps must round trip exactly (JSON preserves repr of doubles); NaN equals NaN",
    "model_result keyword evaluation_limit has no public accessor and is not compared",
    "annotation dbs are in-memory (source ':memory:')",
    "discrete-time models (BH, DT) get gap free alignments and are not optimised: get_param_rules deliberately lifts probabilities below 1e-6 (adjusted_gt_minprob), so states with probability parameters on the boundary are outside the exact round-trip domain; codon alignments contain sense codons only",
    "likelihood functions embedded in app results avoid the free rate distribution (reported under lf/bins-free)",
    "with_gap_motif() of a deserialised old-style alphabet is not compared (the moltype's own alphabets are pre-linked to their gapped partners)",
    "profile arrays: tabular_result names MotifCounts / MotifFreqs / PSSM among its item types (matched against the 'type' of stored rich dicts), so the class is part of what must survive JSON / rich dict; "
    "derived methods are only compared on copies of the right class (a lost class is reported once, as <route>/class) and only where they work on the original; producing calls that refuse the input "
    "(all-zero data 'Must provide data', counts_per_seq returning None, frequency rows that no longer sum to 1 after a motif selection, PSSM re-interpreting all-positive scores) end the case or skip the "
    "history step; NaN rows of frequency arrays (0/0, by design) equal NaN; the private PSSM background is not compared; MotifCountsArray.row_totals() raises NotImplementedError on every array and is not used; "
    "protein profiles use motif length 1 (word alphabets of 400 / 8000 members)",
    "copy.copy / copy.deepcopy are treated as serialisation routes of profile arrays, DictArray and DistanceMatrix (they use the pickle protocol); names that are numpy.str_ (a str) compare equal to str",
    "codon likelihood functions of lf_families are sent through JSON and pickle only (the rich-dict route is the JSON route without the text encoding; each copy rebuilds the codon model, 1-3 s); "
    "codon alignments consist of sense codons and whole-codon gaps; substitution model instances of lf_families are built once per process and shared (a likelihood function does not modify its model); "
    "H04G / H04GK / H04GGK are not used there (known finding: aliased predicates)",
    "codon models with a genetic code: get_model(name, **kw) hands gc to TimeReversibleCodon / NonReversibleCodon (parameter 'gc', genetic_code.get_code: number, name or code object); the code is part of "
    "the model's state in the sense of the property (it fixes the states and which exchanges are silent / replacement), so it is observed through model.gc (ID, name, translation of all 64 codons) and "
    "get_motifs(); copy.copy / copy.deepcopy are treated as routes of these models and likelihood functions (they use the pickle protocol; copy.copy of a likelihood function would share its state and "
    "is not used); a model built with a user-made GeneticCode object (no NCBI id) is not generated",
    "sequences of new-style collections (collection_seq): Sequence.to_rich_dict records annotation_offset = start of the view on its parent and the view's step, and the make_seq based sequences "
    "of the sequence sub-check keep parent_coordinates through JSON / rich dict, so the same is required of collection-backed ones; Sequence.copy documents 'The offset is retained' for "
    "sliced=True, and sliced=False copies the view unchanged: parent_coordinates are compared on both; copy.copy / copy.deepcopy use the pickle protocol; the collection's info is not "
    "handed to its sequences and is not compared; features only where the collection documents keeping the link to its annotation_db (no rc, no rename_seqs) and only through routes that "
    "carry the db; if the view handed out by the collection already disagrees with the string / name model (C01 / C03) the case is not used",
]

ROUTES = ("json", "rich_dict", "pickle")
COMP = {"A": "T", "C": "G", "G": "C", "T": "A", "U": "A", "-": "-", "N": "N", "?": "?"}
COMP_RNA = {"A": "U", "C": "G", "G": "C", "U": "A", "-": "-", "N": "N", "?": "?"}


# ===================================================================== helpers
def norm(x):
    """plain comparable structure: numpy -> python, tuples -> lists, NaN -> 'nan'"""
    import numpy

    if isinstance(x, str):
        return x if type(x) is str else str(x)  # numpy.str_ (names produced by numpy.take) is a str
    if isinstance(x, (bytes, bool)) or x is None:
        return x.decode("latin1") if isinstance(x, bytes) else x
    if isinstance(x, numpy.ndarray):
        return norm(x.tolist())
    if isinstance(x, numpy.generic):
        return norm(x.item())
    if isinstance(x, float):
        if math.isnan(x):
            return "nan"
        return x
    if isinstance(x, int):
        return x
    if isinstance(x, dict):
        return {_key(k): norm(v) for k, v in x.items()}
    if isinstance(x, (list, tuple)):
        return [norm(v) for v in x]
    if isinstance(x, (set, frozenset)):
        return sorted((norm(v) for v in x), key=repr)
    return repr(x)


def _key(k):
    if isinstance(k, str):
        return k
    if isinstance(k, (tuple, list)):
        return "|".join(str(norm(v)) for v in k)
    return repr(norm(k))


UNOBS_MARK = "<observer raised on this object>"


def differ(a, b, rtol=0.0, atol=0.0, path=""):
    """first difference between two normalised structures (a: copy, b: original) or None"""
    if isinstance(b, str) and b == UNOBS_MARK:
        return None  # nested observer that already fails on the original
    if isinstance(a, bool) or isinstance(b, bool):
        return None if a is b or a == b and type(a) is type(b) else f"{path}: {a!r} != {b!r}"
    if isinstance(a, (int, float)) and isinstance(b, (int, float)):
        if a == b:
            return None
        if rtol or atol:
            if abs(a - b) <= atol + rtol * max(abs(a), abs(b)):
                return None
        return f"{path}: {a!r} != {b!r}"
    if type(a) is not type(b):
        return f"{path}: {type(a).__name__} {a!r} != {type(b).__name__} {b!r}"[:400]
    if isinstance(a, dict):
        if list(sorted(a)) != list(sorted(b)):
            return f"{path}: keys {sorted(a)} != {sorted(b)}"[:400]
        for k in a:
            d = differ(a[k], b[k], rtol, atol, f"{path}.{k}")
            if d:
                return d
        return None
    if isinstance(a, list):
        if len(a) != len(b):
            return f"{path}: length {len(a)} != {len(b)}: {a!r} != {b!r}"[:400]
        for i, (x, y) in enumerate(zip(a, b)):
            d = differ(x, y, rtol, atol, f"{path}[{i}]")
            if d:
                return d
        return None
    return None if a == b else f"{path}: {a!r} != {b!r}"[:400]


class Unobs:
    """an observer raised inside the code under test"""

    def __init__(self, exc):
        self.exc = exc


def observe(obj, observers):
    """{key: normalised observation | Unobs}; harness exceptions propagate"""
    out = {}
    for key, fn in observers:
        try:
            out[key] = norm(fn(obj))
        except HarnessError:
            raise
        except Exception as e:  # noqa: BLE001
            if not raised_in_repo(e):
                raise
            out[key] = Unobs(e)
    return out


def clean_info(info):
    if info is None:
        return {}
    return {k: v for k, v in dict(info).items() if k != "Refs"}


def send(s: Soft, sig: str, obj, route: str):
    """(ok, copy) of obj through a route; failures recorded under sig/<route>/serialise|deserialise"""
    from cogent3.util.deserialise import deserialise_object

    if route == "json":
        ok, txt = s.call(f"{sig}/json/serialise", obj.to_json)
        if not ok:
            return False, None
        data = json.loads(txt)
        return s.call(f"{sig}/json/deserialise", deserialise_object, data)
    if route == "rich_dict":
        ok, data = s.call(f"{sig}/rich_dict/serialise", obj.to_rich_dict)
        if not ok:
            return False, None
        return s.call(f"{sig}/rich_dict/deserialise", deserialise_object, data)
    if route == "pickle":
        # exceptions raised by the C pickler carry no frame of the code under test: handled here
        try:
            blob = pickle.dumps(obj)
        except Exception as e:  # noqa: BLE001
            s.fail(f"{sig}/pickle/serialise/raises:{type(e).__name__}@{exception_site(e)}", f"{type(e).__name__}: {e}")
            return False, None
        try:
            return True, pickle.loads(blob)
        except Exception as e:  # noqa: BLE001
            s.fail(f"{sig}/pickle/deserialise/raises:{type(e).__name__}@{exception_site(e)}", f"{type(e).__name__}: {e}")
            return False, None
    if route in ("copy", "deepcopy"):
        import copy

        return s.call(f"{sig}/{route}/serialise", copy.copy if route == "copy" else copy.deepcopy, obj)
    if route in ("seq.copy", "seq.copy-unsliced"):  # Sequence.copy(exclude_annotations=False, sliced=True)
        return s.call(f"{sig}/{route}/serialise", (lambda: obj.copy()) if route == "seq.copy" else (lambda: obj.copy(sliced=False)))
    raise HarnessError(f"unknown route {route}")


def compare(s: Soft, sig: str, want: dict, got: dict, what: str, rtol=0.0, atol=0.0, skip=()):
    """every observer of the original that worked must work on the copy and agree"""
    allok = True
    for key, w in want.items():
        if key in skip or isinstance(w, Unobs):
            continue
        g = got.get(key)
        if isinstance(g, Unobs):
            e = g.exc
            s.fail(f"{sig}/{key}/raises:{type(e).__name__}@{exception_site(e)}", f"{what}: observing the copy raised {type(e).__name__}: {e}")
            allok = False
            continue
        d = differ(g, w, rtol, atol)
        if d:
            s.fail(f"{sig}/{key}", f"copy vs original at {d} :: {what}")
            allok = False
    return allok


def mark_unobs(s: Soft, want: dict):
    for key, w in want.items():
        if isinstance(w, Unobs):
            s.cls("original-unobservable:" + key)


def round_trips(s: Soft, sig: str, obj, observers, what: str, routes=ROUTES, rtol=0.0, atol=0.0, skip_by_route=None, want=None, gate=None):
    """observe obj, send it through the routes, compare; returns the observation of the original.  ``gate``: observers
    compared first; when they differ on a copy the remaining observers are not applied to it (one signature per cause)"""
    if want is None:
        want = observe(obj, observers)
    mark_unobs(s, want)
    gate_want = observe(obj, gate) if gate else None
    for route in routes:
        ok, cp = send(s, sig, obj, route)
        if not ok:
            continue
        if gate and not compare(s, f"{sig}/{route}", gate_want, observe(cp, gate), what):
            continue
        got = observe(cp, observers)
        compare(s, f"{sig}/{route}", want, got, what, rtol, atol, skip=(skip_by_route or {}).get(route, ()))
        s.cls("route:" + route)
    return want


def feature_obs(o):
    out = []
    for f in o.get_features(allow_partial=True):
        sl = f.get_slice()
        sl = sl.to_dict() if hasattr(sl, "to_dict") else str(sl)
        out.append([str(f.seqid), f.name, f.biotype, [[int(a), int(b)] for a, b in f.map.get_coordinates()], bool(f.reversed), sl])
    return sorted(out, key=repr)


# ================================================================== sequences
SEQ_ALPHA = {
    "dna": "ACGT", "rna": "ACGU", "protein": "ACDEFGHIKLMNPQRSTVWY", "protein_with_stop": "ACDEFGHIKLMNPQRSTVWY*",
    "text": "ABCXYZ", "bytes": "abc XY!",
}


@st.composite
def history_st(draw, nucleic, max_len=4):
    ops = []
    for _ in range(draw(st.integers(0, max_len))):
        kinds = ["slice", "slice", "stride", "rstride"] + (["rc", "rc"] if nucleic else [])
        k = draw(st.sampled_from(kinds))
        ops.append([k, draw(st.integers(0, 1000)), draw(st.integers(0, 1000)), draw(st.sampled_from([1, 2, 2, 3]))])
    return ops


@st.composite
def seq_cases(draw):
    impl = draw(st.sampled_from(["old", "new"]))
    mt = draw(st.sampled_from(["dna", "dna", "dna", "rna", "protein", "protein_with_stop", "text", "bytes"]))
    L = draw(st.integers(4, 30))
    parent = "".join(draw(st.lists(st.sampled_from(SEQ_ALPHA[mt]), min_size=L, max_size=L)))
    offset = draw(st.sampled_from([0, 0, 3, 17]))
    feats = []
    if mt == "dna" and draw(st.integers(0, 3)) > 0:
        for i in range(draw(st.integers(1, 3))):
            k = draw(st.integers(1, 2))
            cuts = sorted(draw(st.lists(st.integers(0, L), min_size=2 * k, max_size=2 * k)))
            spans = [[cuts[j] + offset, cuts[j + 1] + offset] for j in range(0, 2 * k, 2) if cuts[j] < cuts[j + 1]]
            if not spans:
                a = draw(st.integers(0, L - 1))
                spans = [[a + offset, a + 1 + offset]]
            # spans of one feature do not abut (merged spans are not distinguishable)
            merged = [spans[0]]
            for a, b in spans[1:]:
                if a <= merged[-1][1]:
                    merged[-1][1] = max(b, merged[-1][1])
                else:
                    merged.append([a, b])
            feats.append({"biotype": draw(st.sampled_from(["gene", "exon"])), "name": f"f{i}", "spans": merged, "strand": draw(st.sampled_from(["+", "-"]))})
    hist = draw(history_st(mt in ("dna", "rna")))
    return {"impl": impl, "moltype": mt, "parent": parent, "offset": offset, "features": feats, "history": hist, "info": draw(st.booleans())}


def apply_seq_history(s, pre, seq, V, comp, hist, nucleic):
    """applies the history to the real view and the index model; returns (view, V, comp, flags) or None"""
    flags = set()
    view = seq
    for op, a, b, k in hist:
        n = len(V)
        if op in ("slice", "stride"):
            lo, hi = sorted((a % (n + 1), b % (n + 1)))
            step = k if op == "stride" else 1
            if op == "stride" and step == 1:
                step = 2
            if len(V[lo:hi:step]) < 1:
                continue
            if step == 1:
                ok, v2 = s.call(pre + "history/slice", lambda: view[lo:hi])
            else:
                ok, v2 = s.call(pre + "history/stride", lambda: view[lo:hi:step])
                flags.add("strided")
            V = V[lo:hi:step]
        elif op == "rstride":
            ok, v2 = s.call(pre + "history/reversed-stride", lambda: view[::-k])
            V = V[::-k]
            if nucleic:  # a negative step on a nucleic acid sequence is documented as reverse complement
                comp = not comp
            flags.add("reversed-stride")
            if k > 1:
                flags.add("strided")
        elif op == "rc":
            ok, v2 = s.call(pre + "history/rc", view.rc)
            V = V[::-1]
            comp = not comp
            flags.add("rc")
        else:
            continue
        if not ok:
            return None
        view = v2
        flags.add("history")
    return view, V, comp, flags


def seq_observers(with_features):
    obs = [
        ("str", str),
        ("len", len),
        ("name", lambda o: o.name),
        ("class", lambda o: type(o).__name__),
        ("moltype", lambda o: o.moltype.label),
        ("parent_coordinates", lambda o: o.parent_coordinates()),
        ("annotation_offset", lambda o: o.annotation_offset),
        ("info", lambda o: clean_info(o.info)),
    ]
    if with_features:
        obs.append(("features", feature_obs))
    return obs


def exec_seq(case) -> Soft:
    from cogent3 import make_seq

    s = Soft("C10/")
    impl, mt = case["impl"], case["moltype"]
    pre = f"seq/{impl}/"
    parent, offset = case["parent"], case["offset"]

    def build():
        seq = make_seq(parent, name="s1", moltype=mt, new_type=impl == "new", annotation_offset=offset)
        if case["info"]:
            seq.info["origin"] = "somewhere"
        for f in case["features"]:
            kw = dict(biotype=f["biotype"], name=f["name"], spans=[tuple(x) for x in f["spans"]], strand=f["strand"])
            if offset == 0:
                seq.add_feature(**kw)
            else:
                seq.annotation_db.add_feature(seqid="s1", **kw)
        return seq

    ok, seq = s.call(pre + "construct", build)
    if not ok:
        return s
    r = apply_seq_history(s, pre, seq, list(range(len(parent))), False, case["history"], mt in ("dna", "rna"))
    if r is None:
        return s
    view, V, comp, flags = r
    table = COMP_RNA if mt == "rna" else COMP
    want_str = "".join(table[parent[i]] if comp else parent[i] for i in V)
    what = f"{impl} {mt} parent {parent!r} offset {offset} features {case['features']} history {case['history']}"
    feats = bool(case["features"])
    want = observe(view, seq_observers(feats))
    if isinstance(want["str"], Unobs) or want["str"] != want_str:
        # the view itself is wrong (C01's business): nothing to round trip against
        s.cls("original-disagrees-with-model")
        return s
    skip = {"json": ("features",), "rich_dict": ("features",)} if impl == "new" else {}
    round_trips(s, pre.rstrip("/"), view, seq_observers(feats), what, skip_by_route=skip, want=want)
    if impl == "old":
        # the SeqView is a registered type of its own
        sv_obs = [("str", str), ("len", len), ("seqid", lambda o: o.seqid), ("step", lambda o: o.step), ("reversed", lambda o: bool(o.is_reversed))]
        ok, sv = s.call(pre + "seqview/get", lambda: view._seq)
        if ok:
            round_trips(s, "seqview/old", sv, sv_obs, what, routes=("rich_dict", "pickle"))
    s.cls(impl, "moltype:" + mt, *sorted(flags))
    if offset:
        s.cls("offset")
    if feats:
        s.cls("features")
        if isinstance(want.get("features"), Unobs):
            s.cls("features-unobservable-on-original")
        elif want.get("features"):
            s.cls("features-visible")
    s.nontrivial = "history" in flags
    return s


# ================================================= sequences of a collection
COLLSEQ_ROUTES = ("json", "rich_dict", "pickle", "copy", "deepcopy", "seq.copy", "seq.copy-unsliced")
COLLSEQ_RENAMERS = {"suffix": lambda n: n + "_r", "upper": lambda n: n.upper(), "prefix": lambda n: "x." + n}
COLLSEQ_TAG = "[collection-backed-view]"


@st.composite
def collseq_cases(draw):
    mt = draw(st.sampled_from(["dna", "dna", "dna", "rna", "protein", "text"]))
    nucleic = mt in ("dna", "rna")
    names = ["s1", "s2", "s3"][: draw(st.integers(1, 3))]
    seqs = {}
    for n in names:
        L = draw(st.integers(4, 24))
        seqs[n] = "".join(draw(st.lists(st.sampled_from(SEQ_ALPHA[mt]), min_size=L, max_size=L)))
    pick = draw(st.sampled_from(names))
    ops = []
    for _ in range(draw(st.sampled_from([0, 0, 1, 1, 2]))):
        k = draw(st.sampled_from(["take", "rename"] + (["rc", "rc"] if nucleic else [])))
        if k == "take":
            others = [n for n in names if n != pick]
            keep = draw(st.lists(st.sampled_from(others), unique=True, max_size=len(others))) if others else []
            ops.append(["take", sorted(keep), draw(st.booleans()), draw(st.booleans())])
        elif k == "rename":
            ops.append(["rename", draw(st.sampled_from(sorted(COLLSEQ_RENAMERS)))])
        else:
            ops.append(["rc"])
    feats = []
    if mt == "dna" and all(o[0] == "take" for o in ops) and draw(st.integers(0, 2)) == 0:
        L = len(seqs[pick])
        for i in range(draw(st.integers(1, 2))):
            a, b = sorted(draw(st.lists(st.integers(0, L), min_size=2, max_size=2, unique=True)))
            feats.append({"biotype": draw(st.sampled_from(["gene", "exon"])), "name": f"f{i}", "spans": [[a, b]], "strand": draw(st.sampled_from(["+", "-"]))})
    hist = draw(history_st(nucleic, max_len=3))
    return {"moltype": mt, "seqs": seqs, "pick": pick, "coll_ops": ops, "features": feats, "history": hist}


def exec_collseq(case) -> Soft:
    """a Sequence handed out by a new-style collection is a view on the collection's storage (SeqDataView)"""
    from cogent3 import make_unaligned_seqs

    s = Soft("C10/")
    mt, seqs, pick = case["moltype"], case["seqs"], case["pick"]
    nucleic = mt in ("dna", "rna")

    def build():
        c = make_unaligned_seqs(dict(seqs), moltype=mt, new_type=True)
        for f in case["features"]:
            c.add_feature(seqid=pick, biotype=f["biotype"], name=f["name"], spans=[tuple(x) for x in f["spans"]], strand=f["strand"])
        return c

    ok, coll = s.call("collseq/construct", build)
    if not ok:
        return s
    # model: current names (aligned with the original ones), strand of the whole collection
    cur = {n: n for n in seqs}  # original name -> current name
    reverse = False
    flags = set()
    for op in case["coll_ops"]:
        if op[0] == "rc":
            ok, c2 = s.call("collseq/collection/rc", coll.rc)
            reverse = not reverse
        elif op[0] == "take":
            keep, negate, pick_last = op[1], op[2], op[3]
            live = [n for n in seqs if n in cur]
            sel = [n for n in live if n == pick or n in keep]
            if pick_last:
                sel = [n for n in sel if n != pick] + [pick]
            if negate:
                drop = [cur[n] for n in live if n not in sel]
                if not drop:
                    continue
                ok, c2 = s.call("collseq/collection/take_seqs", lambda: coll.take_seqs(drop, negate=True))
            else:
                names = [cur[n] for n in sel]
                ok, c2 = s.call("collseq/collection/take_seqs", lambda: coll.take_seqs(names))
            cur = {n: cur[n] for n in sel}
        elif op[0] == "rename":
            fn = COLLSEQ_RENAMERS[op[1]]
            ok, c2 = s.call("collseq/collection/rename_seqs", lambda: coll.rename_seqs(fn))
            cur = {n: fn(v) for n, v in cur.items()}
        else:
            raise HarnessError(f"unknown collection operation {op}")
        if not ok:
            return s
        coll = c2
        flags.add("coll:" + op[0])
    name = cur[pick]
    ok, seq = s.call("collseq/get_seq", coll.get_seq, name)
    if not ok:
        return s
    parent = seqs[pick]
    full = list(range(len(parent)))
    r = apply_seq_history(s, "collseq/", seq, full[::-1] if reverse else full, reverse, case["history"], nucleic)
    if r is None:
        return s
    view, V, comp, hflags = r
    table = COMP_RNA if mt == "rna" else COMP
    want_str = "".join(table[parent[i]] if comp else parent[i] for i in V)
    feats = bool(case["features"])
    observers = [o for o in seq_observers(feats) if o[0] != "str"]
    gate = [("str", str)]
    want = observe(view, observers)
    got_str = observe(view, gate)["str"]
    if isinstance(got_str, Unobs) or got_str != want_str or isinstance(want["name"], Unobs) or want["name"] != name:
        s.cls("original-disagrees-with-model")  # the view itself is wrong (C01 / C03): nothing to round trip against
        return s
    # the state of the view on the collection's storage: anything but the whole plus strand is tagged
    whole = V == full and not comp
    sig = "collseq" if whole else "collseq" + COLLSEQ_TAG
    what = f"new-style collection {mt} {seqs} ops {case['coll_ops']} get_seq({name!r}) features {case['features']} history {case['history']}"
    nofeat = ("features",)
    round_trips(s, sig, view, observers, what, routes=COLLSEQ_ROUTES, want=want, gate=gate, skip_by_route={"json": nofeat, "rich_dict": nofeat})
    s.cls("moltype:" + mt, "whole" if whole else "partial-or-reversed", *sorted(flags), *sorted(hflags))
    if feats:
        s.cls("features")
        if not isinstance(want.get("features"), Unobs) and want.get("features"):
            s.cls("features-visible")
    s.nontrivial = bool(flags) or "history" in hflags
    return s


# ================================================================ collections
@st.composite
def coll_cases(draw):
    kind = draw(st.sampled_from(["A", "A", "AA", "SC", "NSC"]))
    mt = draw(st.sampled_from(["dna", "dna", "dna", "protein"]))
    nrows = draw(st.integers(2, 4))
    L = draw(st.integers(5, 18))
    alpha = "ACGT" if mt == "dna" else "ACDEFGHIKLM"
    names = ["s0", "s1", "s2", "s3"][:nrows]
    if draw(st.booleans()):
        names = names[::-1]
    rows = {}
    for nm in names:
        if kind in ("A", "AA"):
            chars = draw(st.lists(st.sampled_from(alpha + alpha + "--"), min_size=L, max_size=L))
            if all(c == "-" for c in chars):
                chars[0] = alpha[0]
        else:
            n = draw(st.integers(3, L))
            chars = draw(st.lists(st.sampled_from(alpha), min_size=n, max_size=n))
        rows[nm] = "".join(chars)
    feats = []
    aln_feature = False
    if mt == "dna" and kind != "AA" and draw(st.integers(0, 2)) > 0:
        for i in range(draw(st.integers(1, 2))):
            nm = draw(st.sampled_from(names))
            limit = len(rows[nm].replace("-", ""))
            if limit < 1:
                continue
            a = draw(st.integers(0, limit - 1))
            b = draw(st.integers(a + 1, limit))
            spans = [[a, b]]
            if b + 1 < limit and draw(st.booleans()):
                c = draw(st.integers(b + 1, limit - 1))
                spans.append([c, draw(st.integers(c + 1, limit))])
            feats.append({"seqid": nm, "biotype": draw(st.sampled_from(["gene", "exon"])), "name": f"f{i}", "spans": spans, "strand": draw(st.sampled_from(["+", "-"]))})
        if kind == "A" and draw(st.integers(0, 4)) == 0:
            aln_feature = True
            a = draw(st.integers(0, L - 1))
            feats.append({"seqid": None, "biotype": "region", "name": "af", "spans": [[a, draw(st.integers(a + 1, L))]], "strand": "+"})
    hist = []
    for _ in range(draw(st.integers(0, 4))):
        if aln_feature:
            op = "take_seqs"
        elif kind in ("A", "AA"):
            op = draw(st.sampled_from(["take_seqs", "slice", "slice", "rc", "take_positions", "degap", "to_type"]))
        else:
            op = draw(st.sampled_from(["take_seqs", "rc", "rc"]))
        if op == "rc" and mt != "dna":
            op = "take_seqs"
        hist.append([op, draw(st.integers(0, 1000)), draw(st.integers(0, 1000)), draw(st.integers(0, 1000))])
    return {"kind": kind, "moltype": mt, "rows": rows, "names": names, "features": feats, "history": hist, "info": draw(st.booleans())}


def rc_gapped(txt):
    return "".join(COMP.get(c, c) for c in reversed(txt))


def coll_observers(kind, with_features):
    obs = [
        ("class", lambda o: type(o).__name__),
        ("names", lambda o: list(o.names)),
        ("to_dict", lambda o: o.to_dict()),
        ("moltype", lambda o: o.moltype.label),
        ("info", lambda o: clean_info(o.info)),
    ]
    if kind in ("A", "AA"):
        obs.append(("len", len))
        obs.append(("rows", lambda o: {n: [str(o.get_gapped_seq(n)), str(o.get_seq(n))] for n in o.names}))
    if kind == "A":
        obs.append(("row-coordinates", lambda o: {n: o.get_seq(n).parent_coordinates() for n in o.names}))
        obs.append(("row-gaps", lambda o: {n: o.named_seqs[n].map.get_gap_coordinates() for n in o.names}))
    if kind in ("SC", "NSC"):
        obs.append(("row-coordinates", lambda o: {n: o.get_seq(n).parent_coordinates() for n in o.names}))
    if with_features:
        obs.append(("features", feature_obs))
    return obs


def exec_coll(case) -> Soft:
    from cogent3 import make_aligned_seqs, make_unaligned_seqs

    s = Soft("C10/")
    kind, mt = case["kind"], case["moltype"]
    rows = {n: case["rows"][n] for n in case["names"]}
    info = {"origin": "somewhere"} if case["info"] else None

    def build():
        if kind in ("A", "AA"):
            o = make_aligned_seqs(dict(rows), moltype=mt, array_align=kind == "AA", info=info)
        else:
            o = make_unaligned_seqs(dict(rows), moltype=mt, info=info, new_type=kind == "NSC")
        for f in case["features"]:
            kw = dict(biotype=f["biotype"], name=f["name"], spans=[tuple(x) for x in f["spans"]], strand=f["strand"])
            if f["seqid"] is None:
                o.add_feature(on_alignment=True, **kw)
            elif kind == "A":
                o.add_feature(seqid=f["seqid"], on_alignment=False, **kw)
            else:
                o.add_feature(seqid=f["seqid"], **kw)
        return o

    pre = f"collection/{kind}/"
    ok, obj = s.call(pre + "construct", build)
    if not ok:
        return s
    model = dict(rows)
    cur = kind
    flags = set()
    for op, a, b, c in case["history"]:
        names = list(model)
        L = len(next(iter(model.values()))) if cur in ("A", "AA") else None
        if op == "take_seqs":
            k = 1 + a % len(names)
            start = b % len(names)
            sel = (names[start:] + names[:start])[:k]
            if c % 2:
                sel = sel[::-1]
            if len(sel) < 2 and cur in ("A", "AA"):
                continue
            ok, o2 = s.call(f"collection/{cur}/history/take_seqs", lambda: obj.take_seqs(sel))
            model = {n: model[n] for n in sel}
        elif op == "slice" and cur in ("A", "AA"):
            lo, hi = sorted((a % (L + 1), b % (L + 1)))
            if hi - lo < 1:
                continue
            ok, o2 = s.call(f"collection/{cur}/history/slice", lambda: obj[lo:hi])
            model = {n: v[lo:hi] for n, v in model.items()}
        elif op == "rc":
            ok, o2 = s.call(f"collection/{cur}/history/rc", obj.rc)
            model = {n: rc_gapped(v) for n, v in model.items()}
        elif op == "take_positions" and cur in ("A", "AA"):
            k = 1 + a % L
            cols = sorted({(b + i * (1 + c % 3)) % L for i in range(k)})
            ok, o2 = s.call(f"collection/{cur}/history/take_positions", lambda: obj.take_positions(cols))
            model = {n: "".join(v[i] for i in cols) for n, v in model.items()}
        elif op == "degap" and cur in ("A", "AA"):
            if any(not v.replace("-", "") for v in model.values()):
                continue
            ok, o2 = s.call(f"collection/{cur}/history/degap", obj.degap)
            model = {n: v.replace("-", "") for n, v in model.items()}
            cur = "SC"
        elif op == "to_type" and cur in ("A", "AA"):
            ok, o2 = s.call(f"collection/{cur}/history/to_type", lambda: obj.to_type(array_align=cur == "A"))
            cur = "AA" if cur == "A" else "A"
        else:
            continue
        if not ok:
            return s
        obj = o2
        flags.add("history")
        flags.add("op:" + op)
    feats = bool(case["features"]) and cur != "AA"
    observers = coll_observers(cur, feats)
    want = observe(obj, observers)
    what = f"{kind}->{cur} {mt} rows {rows} features {case['features']} history {case['history']}"
    if isinstance(want["to_dict"], Unobs) or want["to_dict"] != model or want["names"] != list(model):
        s.cls("original-disagrees-with-model")
        return s
    skip = {"json": ("features",), "rich_dict": ("features",)} if cur == "NSC" else {}
    empty_rows = [n for n, v in model.items() if not v.replace("-", "")]
    if empty_rows:
        # a row without residues in the view has no strand or coordinates worth the name (empty sequence view)
        skip = {r: ("features", "row-coordinates") for r in ROUTES}
        s.cls("row-all-gaps")
    sig = f"collection/{cur}"
    round_trips(s, sig, obj, observers, what, skip_by_route=skip, want=want)
    # member types registered on their own
    if cur == "A" and len(empty_rows) < len(model):
        nm = [n for n in model if n not in empty_rows][0]
        al_obs = [("str", str), ("name", lambda o: o.name), ("len", len), ("gaps", lambda o: o.map.get_gap_coordinates()), ("seq", lambda o: str(o.data)),
                  ("coordinates", lambda o: o.data.parent_coordinates())]
        ok, al = s.call(sig + "/named_seqs", lambda: obj.named_seqs[nm])
        if ok:
            round_trips(s, "aligned", al, al_obs, what)
    if cur == "NSC":
        sd_obs = [("names", lambda o: list(o.names)), ("seqs", lambda o: {n: o.get_seq_str(seqid=n) for n in o.names}), ("class", lambda o: type(o).__name__)]
        ok, sd = s.call(sig + "/seqs", lambda: obj.seqs)
        if ok:
            round_trips(s, "seqsdata", sd, sd_obs, what, routes=("rich_dict", "pickle"))
    s.cls("kind:" + cur, "moltype:" + mt, *sorted(flags))
    if feats:
        s.cls("features")
        if isinstance(want.get("features"), Unobs):
            s.cls("features-unobservable-on-original")
        elif want.get("features"):
            s.cls("features-visible")
    s.nontrivial = "history" in flags
    return s


# ======================================================================= maps
@st.composite
def map_cases(draw):
    kind = draw(st.sampled_from(["indel", "indel", "feature"]))
    ops = [[draw(st.sampled_from(["slice", "slice", "reverse"] if kind == "indel" else ["slice", "reverse", "reverse", "without_gaps", "covered"])),
            draw(st.integers(0, 1000)), draw(st.integers(0, 1000))] for _ in range(draw(st.integers(0, 3)))]
    if kind == "indel":
        L = draw(st.integers(1, 16))
        layout = draw(st.lists(st.sampled_from("xx-"), min_size=L, max_size=L))
        if "x" not in layout:
            layout[draw(st.integers(0, L - 1))] = "x"
        return {"kind": kind, "layout": "".join(layout), "ops": ops}
    P = draw(st.integers(4, 30))
    k = draw(st.integers(1, 3))
    cuts = sorted(draw(st.lists(st.integers(0, P), min_size=2 * k, max_size=2 * k)))
    spans = []
    for j in range(0, 2 * k, 2):
        if cuts[j] < cuts[j + 1]:
            spans.append(["s", cuts[j], cuts[j + 1]])
        if draw(st.integers(0, 3)) == 0:
            spans.append(["l", draw(st.integers(1, 3))])
    if not any(x[0] == "s" for x in spans):
        a = draw(st.integers(0, P - 1))
        spans.append(["s", a, a + 1])
    return {"kind": kind, "P": P, "spans": spans, "ops": ops}


def _span_obs(m):
    out = []
    for sp in m.spans:
        if sp.lost:
            out.append(["lost", len(sp)])
        else:
            out.append(["span", int(sp.start), int(sp.end), bool(sp.reverse)])
    return out


def exec_map(case) -> Soft:
    import numpy

    from cogent3.core.location import FeatureMap, IndelMap, LostSpan, Span

    s = Soft("C10/")
    kind = case["kind"]
    pre = f"map/{kind}/"
    if kind == "indel":
        g = case["layout"]
        pos, lens, n, i = [], [], 0, 0
        while i < len(g):
            if g[i] == "-":
                j = i
                while j < len(g) and g[j] == "-":
                    j += 1
                pos.append(n)
                lens.append(j - i)
                i = j
            else:
                n += 1
                i += 1
        ok, m = s.call(pre + "construct", lambda: IndelMap(gap_pos=numpy.array(pos, dtype=int), gap_lengths=numpy.array(lens, dtype=int), parent_length=n))
        observers = [
            ("class", lambda o: type(o).__name__), ("len", len), ("parent_length", lambda o: int(o.parent_length)),
            ("gap_pos", lambda o: o.gap_pos), ("cum_gap_lengths", lambda o: o.cum_gap_lengths), ("spans", _span_obs),
            ("gap_coordinates", lambda o: o.get_gap_coordinates()), ("coordinates", lambda o: o.get_coordinates()), ("termini_unknown", lambda o: bool(o.termini_unknown)),
        ]
    else:
        spans = [Span(x[1], x[2]) if x[0] == "s" else LostSpan(x[1]) for x in case["spans"]]
        ok, m = s.call(pre + "construct", lambda: FeatureMap(spans=spans, parent_length=case["P"]))
        observers = [
            ("class", lambda o: type(o).__name__), ("len", len), ("parent_length", lambda o: int(o.parent_length)), ("spans", _span_obs),
            ("coordinates", lambda o: o.get_coordinates()), ("start_end", lambda o: [int(o.start), int(o.end)]), ("useful", lambda o: bool(o.useful)), ("complete", lambda o: bool(o.complete)),
        ]
    if not ok:
        return s
    nhist = 0
    for op, a, b in case["ops"]:
        n = len(m)
        if op == "slice":
            lo, hi = sorted((a % (n + 1), b % (n + 1)))
            if hi - lo < 1:
                continue
            ok, m2 = s.call(pre + "history/slice", lambda: m[lo:hi])
        elif op == "reverse":
            ok, m2 = s.call(pre + "history/nucleic_reversed", m.nucleic_reversed)
        elif op == "without_gaps":
            ok, m2 = s.call(pre + "history/without_gaps", m.without_gaps)
        elif op == "covered":
            ok, m2 = s.call(pre + "history/covered", m.covered)
        else:
            continue
        if not ok:
            return s
        if kind == "feature" and not any(not sp.lost for sp in m2.spans):
            continue  # nothing of the parent left
        m = m2
        nhist += 1
        s.cls("op:" + op)
    round_trips(s, pre.rstrip("/"), m, observers, f"{case}")
    s.cls(kind)
    s.nontrivial = nhist >= 1
    return s


# ====================================================================== trees
@st.composite
def tree_cases(draw):
    n = draw(st.integers(3, 9))
    nodes = [{"name": f"t{i}", "len": None, "kids": []} for i in range(n)]
    rooted = draw(st.booleans())
    root_deg = 2 if rooted else 3
    c = 0
    while len(nodes) > root_deg:
        k = min(draw(st.sampled_from([2, 2, 2, 3])), len(nodes) - root_deg + 1)
        idxs = sorted(draw(st.lists(st.integers(0, len(nodes) - 1), min_size=k, max_size=k, unique=True)), reverse=True)
        kids = [nodes.pop(i) for i in idxs]
        nodes.append({"name": f"in{c}" if draw(st.integers(0, 3)) else None, "len": None, "kids": kids})
        c += 1
    with_len = draw(st.integers(0, 5)) > 0

    def deco(nd):
        if with_len:
            nd["len"] = draw(st.one_of(st.sampled_from([0.125, 0.5, 1.0, 2.0]), st.floats(1e-6, 3.0, allow_nan=False)))
        nd["params"] = {}
        if draw(st.integers(0, 2)) == 0:
            nd["params"]["kappa"] = draw(st.floats(0.01, 50.0, allow_nan=False))
        if draw(st.integers(0, 4)) == 0:
            nd["params"]["note"] = draw(st.sampled_from(["x", "some text", ""]))
        if draw(st.integers(0, 4)) == 0:
            nd["params"]["vec"] = draw(st.lists(st.integers(-5, 5), max_size=3))
        for k_ in nd["kids"]:
            deco(k_)

    root = {"name": "root", "len": None, "kids": nodes, "params": {}}
    for k_ in nodes:
        deco(k_)
    if draw(st.integers(0, 3)) == 0:
        root["params"]["rootnote"] = draw(st.integers(0, 9))
    ops = [[draw(st.sampled_from(["rooted_with_tip", "rooted_at", "unrooted", "get_sub_tree", "root_at_midpoint", "sorted", "bifurcating", "unrooted_deepcopy", "scale"])),
            draw(st.integers(0, 1000)), draw(st.integers(0, 1000))] for _ in range(draw(st.integers(0, 3)))]
    return {"tree": root, "ops": ops}


def tree_obs(t):
    """clades keyed by their tip set: [name, length, params]; plus ordered topology"""
    clades = {}

    def walk(n):
        if not n.children:
            tips = [n.name]
            topo = n.name
        else:
            tips, topo = [], []
            for c in n.children:
                a, b = walk(c)
                tips.extend(a)
                topo.append(b)
        key = "|".join(sorted(tips))
        params = {k: v for k, v in n.params.items()}
        clades[key + ("" if n.children else "*")] = [n.name, n.length, norm(params)]
        return tips, topo

    tips, topo = walk(t)
    return {"clades": clades, "topology": topo, "tips": tips}


def exec_tree(case) -> Soft:
    from cogent3.core.tree import TreeBuilder

    s = Soft("C10/")
    pre = "tree/"

    def build():
        tb = TreeBuilder().create_edge

        def mk(n, root=False):
            kids = [mk(k) for k in n["kids"]]
            params = dict(n["params"])
            if n["len"] is not None:
                params["length"] = n["len"]
            return tb(kids, n["name"], params)

        return mk(case["tree"], True)

    ok, tree = s.call(pre + "construct", build)
    if not ok:
        return s
    nhist = 0
    for op, a, b in case["ops"]:
        ok0, tips = s.call(pre + "history/get_tip_names", tree.get_tip_names)
        if not ok0:
            return s
        tips = sorted(tips)
        if op == "rooted_with_tip":
            fn = lambda: tree.rooted_with_tip(tips[a % len(tips)])  # noqa: E731
        elif op == "rooted_at":
            internals = sorted(n.name for n in tree.iter_nontips(include_self=False) if n.name)
            if not internals:
                continue
            fn = lambda: tree.rooted_at(internals[a % len(internals)])  # noqa: E731
        elif op == "unrooted":
            fn = tree.unrooted
        elif op == "unrooted_deepcopy":
            fn = tree.unrooted_deepcopy
        elif op == "get_sub_tree":
            k = 2 + a % max(1, len(tips) - 1)
            start = b % len(tips)
            keep = (tips[start:] + tips[:start])[: min(k, len(tips))]
            if len(keep) < 2:
                continue
            fn = lambda: tree.get_sub_tree(keep)  # noqa: E731
        elif op == "root_at_midpoint":
            if any(n.length is None for n in tree.traverse(include_self=False)):
                continue
            fn = lambda: tree.deepcopy().root_at_midpoint()  # noqa: E731
        elif op == "sorted":
            fn = lambda: tree.sorted(tips[::-1])  # noqa: E731
        elif op == "bifurcating":
            fn = tree.bifurcating
        elif op == "scale":
            if any(n.length is None for n in tree.traverse(include_self=False)):
                continue

            def fn():
                t2 = tree.deepcopy()
                t2.scale_branch_lengths(max_length=50 + a % 50, ultrametric=False)
                return t2
        else:
            continue
        # histories are allowed to fail (C09's business): stop the history there
        try:
            t2 = fn()
        except HarnessError:
            raise
        except Exception as e:  # noqa: BLE001
            if not raised_in_repo(e):
                raise
            s.cls("history-op-raised")
            break
        if t2 is None or len(t2.get_tip_names()) < 2:
            break
        tree = t2
        nhist += 1
        s.cls("op:" + op)
    want = observe(tree, [("tree", tree_obs), ("class", lambda o: type(o).__name__)])
    if isinstance(want["tree"], Unobs):
        return s
    node_names = [v[0] for v in want["tree"]["clades"].values() if v[0] is not None]
    if len(set(node_names)) != len(node_names):
        # the history itself produced two nodes with one name (C09's business); rich dicts key edges by name
        s.cls("duplicate-node-names-after-history")
        return s
    what = f"{case}"
    for route in ROUTES:
        ok, cp = send(s, "tree", tree, route)
        if not ok:
            continue
        got = observe(cp, [("tree", tree_obs), ("class", lambda o: type(o).__name__)])
        s.cls("route:" + route)
        if isinstance(got["tree"], Unobs):
            e = got["tree"].exc
            s.fail(f"tree/{route}/observe/raises:{type(e).__name__}@{exception_site(e)}", f"{what}: {e}")
            continue
        w, g = want["tree"], got["tree"]
        s.eq(got["class"], want["class"], f"tree/{route}/class", what)
        if not s.eq(g["tips"], w["tips"], f"tree/{route}/tips", what):
            continue
        s.eq(g["topology"], w["topology"], f"tree/{route}/topology", what)
        if sorted(g["clades"]) != sorted(w["clades"]):
            continue
        for key, (name, length, params) in w["clades"].items():
            gname, glength, gparams = g["clades"][key]
            if name is not None:
                s.eq(gname, name, f"tree/{route}/node-name", f"clade {key} :: {what}")
            d = differ(glength, length)
            s.check(d is None, f"tree/{route}/length", f"clade {key} {d} :: {what}")
            wp = {k: v for k, v in params.items() if k != "length"}
            gp = {k: v for k, v in gparams.items() if k != "length"}
            d = differ(gp, wp)
            s.check(d is None, f"tree/{route}/edge-params", f"clade {key} {d} :: {what}")
    has_params = any(len([k for k in v[2] if k != "length"]) for v in want["tree"]["clades"].values())
    s.cls("with-extra-params" if has_params else "lengths-only")
    s.nontrivial = nhist >= 1
    return s


# ==================================================================== tabular
@st.composite
def tabular_cases(draw):
    kind = draw(st.sampled_from(["table", "table", "dictarray", "distance"]))
    ops = [[draw(st.integers(0, 1000)), draw(st.integers(0, 1000)), draw(st.integers(0, 1000))] for _ in range(draw(st.integers(0, 3)))]
    fl = st.one_of(st.floats(-1e6, 1e6, allow_nan=False), st.sampled_from([0.1, 1e-30, 1e20, 0.0, -0.0, 1 / 3]))
    if kind == "table":
        nrows = draw(st.integers(0, 6))
        ncols = draw(st.integers(1, 5))
        header, cols = [], []
        for c in range(ncols):
            typ = draw(st.sampled_from(["int", "float", "str", "floatnan", "bool"]))
            header.append(f"c{c}{typ[0]}")
            if typ == "int":
                cols.append(draw(st.lists(st.integers(-1000, 10**12), min_size=nrows, max_size=nrows)))
            elif typ == "float":
                cols.append(draw(st.lists(fl, min_size=nrows, max_size=nrows)))
            elif typ == "floatnan":
                cols.append([None if draw(st.integers(0, 2)) == 0 else draw(fl) for _ in range(nrows)])
            elif typ == "bool":
                cols.append(draw(st.lists(st.booleans(), min_size=nrows, max_size=nrows)))
            else:
                cols.append(draw(st.lists(st.sampled_from(["a", "bb", "c c", "", "é", "1", "x,y", "tab\tbed"]), min_size=nrows, max_size=nrows)))
        index = draw(st.booleans()) and nrows > 0
        if index:
            header.insert(0, "id")
            cols.insert(0, [f"r{i}" for i in range(nrows)])
        return {"kind": kind, "header": header, "cols": cols, "index": index, "title": draw(st.sampled_from(["", "A title"])), "legend": draw(st.sampled_from(["", "some legend"])),
                "digits": draw(st.sampled_from([4, 2, 7])), "space": draw(st.sampled_from([4, 2])), "ops": ops}
    if kind == "dictarray":
        nd = draw(st.sampled_from([1, 2, 2]))
        r = draw(st.integers(1, 4))
        c = draw(st.integers(1, 4)) if nd == 2 else 0
        ints = draw(st.booleans())
        n = r * (c or 1)
        vals = draw(st.lists(st.integers(-50, 50), min_size=n, max_size=n)) if ints else draw(st.lists(fl, min_size=n, max_size=n))
        named = draw(st.booleans())
        return {"kind": kind, "r": r, "c": c, "vals": vals, "named": named, "ops": ops}
    n = draw(st.integers(2, 6))
    names = [f"n{i}" for i in range(n)]
    if draw(st.booleans()):
        names = names[::-1]
    d = []
    for i in range(n):
        for j in range(i + 1, n):
            d.append([names[i], names[j], None if draw(st.integers(0, 9)) == 0 else draw(st.floats(0, 5, allow_nan=False))])
    return {"kind": kind, "dists": d, "ops": ops}


def table_obs():
    return [
        ("class", lambda o: type(o).__name__), ("header", lambda o: list(o.header)), ("shape", lambda o: list(o.shape)),
        ("columns", lambda o: {c: [o.columns[c].dtype.kind, o.columns[c].tolist()] for c in o.header}),
        ("title", lambda o: o.title), ("legend", lambda o: o.legend), ("index_name", lambda o: o.index_name), ("str", str),
    ]


def exec_tabular(case) -> Soft:
    import numpy

    from cogent3 import make_table
    from cogent3.evolve.fast_distance import DistanceMatrix
    from cogent3.util.dict_array import DictArrayTemplate

    s = Soft("C10/")
    kind = case["kind"]
    pre = f"{kind}/"
    nhist = 0
    if kind == "table":
        data = {h: [float("nan") if v is None else v for v in col] for h, col in zip(case["header"], case["cols"])}
        ok, obj = s.call(pre + "construct", lambda: make_table(header=case["header"], data=data, title=case["title"], legend=case["legend"],
                                                             index_name="id" if case["index"] else None, digits=case["digits"], space=case["space"]))
        if not ok:
            return s
        for a, b, c in case["ops"]:
            hdr = [h for h in obj.header if h != "id"]
            if not hdr or obj.shape[0] == 0:
                break
            op = ["sorted", "filtered", "get_columns", "with_new_column", "slice", "appended"][a % 6]
            col = hdr[b % len(hdr)]
            if op == "sorted":
                ok, o2 = s.call(pre + "history/sorted", lambda: obj.sorted(columns=col, reverse=col if c % 2 else None))
            elif op == "filtered":
                keep = set(obj.columns[col].tolist()[: 1 + c % obj.shape[0]])
                ok, o2 = s.call(pre + "history/filtered", lambda: obj.filtered(lambda v: v in keep, columns=col))
            elif op == "get_columns":
                sel = (["id"] if case["index"] and "id" in obj.header else []) + sorted({col, hdr[c % len(hdr)]})
                ok, o2 = s.call(pre + "history/get_columns", lambda: obj.get_columns(sel))
            elif op == "with_new_column":
                newname = f"n{len(obj.header)}"
                ok, o2 = s.call(pre + "history/with_new_column", lambda: obj.with_new_column(newname, lambda v: str(v) + "!", columns=col))
            elif op == "head":
                ok, o2 = s.call(pre + "history/slice", lambda: obj[: 1 + c % obj.shape[0]])
            else:
                if obj.index_name:
                    continue
                ok, o2 = s.call(pre + "history/appended", lambda: obj.appended(None, obj))
            if not ok:
                return s
            obj = o2
            nhist += 1
            s.cls("op:" + op)
        observers = table_obs()
        if obj.shape[0] == 0:
            s.cls("zero-rows")
    elif kind == "dictarray":
        r, c = case["r"], case["c"]
        arr = numpy.array(case["vals"]).reshape((r, c) if c else (r,))
        rn = [f"r{i}" for i in range(r)] if case["named"] else r
        cn = [f"c{i}" for i in range(c)] if case["named"] else c
        ok, obj = s.call(pre + "construct", lambda: (DictArrayTemplate(rn, cn) if c else DictArrayTemplate(rn)).wrap(arr))
        if not ok:
            return s
        for a, b, c_ in case["ops"]:
            if obj.array.ndim == 0 or not hasattr(obj, "template"):
                break
            names0 = list(obj.template.names[0])
            op = ["take", "row", "normalized"][a % 3]
            if op == "take":
                sel = sorted({names0[b % len(names0)], names0[c_ % len(names0)]}, key=names0.index)
                ok, o2 = s.call(pre + "history/getitem-list", lambda: obj[sel])
            elif op == "row":
                if obj.array.ndim < 2:
                    continue
                ok, o2 = s.call(pre + "history/getitem-row", lambda: obj[names0[b % len(names0)]])
            else:
                if obj.array.ndim != 2 or (obj.array <= 0).any():
                    continue
                ok, o2 = s.call(pre + "history/to_normalized", lambda: obj.to_normalized(by_row=True))
            if not ok:
                return s
            if not hasattr(o2, "to_rich_dict"):
                break
            obj = o2
            nhist += 1
            s.cls("op:" + op)
        observers = [("class", lambda o: type(o).__name__), ("names", lambda o: o.template.names), ("array", lambda o: o.array), ("dtype", lambda o: o.array.dtype.kind),
                     ("shape", lambda o: list(o.array.shape)), ("to_dict", lambda o: o.to_dict())]
    else:
        dists = {(a, b): (float("nan") if v is None else v) for a, b, v in case["dists"]}
        ok, obj = s.call(pre + "construct", lambda: DistanceMatrix(dists))
        if not ok:
            return s
        for a, b, c_ in case["ops"]:
            names = list(obj.names)
            op = ["take_dists", "drop_invalid", "take_negate"][a % 3]
            if op == "drop_invalid":
                ok, o2 = s.call(pre + "history/drop_invalid", obj.drop_invalid)
            else:
                k = 2 + b % max(1, len(names) - 1)
                sel = (names[c_ % len(names):] + names[: c_ % len(names)])[: min(k, len(names))]
                if op == "take_negate":
                    if len(names) - len(sel) < 2:
                        continue
                    ok, o2 = s.call(pre + "history/take_dists[negate]", lambda: obj.take_dists(sel, negate=True))
                else:
                    if len(sel) < 2:
                        continue
                    ok, o2 = s.call(pre + "history/take_dists", lambda: obj.take_dists(sel))
            if not ok:
                return s
            if o2 is None or len(o2.names) < 2:
                break
            obj = o2
            nhist += 1
            s.cls("op:" + op)
        observers = [("class", lambda o: type(o).__name__), ("names", lambda o: [str(n) for n in o.names]), ("array", lambda o: o.array), ("to_dict", lambda o: o.to_dict()),
                     ("shape", lambda o: list(o.shape))]
    round_trips(s, kind, obj, observers, f"{case}")
    s.cls(kind)
    s.nontrivial = nhist >= 1
    return s


# =================================================================== profiles
PROFILE_ROUTES = ("json", "rich_dict", "pickle", "copy", "deepcopy")
PROFILE_ALPHA = {"dna": "ACGT", "rna": "ACGU", "protein": "ACDEFGHIKL"}
PROFILE_SOURCES = ["counts_per_pos", "counts_per_pos", "counts_per_seq", "probs_per_pos", "probs_per_seq", "freqs", "freqs-from-seqs", "pssm", "pssm", "pssm-from-freqs",
                   "motif_totals", "direct-counts", "direct-counts", "direct-freqs", "direct-pssm", "direct-pssm-scores"]


@st.composite
def profile_cases(draw):
    kind = draw(st.sampled_from(["profile"] * 6 + ["dictarray-nd", "distance"]))
    ops = [[draw(st.integers(0, 1000)), draw(st.integers(0, 1000)), draw(st.integers(0, 1000))] for _ in range(draw(st.integers(0, 3)))]
    if kind == "dictarray-nd":
        shape = draw(st.lists(st.integers(1, 3), min_size=1, max_size=3))
        n = 1
        for d in shape:
            n *= d
        ints = draw(st.booleans())
        vals = draw(st.lists(st.integers(-50, 50) if ints else st.one_of(st.floats(-1e3, 1e3, allow_nan=False), st.sampled_from([0.1, 1 / 3, -0.0, 1e-30])), min_size=n, max_size=n))
        # dimension keys: strings, or ints (range / arbitrary ints)
        keys = [draw(st.sampled_from(["str", "range", "ints"])) for _ in shape]
        return {"kind": kind, "shape": shape, "vals": vals, "keys": keys, "ops": ops}
    if kind == "distance":
        n = draw(st.integers(2, 5))
        names = [f"n{i}" for i in range(n)]
        if draw(st.booleans()):
            names = names[::-1]
        d = [[names[i], names[j], None if draw(st.integers(0, 9)) == 0 else draw(st.floats(0, 5, allow_nan=False))] for i in range(n) for j in range(i + 1, n)]
        return {"kind": kind, "dists": d, "ops": ops}
    source = draw(st.sampled_from(PROFILE_SOURCES))
    case = {"kind": kind, "source": source, "ops": ops, "wrap": draw(st.integers(0, 2)) == 0, "pseudocount": draw(st.sampled_from([0, 0, 1, 0.5])),
            "background": draw(st.sampled_from([None, None, [1, 2, 3, 4]]))}
    if source.startswith("direct"):
        ml = draw(st.sampled_from([1, 1, 2]))
        alpha = draw(st.sampled_from(["ACGT", "TCAG", "ACDEFGHIKL", "AB"]))
        motifs = list(alpha) if ml == 1 else [a + b for a in alpha[:3] for b in alpha[:3]]
        motifs = motifs[: draw(st.integers(2, len(motifs)))]
        nrows = draw(st.integers(1, 5))
        one_d = source == "direct-counts" and draw(st.integers(0, 3)) == 0 or source == "direct-freqs" and draw(st.integers(0, 3)) == 0
        rows = []
        for _ in range(1 if one_d else nrows):
            row = draw(st.lists(st.integers(0, 9), min_size=len(motifs), max_size=len(motifs)))
            if source != "direct-counts" and not any(row):
                row[draw(st.integers(0, len(motifs) - 1))] = 1  # a frequency row needs an observation
            rows.append(row)
        if not any(any(r) for r in rows):
            rows[0][0] = 1  # the classes refuse all-zero data
        case.update(motifs=motifs, counts=rows, one_d=bool(one_d), row_keys=draw(st.sampled_from(["none", "none", "str", "ints"])))
        if source == "direct-pssm-scores":
            # log-odds values given directly: every row has a negative and a positive score
            case["scores"] = [[draw(st.sampled_from([-2.5, -1.0, -0.25, 0.0, 0.5, 1.0, 1.75])) for _ in motifs] for _ in range(nrows)]
            for r in case["scores"]:
                r[0], r[1] = -1.5, 1.25
        return case
    mt = draw(st.sampled_from(["dna", "dna", "rna", "protein"]))
    nrows = draw(st.integers(2, 4))
    L = draw(st.integers(2, 9))
    alpha = PROFILE_ALPHA[mt]
    extra = "-" * 2 + ("N" if mt != "protein" else "X")
    rows = {}
    for i in range(nrows):
        row = [draw(st.sampled_from(extra)) if draw(st.integers(0, 5)) == 0 else draw(st.sampled_from(alpha)) for _ in range(L)]
        rows[f"s{i}"] = "".join(row)
    # word alphabets of proteins have 400 / 8000 members: single residues only
    ml = 1 if mt == "protein" else draw(st.sampled_from([1, 1, 1, 2, 3]))
    case.update(moltype=mt, rows=rows, array_align=draw(st.booleans()), motif_length=ml, include_ambiguity=draw(st.booleans()),
                allow_gap=draw(st.booleans()), exclude_unobserved=draw(st.booleans()))
    return case


def _profile_base_obs():
    return [("class", lambda o: type(o).__name__), ("names", lambda o: o.template.names), ("array", lambda o: o.array), ("dtype", lambda o: o.array.dtype.kind),
            ("shape", lambda o: list(o.shape)), ("to_dict", lambda o: o.to_dict()), ("keys", lambda o: list(o.keys()))]


def _profile_typed_obs(clsname, ndim):
    """observers that need the profile class (derived methods); only used on copies of the right class"""
    obs = [("motifs", lambda o: list(o.motifs)), ("motif_length", lambda o: o.motif_length), ("str", str)]
    if ndim == 2 and clsname != "PSSM":  # a PSSM is two dimensional by construction
        obs.append(("row0", lambda o: _sub_profile(o[o.template.names[0][0]])))
    if clsname == "MotifCountsArray":
        # (row_totals() is not used: it raises NotImplementedError on every array)
        obs += [("take-motifs", lambda o: _sub_profile(o.take(list(o.motifs)[:2], axis=1))), ("to_freq_array", lambda o: _sub_profile(o.to_freq_array(pseudocount=1)))]
        if ndim == 2:
            obs += [("motif_totals", lambda o: _sub_profile(o.motif_totals())), ("to_pssm", lambda o: _sub_profile(o.to_pssm(pseudocount=1)))]
    elif clsname == "MotifFreqsArray" and ndim == 2:
        obs += [("entropy", lambda o: o.entropy()), ("entropy_terms", lambda o: o.entropy_terms().array), ("relative_entropy", lambda o: o.relative_entropy()),
                ("information", lambda o: o.information()), ("pairwise_jsd", lambda o: o.pairwise_jsd()), ("to_pssm", lambda o: _sub_profile(o.to_pssm()))]
    elif clsname == "PSSM":
        def score(o):
            if o.motif_length != 1:
                return None
            seq = "".join(o.motifs[(3 * i) % len(o.motifs)] for i in range(o.shape[0] + 3))
            return o.score_seq(seq)

        obs.append(("score_seq", score))
    return obs


def _sub_profile(o):
    return [type(o).__name__, norm(o.template.names), norm(o.array)]


def _send_profile(s: Soft, sig: str, obj, route: str):
    import copy

    if route in ("copy", "deepcopy"):
        fn = copy.copy if route == "copy" else copy.deepcopy
        try:
            return True, fn(obj)
        except Exception as e:  # noqa: BLE001  (the copy protocol runs in C: no frame of the code under test)
            s.fail(f"{sig}/{route}/raises:{type(e).__name__}@{exception_site(e)}", f"{type(e).__name__}: {e}")
            return False, None
    return send(s, sig, obj, route)


def _profile_round_trips(s: Soft, sig: str, obj, what: str, routes=PROFILE_ROUTES, extract=None, container=None):
    """observation of obj against that of its copies; derived methods only when the class survived"""
    clsname = type(obj).__name__
    base = _profile_base_obs()
    typed = _profile_typed_obs(clsname, obj.array.ndim) if clsname in ("MotifCountsArray", "MotifFreqsArray", "PSSM") else []
    want = observe(obj, base + typed)
    mark_unobs(s, want)
    for route in routes:
        ok, cp = _send_profile(s, sig, obj if container is None else container, route)
        if not ok:
            continue
        if extract is not None:
            ok, cp = s.call(f"{sig}/{route}/extract", extract, cp)
            if not ok:
                continue
        if not hasattr(cp, "template") or not hasattr(cp, "array"):
            s.fail(f"{sig}/{route}/class", f"copy is a {type(cp).__name__}, original a {clsname} :: {what}")
            continue
        observers = base + (typed if type(cp).__name__ == clsname else [])
        got = observe(cp, observers)
        compare(s, f"{sig}/{route}", {k: v for k, v in want.items() if k in got}, got, what)
        if route in ("copy", "deepcopy") and cp is obj:
            s.fail(f"{sig}/{route}/same-object", what)
        s.cls("route:" + route)
    return want


class _NoProfile(Exception):
    pass


def _build_profile(case):
    """the object named by the case; exceptions of the producing methods propagate (caller classifies)"""
    obj = _build_profile_(case)
    if obj is None:
        raise _NoProfile
    return obj


def _build_profile_(case):
    import numpy

    from cogent3 import make_aligned_seqs
    from cogent3.core.profile import PSSM, MotifCountsArray, MotifFreqsArray

    source = case["source"]
    pc = case["pseudocount"]
    if source.startswith("direct"):
        motifs = list(case["motifs"])
        counts = numpy.array(case["counts"][0] if case["one_d"] else case["counts"], dtype=int)
        n = 1 if case["one_d"] else len(case["counts"])
        rk = None if case["one_d"] or case["row_keys"] == "none" else [f"p{i}" for i in range(n)] if case["row_keys"] == "str" else [10 + 3 * i for i in range(n)]
        bg = None
        if case["background"]:
            w = [case["background"][i % 4] for i in range(len(motifs))]
            bg = numpy.array(w, dtype=float) / sum(w)
        if source == "direct-counts":
            return MotifCountsArray(counts, motifs, row_indices=rk)
        if source == "direct-pssm-scores":
            return PSSM(numpy.array(case["scores"], dtype=float)[:n], motifs, row_indices=rk, background=bg)
        data = counts + (pc or 0)
        freqs = data / (data.sum() if case["one_d"] else numpy.vstack(data.sum(axis=1)))
        if source == "direct-freqs":
            return MotifFreqsArray(freqs, motifs, row_indices=rk)
        return PSSM(freqs, motifs, row_indices=rk, background=bg)
    aln = make_aligned_seqs(dict(case["rows"]), moltype=case["moltype"], array_align=case["array_align"])
    kw = dict(motif_length=case["motif_length"], include_ambiguity=case["include_ambiguity"], allow_gap=case["allow_gap"])
    skw = dict(kw, exclude_unobserved=case["exclude_unobserved"])
    if source == "counts_per_pos":
        return aln.counts_per_pos(**kw)
    if source == "counts_per_seq":
        return aln.counts_per_seq(**skw)
    if source == "probs_per_pos":
        return aln.probs_per_pos(**kw)
    if source == "probs_per_seq":
        return aln.probs_per_seq(**skw)
    if source == "freqs":
        return aln.counts_per_pos(**kw).to_freq_array(pseudocount=pc)
    if source == "freqs-from-seqs":
        counts = aln.counts_per_seq(**skw)
        return None if counts is None else counts.to_freq_array(pseudocount=pc)
    if source == "motif_totals":
        return aln.counts_per_pos(**kw).motif_totals()
    counts = aln.counts_per_pos(**kw)
    bg = None
    if case["background"]:
        w = [case["background"][i % 4] for i in range(len(counts.motifs))]
        bg = numpy.array(w, dtype=float) / sum(w)
    if source == "pssm":
        return counts.to_pssm(background=bg, pseudocount=pc)
    return counts.to_freq_array(pseudocount=pc).to_pssm(background=bg)


def exec_profile(case) -> Soft:
    import warnings

    import numpy

    from cogent3.app.result import tabular_result
    from cogent3.evolve.fast_distance import DistanceMatrix
    from cogent3.util.dict_array import DictArrayTemplate

    s = Soft("C10/")
    kind = case["kind"]
    what = f"{case}"
    nhist = 0
    if kind == "dictarray-nd":
        shape = case["shape"]
        arr = numpy.array(case["vals"]).reshape(shape)
        dims = [[f"d{k}x{i}" for i in range(n)] if how == "str" else n if how == "range" else [7 + 2 * i for i in range(n)] for k, (n, how) in enumerate(zip(shape, case["keys"]))]
        ok, obj = s.call("dictarray-nd/construct", lambda: DictArrayTemplate(*dims).wrap(arr))
        if not ok:
            return s
        for a, b, _ in case["ops"]:
            if obj.array.ndim < 2:
                break
            names0 = list(obj.template.names[0])
            ok, o2 = s.call("dictarray-nd/history/getitem", lambda: obj[names0[b % len(names0)]] if a % 2 else obj[[names0[b % len(names0)]]])
            if not ok:
                return s
            if not hasattr(o2, "template"):
                break
            obj = o2
            nhist += 1
        _profile_round_trips(s, "dictarray-nd", obj, what)
        s.cls("dictarray-nd", f"ndim:{obj.array.ndim}", *("keys:" + k for k in case["keys"]))
        s.nontrivial = nhist >= 1 or len(shape) == 3
        return s
    if kind == "distance":
        dists = {(a, b): (float("nan") if v is None else v) for a, b, v in case["dists"]}
        ok, obj = s.call("distance/construct", lambda: DistanceMatrix(dists))
        if not ok:
            return s
        for a, b, c_ in case["ops"]:
            names = list(obj.names)
            if len(names) < 3:
                break
            sel = (names[b % len(names):] + names[: b % len(names)])[: 2 + c_ % (len(names) - 1)]
            ok, o2 = s.call("distance/history/take_dists", lambda: obj.take_dists(sel))
            if not ok:
                return s
            obj = o2
            nhist += 1
        base = [("class", lambda o: type(o).__name__), ("names", lambda o: [str(n) for n in o.names]), ("array", lambda o: o.array), ("to_dict", lambda o: o.to_dict()),
                ("shape", lambda o: list(o.shape))]
        want = observe(obj, base)
        for route in ("copy", "deepcopy"):  # the other routes are exercised by the tabular sub-check
            ok, cp = _send_profile(s, "distance", obj, route)
            if ok:
                compare(s, f"distance/{route}", want, observe(cp, base), what)
                s.cls("route:" + route)
        s.cls("distance")
        s.nontrivial = nhist >= 1
        return s

    # ---- MotifCountsArray / MotifFreqsArray / PSSM
    source = case["source"]
    try:
        with warnings.catch_warnings():
            warnings.simplefilter("ignore")  # 0/0 rows of frequency arrays are NaN by design
            obj = _build_profile(case)
    except _NoProfile:
        s.cls("construct-refused:None")  # counts_per_seq returns None when no motif was observed
        return s
    except HarnessError:
        raise
    except Exception as e:  # noqa: BLE001
        if not raised_in_repo(e):
            raise
        # the producing methods refuse e.g. all-zero counts ("Must provide data"): not a serialisation matter
        s.cls("construct-refused:" + type(e).__name__)
        return s
    clsname = type(obj).__name__
    if clsname not in ("MotifCountsArray", "MotifFreqsArray", "PSSM"):
        raise HarnessError(f"{source} gave a {clsname}")
    for a, b, c_ in case["ops"]:
        op = ["take-motifs", "take-rows", "take-negate", "row", "row-slice"][a % 5]
        motifs = list(obj.motifs)
        rows = list(obj.template.names[0]) if obj.array.ndim == 2 else None
        if clsname == "PSSM" and op in ("row",):
            continue  # a PSSM is two dimensional by construction
        if op == "take-motifs":
            sel = sorted({motifs[b % len(motifs)], motifs[c_ % len(motifs)]}, key=motifs.index)
            fn = lambda: obj.take(sel, axis=1)  # noqa: E731
        elif op == "take-negate":
            if len(motifs) < 3:
                continue
            fn = lambda: obj.take([motifs[b % len(motifs)]], negate=True, axis=1)  # noqa: E731
        elif rows is None:
            continue
        elif op == "take-rows":
            sel = sorted({rows[b % len(rows)], rows[c_ % len(rows)]}, key=rows.index)
            fn = lambda: obj.take(sel, axis=0)  # noqa: E731
        elif op == "row":
            fn = lambda: obj[rows[b % len(rows)]]  # noqa: E731
        else:
            lo, hi = sorted((b % (len(rows) + 1), c_ % (len(rows) + 1)))
            if lo == hi:
                continue
            fn = lambda: obj[lo:hi]  # noqa: E731
        try:
            with warnings.catch_warnings():
                warnings.simplefilter("ignore")
                o2 = fn()
        except HarnessError:
            raise
        except Exception as e:  # noqa: BLE001
            if not raised_in_repo(e):
                raise
            s.cls("history-op-refused:" + op)  # e.g. the selection holds zeros only, a PSSM re-interprets positive scores
            continue
        if type(o2).__name__ != clsname:
            s.cls("history-op-left-class:" + op)
            continue
        obj = o2
        nhist += 1
        s.cls("op:" + op)
    with warnings.catch_warnings():
        warnings.simplefilter("ignore")
        want = _profile_round_trips(s, "profile", obj, what)
        if case["wrap"]:
            # the classes are named item types of tabular_result
            def build():
                res = tabular_result(source="data/x.fa")
                res["profile"] = obj
                return res

            def extract(cp):
                cp.deserialised_values()
                return cp["profile"]

            ok, res = s.call("profile/in-result/construct", build)
            if ok:
                _profile_round_trips(s, "profile/in-result", obj, what, routes=("json", "rich_dict", "pickle"), extract=extract, container=res)
                s.cls("in-tabular_result")
    s.cls("class:" + clsname, "source:" + source, f"ndim:{obj.array.ndim}")
    if not isinstance(want.get("array"), Unobs):
        flat = want["array"] if obj.array.ndim == 1 else [v for r in want["array"] for v in r]
        if "nan" in flat:
            s.cls("has-nan")
    if not isinstance(want.get("names"), Unobs) and want["names"] and want["names"][0] and isinstance(want["names"][0][0], int):
        s.cls("int-row-keys")
    if obj.motif_length > 1:
        s.cls("motif_length>1")
    s.nontrivial = nhist >= 1 or not source.startswith("direct")
    return s


# ================================================= alphabets, moltypes, codes
OLD_MOLTYPES = ["dna", "rna", "protein", "protein_with_stop", "text", "bytes", "ab"]
NEW_MOLTYPES = ["dna", "rna", "protein", "protein_with_stop", "text", "bytes"]


def enum_basics(tier):
    out = []
    for mt in OLD_MOLTYPES:
        out.append({"what": "moltype", "impl": "old", "moltype": mt})
        for v in ("base", "degen", "gapped", "degen_gapped", "word2", "word3"):
            out.append({"what": "alphabet", "impl": "old", "moltype": mt, "variant": v})
    for mt in NEW_MOLTYPES:
        out.append({"what": "moltype", "impl": "new", "moltype": mt})
        for v in ("base", "degen", "gapped", "degen_gapped", "kmer2", "kmer3", "kmer2gap", "with_gap_motif"):
            out.append({"what": "alphabet", "impl": "new", "moltype": mt, "variant": v})
    codes = [1, 2, 4, 11] if tier == "quick" else [1, 2, 3, 4, 5, 6, 9, 10, 11, 12, 13, 14, 15, 16]
    for impl in ("old", "new"):
        for gc in codes:
            out.append({"what": "code", "impl": impl, "gc": gc})
            for stop in (False, True):
                for gap in (False, True):
                    out.append({"what": "codon-alphabet", "impl": impl, "gc": gc, "include_stop": stop, "include_gap": gap})
    return out


def _old_alpha_obs():
    def idx(o):
        ms = list(o)
        return [o.index(m) for m in ms] if ms else []

    return [
        ("class", lambda o: type(o).__name__), ("motifs", lambda o: list(o)), ("len", len), ("moltype", lambda o: o.moltype.label),
        ("motif_len", lambda o: o.get_motif_len()), ("gap_motif", lambda o: o.get_gap_motif()), ("index", idx),
        ("to_indices", lambda o: o.to_indices(list(o)[:5])),
    ]


def _new_alpha_obs():
    def probe(o):
        ms = [m for m in list(o)[:12]]
        if not all(isinstance(m, str) for m in ms):
            return None  # bytes alphabet
        txt = "".join(ms)
        return [txt, o.to_indices(txt)]

    return [
        ("class", lambda o: type(o).__name__), ("motifs", lambda o: list(o)), ("len", len), ("gap_char", lambda o: o.gap_char), ("missing_char", lambda o: o.missing_char),
        ("gap_index", lambda o: o.gap_index), ("missing_index", lambda o: o.missing_index),
        ("motif_len", lambda o: getattr(o, "motif_len", None) or getattr(o, "motif_length", None)), ("num_canonical", lambda o: o.num_canonical),
        ("to_indices", probe), ("moltype", lambda o: getattr(getattr(o, "moltype", None), "label", None)),
        ("monomers", lambda o: None if not hasattr(o, "monomers") else [list(o.monomers), o.monomers.gap_char, o.monomers.missing_char]),
    ]


def _moltype_obs(impl):
    def degen(o):
        d = getattr(o, "ambiguities", None)
        return None if d is None else {k: sorted(v) for k, v in dict(d).items()}

    obs = [
        ("class", lambda o: type(o).__name__), ("label", lambda o: o.label), ("alphabet", lambda o: list(o.alphabet)), ("ambiguities", degen),
        ("make_seq", lambda o: [type(o.make_seq(seq=list(o.alphabet)[0] * 3, name="x")).__name__, str(o.make_seq(seq=list(o.alphabet)[0] * 3, name="x"))]),
    ]
    if impl == "old":
        obs += [("gaps", lambda o: sorted(o.gaps)), ("missing", lambda o: o.missing), ("complements", lambda o: dict(o.complements or {})),
                ("degen_alphabet", lambda o: list(o.alphabets.degen_gapped) if hasattr(o, "alphabets") else None)]
    else:
        obs += [("gap", lambda o: o.gap), ("missing", lambda o: o.missing), ("complement", lambda o: o.complement("ACGN-") if o.label in ("dna", "rna") else None),
                ("degen_gapped_alphabet", lambda o: None if o.degen_gapped_alphabet is None else list(o.degen_gapped_alphabet))]
    return obs


def _code_obs():
    return [
        ("class", lambda o: type(o).__name__), ("name", lambda o: o.name), ("id", lambda o: o.ID),
        ("table", lambda o: {a + b + c: o[a + b + c] for a in "TCAG" for b in "TCAG" for c in "TCAG"}),
        ("sense", lambda o: sorted(o.sense_codons)), ("starts", lambda o: sorted(o.start_codons)), ("translate", lambda o: o.translate("ATGGCTTAAGGG")),
    ]


def exec_basic(case) -> Soft:
    s = Soft("C10/")
    what, impl = case["what"], case["impl"]
    derived = False
    routes = ROUTES
    if what == "moltype":
        if impl == "old":
            from cogent3.core.moltype import get_moltype
        else:
            from cogent3.core.new_moltype import get_moltype
            routes = ("pickle",)  # new-style moltypes have no to_rich_dict
        ok, obj = s.call(f"moltype/{impl}/construct", get_moltype, case["moltype"])
        observers = _moltype_obs(impl)
        sig = f"moltype/{impl}"
    elif what == "alphabet":
        v = case["variant"]

        def build():
            if impl == "old":
                from cogent3.core.moltype import get_moltype

                mt = get_moltype(case["moltype"])
                if not hasattr(mt, "alphabets"):
                    return mt.alphabet if v == "base" else None
                if v.startswith("word"):
                    return mt.alphabet.get_word_alphabet(int(v[4:])) if len(mt.alphabet) <= 6 else None
                return {"base": mt.alphabet, "degen": mt.alphabets.degen, "gapped": mt.alphabets.gapped, "degen_gapped": mt.alphabets.degen_gapped}[v]
            from cogent3.core.new_moltype import get_moltype

            mt = get_moltype(case["moltype"])
            if v.startswith("kmer"):
                if len(mt.alphabet) > 6:
                    return None
                base = mt.gapped_alphabet if v.endswith("gap") else mt.alphabet
                return None if base is None else base.get_kmer_alphabet(int(v[4]), include_gap=v.endswith("gap"))
            if v == "with_gap_motif":
                return mt.alphabet.with_gap_motif() if case["moltype"] != "bytes" else None
            return {"base": mt.alphabet, "degen": mt.degen_alphabet, "gapped": mt.gapped_alphabet, "degen_gapped": mt.degen_gapped_alphabet}[v]

        ok, obj = s.call(f"alphabet/{impl}/construct[{v}]", build)
        if ok and obj is None:
            s.cls("not-applicable")
            return s
        derived = v.startswith(("word", "kmer", "with_gap"))
        observers = _old_alpha_obs() if impl == "old" else _new_alpha_obs()
        sig = f"alphabet/{impl}" + ("-kmer" if v.startswith("kmer") else "")
    elif what == "code":
        if impl == "old":
            from cogent3.core.genetic_code import get_code
        else:
            from cogent3.core.new_genetic_code import get_code
        ok, obj = s.call(f"code/{impl}/construct", get_code, case["gc"])
        observers = _code_obs()
        routes = ("pickle",)  # genetic codes have no to_rich_dict
        sig = f"code/{impl}"
    else:
        def build():
            if impl == "old":
                from cogent3.core.genetic_code import get_code

                return get_code(case["gc"]).get_alphabet(include_stop=case["include_stop"]).with_gap_motif() if case["include_gap"] else get_code(case["gc"]).get_alphabet(include_stop=case["include_stop"])
            from cogent3.core.new_genetic_code import get_code

            return get_code(case["gc"]).get_alphabet(include_stop=case["include_stop"], include_gap=case["include_gap"])

        ok, obj = s.call(f"codon-alphabet/{impl}/construct", build)
        derived = True
        observers = _old_alpha_obs() if impl == "old" else _new_alpha_obs()
        sig = f"codon-alphabet/{impl}"
    if not ok:
        return s
    round_trips(s, sig, obj, observers, f"{case}", routes=routes)
    s.cls(f"{what}:{impl}")
    s.nontrivial = derived
    return s


# ======================================================== substitution models
MODEL_VARIANTS = [
    ("HKY85", {"ordered_param": "rate", "distribution": "gamma"}),
    ("GTR", {"ordered_param": "rate", "distribution": "free"}),
    ("HKY85", {"optimise_motif_probs": True}),
    ("F81", {"motif_probs": {"A": 0.1, "C": 0.2, "G": 0.3, "T": 0.4}}),
    ("GTR", {"equal_motif_probs": True}),
    ("HKY85", {"recode_gaps": False, "model_gaps": True}),
    ("HKY85", {"motif_length": 2}),
    ("HKY85", {"motif_length": 2, "mprob_model": "monomer"}),
    ("GTR", {"motif_length": 2, "mprob_model": "conditional"}),
    ("GN", {"optimise_motif_probs": False}),
    ("JTT92", {"ordered_param": "rate", "distribution": "gamma"}),
    # codon models built for another genetic code (get_model(name, gc=k)): 2 and 4 read TGA as W (2 also stops at AGA / AGG: 60 states),
    # 6 reads TAA / TAG as Q (63 states), 12 has the standard stop codons but CTG = S (same 61 states, other silent / replacement classes)
    ("GY94", {"gc": 2}),
    ("CNFGTR", {"gc": 4}),
    ("MG94GTR", {"gc": 6}),
    ("Y98", {"gc": 12}),
    ("GNC", {"gc": 2}),
    ("GY94", {"gc": 1}),
]
# extra alignment columns (one codon per row a, b, c) for the observer of a codon model with a non-standard code: codons that are
# sense codons only in that code, or whose amino acid differs from the standard code
GC_EXTRA_CODONS = {
    1: (("CTG", "CTA", "TCG"),),
    2: (("TGA", "TGG", "TGA"), ("ATA", "ATG", "ATA")),
    4: (("TGA", "TGG", "TGA"),),
    6: (("TAA", "CAA", "TAG"), ("TAG", "TAG", "CAG")),
    12: (("CTG", "CTA", "TCG"), ("CTG", "TCA", "CTG")),
}
CUSTOM_MODELS = ["tr-nuc-predicates", "tr-nuc-kappa-only", "tr-dinuc", "ns-nuc", "tr-protein-predicate"]


def enum_models(tier):
    from cogent3.evolve.models import models

    out = [{"model": m, "kw": {}} for m in models]
    out += [{"model": m, "kw": kw} for m, kw in MODEL_VARIANTS]
    out += [{"model": "custom", "kw": {"which": c}} for c in CUSTOM_MODELS]
    return out


def _custom_model(which):
    from cogent3 import get_moltype
    from cogent3.evolve import ns_substitution_model, substitution_model
    from cogent3.evolve.predicate import MotifChange

    if which == "tr-nuc-predicates":
        return substitution_model.TimeReversibleNucleotide(predicates=[MotifChange("A", "G"), MotifChange("C", "T").aliased("ct")], name="mine")
    if which == "tr-nuc-kappa-only":
        return substitution_model.TimeReversibleNucleotide(predicates=["kappa"], optimise_motif_probs=True, name="k")
    if which == "tr-dinuc":
        return substitution_model.TimeReversibleDinucleotide(predicates=[MotifChange("A", "G")], mprob_model="tuple", name="di")
    if which == "ns-nuc":
        return ns_substitution_model.NonReversibleNucleotide(predicates=[MotifChange("A", "G", forward_only=True), MotifChange("C", "T", forward_only=True)], name="ns")
    return substitution_model.TimeReversibleProtein(predicates=[MotifChange("A", "G")], name="prot")


GC_PROBE_CODONS = [a + b + c for a in "TCAG" for b in "TCAG" for c in "TCAG"]


def _observe_code(sm):
    """codon models: the genetic code that defines the states and the silent / replacement classes, and the states"""
    code = getattr(sm, "gc", None)
    return {"code": None if code is None else [code.ID, code.name, "".join(code[c] for c in GC_PROBE_CODONS)], "motifs": list(sm.get_motifs())}


GC_GATE = [("genetic-code", _observe_code)]


def model_observer(protein, bins, gc=None):
    def obs(sm):
        from cogent3 import make_aligned_seqs, make_tree

        tree = make_tree("(a:0.1,b:0.2,c:0.3)")
        if protein:
            aln = make_aligned_seqs({"a": "MAKPLV", "b": "MAKPIV", "c": "MDKPLV"}, moltype="protein")
        else:
            rows = {"a": "ATGGCTAAACCC", "b": "ATGGCAAAGCCC", "c": "ATGGATAAACCG"}
            for col in GC_EXTRA_CODONS.get(gc, ()):
                rows = {n: r + c for (n, r), c in zip(rows.items(), col)}
            aln = make_aligned_seqs(rows, moltype="dna")
        lf = sm.make_likelihood_function(tree, bins=bins) if bins else sm.make_likelihood_function(tree)
        lf.set_alignment(aln)
        names = sorted(p for p in lf.get_param_names() if p not in ("length", "mprobs", "psubs", "bprobs", "rate"))
        for i, p in enumerate(names):
            lf.set_param_rule(p, init=0.6 + 0.17 * i)
        out = {
            "name": sm.name, "class": type(sm).__name__, "params": sorted(lf.get_param_names()), "nfp": lf.get_num_free_params(), "lnL": lf.lnL,
            "motifs": list(sm.get_motifs()), "word_length": sm.word_length, "moltype": sm.moltype.label, "param_list": list(sm.get_param_list()),
            "mprobs": lf.get_motif_probs().to_dict(),
        }
        kw = {"bin": "bin0"} if bins else {}
        out["psub"] = lf.get_psub_for_edge("a", **kw).array
        return out

    return [("model", obs)]


def exec_model(case) -> Soft:
    from cogent3.evolve.models import codon_models, protein_models

    s = Soft("C10/")
    name, kw = case["model"], dict(case["kw"])
    if name == "custom":
        ok, sm = s.call("model/custom/construct", _custom_model, kw["which"])
        family = "custom:" + kw["which"]
        protein = kw["which"] == "tr-protein-predicate"
    else:
        from cogent3 import get_model

        ok, sm = s.call("model/construct", lambda: get_model(name, **kw))
        family = "codon" if name in codon_models else "protein" if name in protein_models else "nucleotide"
        if name in ("BH", "DT"):
            family = "discrete"
        protein = name in protein_models
    if not ok:
        return s
    bins = 2 if kw.get("ordered_param") else None
    gc = kw.get("gc")
    observers = model_observer(protein, bins, gc)
    want = observe(sm, observers)
    if isinstance(want["model"], Unobs):
        s.cls("original-unobservable")
        return s
    routes = ("json", "pickle") if family == "codon" else ROUTES
    sig = "model"
    if gc is not None:
        # circumstance tag: a codon model built with an explicit genetic code; every route, copies included
        routes = ROUTES + ("copy", "deepcopy")
        sig = "model/gc"
        s.cls(f"genetic-code:{gc}")
        built = _observe_code(sm)["code"]
        if built is None or built[0] != gc:
            raise HarnessError(f"{case}: the model was not built with genetic code {gc}: {built}")
    round_trips(s, sig, sm, observers, f"{case}", routes=routes, rtol=1e-12, atol=1e-14, want=want, gate=GC_GATE if gc is not None else None)
    s.cls("family:" + family.split(":")[0], "variant" if kw else "default")
    s.nontrivial = bool(kw)
    return s


# ============================================================== annotation dbs
@st.composite
def _db_feature(draw, i):
    k = draw(st.integers(1, 3))
    cuts = sorted(draw(st.lists(st.integers(0, 60), min_size=2 * k, max_size=2 * k, unique=True)))
    return {
        "seqid": draw(st.sampled_from(["s1", "s2"])), "biotype": draw(st.sampled_from(["gene", "CDS", "exon"])), "name": f"n{i}",
        "spans": [[cuts[j], cuts[j + 1]] for j in range(0, 2 * k, 2)], "strand": draw(st.sampled_from(["+", "-"])),
        "attr": draw(st.sampled_from([None, "qzx", "kvh"])), "parent": draw(st.sampled_from([None, None, "n0"])),
    }


@st.composite
def db_cases(draw):
    cls = draw(st.sampled_from(["basic", "gff", "gb"]))
    text = [draw(_db_feature(i)) for i in range(draw(st.integers(0, 5)))] if cls != "basic" else []
    user = [draw(_db_feature(10 + i)) for i in range(draw(st.integers(0 if text else 1, 4)))]
    other = [draw(_db_feature(20 + i)) for i in range(draw(st.integers(1, 3)))]
    ops = [[draw(st.sampled_from(["update", "union", "subset-seqid", "subset-biotype", "add"])), draw(st.integers(0, 1000))] for _ in range(draw(st.integers(0, 3)))]
    return {"cls": cls, "text": text, "user": user, "other": other, "ops": ops}


def _gff_text(feats):
    lines = ["##gff-version 3"]
    for f in feats:
        attr = "ID=" + f["name"] + (";Parent=" + f["parent"] if f["parent"] else "") + (";note=" + f["attr"] if f["attr"] else "")
        for a, b in f["spans"]:
            lines.append("\t".join([f["seqid"], "verif", f["biotype"], str(a + 1), str(b), ".", f["strand"], ".", attr]))
    return "\n".join(lines) + "\n"


def _gb_text(seqid, feats):
    lines = [f"LOCUS       {seqid}                        70 bp    DNA     linear   UNK 01-JAN-2000", "FEATURES             Location/Qualifiers"]
    for f in feats:
        segs = [f"{a + 1}..{b}" for a, b in f["spans"]]
        loc = segs[0] if len(segs) == 1 else "join(" + ",".join(segs) + ")"
        if f["strand"] == "-":
            loc = f"complement({loc})"
        lines.append("     " + f["biotype"].ljust(16) + loc)
        lines.append(" " * 21 + f'/gene="{f["name"]}"')
        if f["attr"]:
            lines.append(" " * 21 + f'/note="{f["attr"]}"')
    lines += ["ORIGIN", "        1 " + " ".join(["acgtacgtac"] * 6), "       61 acgtacgtac", "//"]
    return "\n".join(lines) + "\n"


def _db_obs():
    def records(o):
        out = []
        for r in o.get_records_matching():
            d = dict(r)
            out.append({k: norm(v) for k, v in d.items() if v is not None})
        return sorted(out, key=repr)

    def feats(o):
        out = []
        for f in o.get_features_matching():
            d = dict(f)
            out.append({k: norm(v) for k, v in d.items()})
        return sorted(out, key=repr)

    return [("class", lambda o: type(o).__name__), ("len", len), ("tables", lambda o: sorted(o.table_names)), ("records", records), ("features", feats),
            ("counts", lambda o: o.biotype_counts()), ("describe", lambda o: o.describe.to_list())]


def exec_db(case) -> Soft:
    from cogent3.core.annotation_db import BasicAnnotationDb, GenbankAnnotationDb, GffAnnotationDb, load_annotations

    s = Soft("C10/")
    cls = case["cls"]
    pre = f"db/{cls}/"
    tmp = tempfile.mkdtemp(prefix="c10.", dir=os.path.join(os.path.dirname(os.path.dirname(os.path.abspath(__file__))), ".scratch"))
    dbs = []

    def add(db, f):
        kw = {"seqid": f["seqid"], "biotype": f["biotype"], "name": f["name"], "spans": [tuple(x) for x in f["spans"]], "strand": f["strand"]}
        if f["attr"]:
            kw["attributes"] = f["attr"]
        if f["parent"]:
            kw["parent_id"] = f["parent"]
        db.add_feature(**kw)

    def build():
        if cls == "basic":
            db = BasicAnnotationDb()
        elif cls == "gff":
            if case["text"]:
                path = os.path.join(tmp, "in.gff")
                with open(path, "w") as out:
                    out.write(_gff_text(case["text"]))
                db = load_annotations(path=path)
            else:
                db = GffAnnotationDb()
        else:
            db = None
            for seqid in ("s1", "s2"):
                fs = [f for f in case["text"] if f["seqid"] == seqid]
                if fs:
                    path = os.path.join(tmp, seqid + ".gb")
                    with open(path, "w") as out:
                        out.write(_gb_text(seqid, fs))
                    db = load_annotations(path=path, db=db)
            if db is None:
                db = GenbankAnnotationDb()
        for f in case["user"]:
            add(db, f)
        return db

    def build_other():
        db = BasicAnnotationDb()
        for f in case["other"]:
            add(db, f)
        return db

    try:
        ok, db = s.call(pre + "construct", build)
        ok2, other = s.call(pre + "construct-other", build_other)
        if not (ok and ok2):
            return s
        dbs += [db, other]
        nhist = 0
        for op, a in case["ops"]:
            if op == "update":
                ok, r = s.call(pre + "history/update", lambda: db.update(other))
                r = db
            elif op == "union":
                ok, r = s.call(pre + "history/union", lambda: db.union(other))
            elif op == "subset-seqid":
                ok, r = s.call(pre + "history/subset", lambda: db.subset(seqid=["s1", "s2"][a % 2]))
            elif op == "subset-biotype":
                ok, r = s.call(pre + "history/subset", lambda: db.subset(biotype=["gene", "CDS", "exon"][a % 3]))
            else:
                f = case["other"][a % len(case["other"])]
                ok, r = s.call(pre + "history/add_feature", lambda: add(db, dict(f, name=f["name"] + "x")))
                r = db
            if not ok:
                return s
            db = r
            dbs.append(db)
            nhist += 1
            s.cls("op:" + op)
        observers = _db_obs()
        want = observe(db, observers)
        mark_unobs(s, want)
        what = f"{case}"
        for route in ROUTES:
            ok, cp = send(s, f"db/{cls}", db, route)
            if not ok:
                continue
            dbs.append(cp)
            got = observe(cp, observers)
            compare(s, f"db/{cls}/{route}", want, got, what)
            s.cls("route:" + route)
        # write -> load
        path = os.path.join(tmp, "out.sqlitedb")
        ok, _ = s.call(f"db/{cls}/write", lambda: db.write(path))
        if ok:
            ok, cp = s.call(f"db/{cls}/write/reopen", lambda: type(db)(source=path))
            if ok:
                dbs.append(cp)
                compare(s, f"db/{cls}/write", want, observe(cp, observers), what)
                s.cls("route:write")
        s.cls(cls, "records:" + ("0" if not want.get("len") else "1-3" if want["len"] <= 3 else "4+") if not isinstance(want.get("len"), Unobs) else "records:?")
        s.nontrivial = nhist >= 1
    finally:
        for d in dbs:
            try:
                d.db.close()
            except Exception:  # noqa: BLE001
                pass
        shutil.rmtree(tmp, ignore_errors=True)
    return s


# ======================================================= likelihood functions
LF_MODELS = ["HKY85", "HKY85", "GTR", "F81", "TN93", "K80", "JC69", "GN", "ssGN", "BH", "DT"]
LOCI = [["l1", "l2"], ["zz", "aa"], ["b", "c", "a"]]


@st.composite
def lf_spec(draw, allow_loci=True, max_ops=4):
    model = draw(st.sampled_from(LF_MODELS))
    discrete = model in ("BH", "DT")
    variant = draw(st.sampled_from(["plain", "plain", "bins", "loci"] if allow_loci else ["plain", "plain", "bins"]))
    if discrete or (variant == "bins" and model in ("GN", "ssGN")):
        variant = "plain"
    ntips = draw(st.integers(3, 5))
    names = list("abcde")[:ntips]
    nodes = [[nm, draw(st.floats(0.01, 0.8)), []] for nm in names]
    c = 0
    while len(nodes) > 3:
        i = draw(st.integers(0, len(nodes) - 2))
        a, b = nodes.pop(i), nodes.pop(i)
        nodes.append([f"e{c}", draw(st.floats(0.01, 0.5)), [a, b]])
        c += 1
    L = draw(st.integers(9, 24))
    alpha = "ACGT" if discrete else "ACGTACGTACGTACGT-N"
    loci = draw(st.sampled_from(LOCI)) if variant == "loci" else [None]
    alns = []
    for _ in loci:
        base = draw(st.lists(st.sampled_from("ACGT"), min_size=L, max_size=L))
        aln = {}
        for nm in names:
            row = [draw(st.sampled_from(alpha)) if draw(st.integers(0, 3)) == 0 else ch for ch in base]
            if all(ch in "-N" for ch in row):
                row[0] = "A"
            aln[nm] = "".join(row)
        alns.append(aln)
    ops = []
    for _ in range(draw(st.integers(0, max_ops))):
        kind = draw(st.sampled_from(["rule", "rule", "rule", "mprobs", "optimise", "length"]))
        w = draw(st.lists(st.integers(1, 9), min_size=4, max_size=4))
        ops.append({"kind": kind, "a": draw(st.integers(0, 1000)), "b": draw(st.integers(0, 1000)), "mode": draw(st.sampled_from(["const", "init", "indep", "shared", "bounds", "locus", "bin"])),
                    "val": draw(st.floats(0.2, 5.0)), "w": w})
    return {"model": model, "variant": variant, "bins": draw(st.integers(2, 3)), "dist": draw(st.sampled_from(["gamma", "free"])), "tree": nodes, "loci": loci, "alns": alns,
            "name": draw(st.sampled_from([None, None, "mylf"])), "ops": ops, "omp": draw(st.integers(0, 3)) == 0}


# model families other than nucleotide: codon and empirical protein models (GN / ssGN are in LF_MODELS)
LF_FAMILIES = {"codon": ["GY94", "CNFGTR", "MG94GTR"], "protein": ["JTT92", "WG01", "DSO78", "AH96"]}
SENSE_CODONS = [a + b + c for a in "TCAG" for b in "TCAG" for c in "TCAG" if a + b + c not in ("TAA", "TAG", "TGA")]
AMINO_ACIDS = "ACDEFGHIKLMNPQRSTVWY"
_FAMILY_MODEL_CACHE = {}


@st.composite
def lf_family_spec(draw):
    """a codon or protein likelihood function on three or four tips; same history operations as lf_spec"""
    family = draw(st.sampled_from(["codon", "protein", "protein", "protein"]))  # each copy of a codon function rebuilds the model (1-3 s)
    model = draw(st.sampled_from(LF_FAMILIES[family]))
    variant = "bins" if family == "protein" and draw(st.integers(0, 3)) == 0 else "plain"
    ntips = draw(st.integers(3, 4))
    names = list("abcd")[:ntips]
    nodes = [[nm, draw(st.floats(0.01, 0.8)), []] for nm in names]
    if len(nodes) > 3:
        i = draw(st.integers(0, 2))
        a, b = nodes.pop(i), nodes.pop(i)
        nodes.append(["e0", draw(st.floats(0.01, 0.5)), [a, b]])
    L = draw(st.integers(3, 8))
    gc = draw(st.sampled_from([None, None, 2, 4, 6, 12])) if family == "codon" else None
    if gc is not None:
        # get_model(name, gc=k): the states are the sense codons of code k; the alignment holds at least one codon that is a
        # sense codon only in that code (or, for code 12, one whose amino acid differs from the standard code)
        from vlib.ncbi_codes import CODES

        table, std = dict(zip(GC_PROBE_CODONS, CODES[gc][1])), dict(zip(GC_PROBE_CODONS, CODES[1][1]))
        sense = [c for c in GC_PROBE_CODONS if table[c] != "*"]
        special = [c for c in sense if std[c] == "*"] or [c for c in sense if std[c] != table[c]]
        pool = draw(st.lists(st.sampled_from(sense), min_size=2, max_size=5)) + [draw(st.sampled_from(special))]
    else:
        pool = draw(st.lists(st.sampled_from(SENSE_CODONS), min_size=2, max_size=6)) if family == "codon" else list(AMINO_ACIDS)
    gap = "---" if family == "codon" else "-"
    base = [draw(st.sampled_from(pool)) for _ in range(L)]
    if gc is not None:
        base[draw(st.integers(0, L - 1))] = pool[-1]
    aln = {}
    for nm in names:
        row = [(gap if draw(st.integers(0, 5)) == 0 else draw(st.sampled_from(pool))) if draw(st.integers(0, 3)) == 0 else ch for ch in base]
        if all(ch == gap for ch in row):
            row[0] = pool[0]
        aln[nm] = "".join(row)
    ops = []
    for _ in range(draw(st.integers(0, 3))):
        kind = draw(st.sampled_from(["rule", "rule", "mprobs", "optimise", "length"]))
        ops.append({"kind": kind, "a": draw(st.integers(0, 1000)), "b": draw(st.integers(0, 1000)), "mode": draw(st.sampled_from(["const", "init", "indep", "shared", "bounds"])),
                    "val": draw(st.floats(0.2, 5.0)), "w": draw(st.lists(st.integers(1, 9), min_size=4, max_size=4))})
    return {"model": model, "family": family, "moltype": "dna" if family == "codon" else "protein", "variant": variant, "bins": 2, "dist": "gamma", "tree": nodes, "loci": [None],
            "alns": [aln], "name": draw(st.sampled_from([None, None, "mylf"])), "ops": ops, "omp": draw(st.integers(0, 3)) == 0, "gc": gc}


def _newick(nodes):
    def nw(n):
        nm, ln, kids = n
        if kids:
            return "(" + ",".join(nw(k) for k in kids) + f"){nm}:{ln!r}"
        return f"{nm}:{ln!r}"

    return "(" + ",".join(nw(n) for n in nodes) + ")"


def build_lf(s: Soft, pre: str, spec):
    """(lf, n history steps, flags) or None; construction must work, history steps may be refused"""
    from cogent3 import get_model, make_aligned_seqs, make_tree

    discrete = spec["model"] in ("BH", "DT")
    kw = {}
    if spec["variant"] == "bins":
        kw = {"ordered_param": "rate", "distribution": spec["dist"]}
    if spec["omp"] and not discrete:
        kw["optimise_motif_probs"] = True
    if spec.get("gc") is not None:
        kw["gc"] = spec["gc"]

    family = spec.get("family")
    moltype = spec.get("moltype", "dna")

    def construct():
        if family:
            # codon models take ~1 s to build: one instance per process and keyword set (models are not modified by their likelihood functions)
            key = json.dumps([spec["model"], kw], sort_keys=True)
            if key not in _FAMILY_MODEL_CACHE:
                _FAMILY_MODEL_CACHE[key] = get_model(spec["model"], **kw)
            sm = _FAMILY_MODEL_CACHE[key]
        else:
            sm = get_model(spec["model"], **kw)
        tree = make_tree(_newick(spec["tree"]))
        lkw = {}
        if spec["variant"] == "bins":
            lkw["bins"] = spec["bins"]
        if spec["variant"] == "loci":
            lkw["loci"] = list(spec["loci"])
        lf = sm.make_likelihood_function(tree, **lkw)
        alns = [make_aligned_seqs(dict(a), moltype=moltype) for a in spec["alns"]]
        lf.set_alignment(alns if spec["variant"] == "loci" else alns[0])
        if spec["name"]:
            lf.set_name(spec["name"])
        return lf

    ok, lf = s.call(pre + "construct", construct)
    if not ok:
        return None
    flags = set()
    nhist = 0
    edges = sorted(e.name for e in lf.tree.get_edge_vector(include_root=False))
    for op in spec["ops"]:
        kind, a, b, val = op["kind"], op["a"], op["b"], op["val"]
        pars = sorted(p for p in lf.get_param_names() if p not in ("mprobs", "psubs", "bprobs", "rate", "length"))
        if kind == "rule":
            if not pars:
                continue
            par = pars[a % len(pars)]
            k = 1 + b % (len(edges) - 1)
            sel = (edges[a % len(edges):] + edges[: a % len(edges)])[:k]
            mode = op["mode"]
            global_only = par in ("rate_shape",)
            if mode == "const":
                rkw = dict(value=val, is_constant=True) if global_only else dict(value=val, is_constant=True, edges=sel)
            elif mode == "init":
                rkw = dict(init=val)
            elif mode == "indep" and not global_only:
                rkw = dict(is_independent=True, edges=sel, init=val)
            elif mode == "shared" and not global_only:
                rkw = dict(is_independent=False, edges=sel, init=val)
            elif mode == "bounds":
                rkw = dict(lower=val / 4, upper=val * 4, init=val)
            elif mode == "locus" and spec["variant"] == "loci" and not global_only:
                rkw = dict(locus=spec["loci"][b % len(spec["loci"])], init=val)
                flags.add("locus-scoped")
            elif mode == "bin" and spec["variant"] == "bins" and not global_only:
                rkw = dict(bin=f"bin{b % spec['bins']}", init=val)
                flags.add("bin-scoped")
            else:
                rkw = dict(init=val)
            fn = lambda: lf.set_param_rule(par, **rkw)  # noqa: E731
            tag = "rule:" + mode
        elif kind == "length":
            fn = lambda: lf.set_param_rule("length", edge=edges[a % len(edges)], init=val / 5)  # noqa: E731
            tag = "length"
            if discrete:
                continue
        elif kind == "mprobs":
            if discrete:
                continue
            if family:
                # keys as the function itself reports them (61 codons, 4 nucleotides for the monomer based MG94*, 20 amino acids)
                keys = list(lf.get_motif_probs().keys())
                ws = [op["w"][i % 4] + (i * 7 + a) % 5 for i in range(len(keys))]
                tot = float(sum(ws))
                probs = {m: w / tot for m, w in zip(keys, ws)}
            else:
                tot = float(sum(op["w"]))
                probs = {m: w / tot for m, w in zip("TCAG", op["w"])}
            if spec["variant"] == "loci" and b % 2:
                loc = spec["loci"][a % len(spec["loci"])]
                fn = lambda: lf.set_motif_probs(probs, locus=loc)  # noqa: E731
                tag = "mprobs:locus"
            else:
                fn = lambda: lf.set_motif_probs(probs)  # noqa: E731
                tag = "mprobs"
        else:
            if discrete:
                continue  # probability parameters reach the boundary; get_param_rules lifts values below 1e-6 by design
            fn = lambda: lf.optimise(local=True, max_evaluations=4 + a % 12, limit_action="ignore", show_progress=False)  # noqa: E731
            tag = "optimise"
        try:
            fn()
        except HarnessError:
            raise
        except Exception as e:  # noqa: BLE001
            if not raised_in_repo(e):
                raise
            flags.add("history-op-refused")
            continue
        nhist += 1
        flags.add("op:" + tag)
    return lf, nhist, flags


def _rule_key(r):
    return json.dumps({k: (v if not isinstance(v, float) else None) for k, v in r.items() if k not in ("init", "value", "lower", "upper")}, sort_keys=True, default=str)


def lf_observers(spec):
    def mprobs(lf):
        mp = lf.get_motif_probs()
        return {k: v.to_dict() for k, v in mp.items()} if isinstance(mp, dict) else mp.to_dict()

    def stats(lf):
        return {t.title: [list(t.header), t.to_list()] for t in lf.get_statistics(with_motif_probs=True, with_titles=True)}

    def alignment(lf):
        if spec["variant"] == "loci":
            return {loc: lf.get_param_value("alignment", locus=loc).to_dict() for loc in spec["loci"]}
        return lf.get_param_value("alignment").to_dict()

    return [
        ("lnL", lambda lf: lf.lnL), ("nfp", lambda lf: lf.get_num_free_params()), ("name", lambda lf: lf.name), ("motif_probs", mprobs), ("statistics", stats),
        ("rules", lambda lf: sorted((norm(r) for r in lf.get_param_rules()), key=_rule_key)), ("alignment", alignment),
        ("tree", lambda lf: sorted(lf.tree.get_tip_names())), ("class", lambda lf: type(lf).__name__), ("model", lambda lf: lf.model.name),
    ]


LF_TOL = dict(rtol=1e-9, atol=1e-12)


def lf_label(spec):
    if spec.get("family"):
        # circumstance tag: a codon model built with an explicit genetic code (get_model(name, gc=k))
        return spec["family"] + ("-bins" if spec["variant"] == "bins" else "") + ("-gc" if spec.get("gc") is not None else "")
    if spec["variant"] == "bins":
        return "bins-" + spec["dist"]
    if spec["model"] in ("BH", "DT"):
        return "plain-discrete"
    return spec["variant"]


def exec_lf(case) -> Soft:
    s = Soft("C10/")
    r = build_lf(s, "lf/", case)
    if r is None:
        return s
    lf, nhist, flags = r
    observers = lf_observers(case)
    want = observe(lf, observers)
    if isinstance(want["lnL"], Unobs):
        s.cls("original-unobservable:lnL")
        return s
    label = lf_label(case)
    sig = "lf/" + label
    if case.get("family"):
        # rebuilding a codon model takes about a second: one copy per route, and the rich-dict route (the JSON route without the
        # text encoding) is left to the cheaper families
        routes = ("json", "pickle") if case["family"] == "codon" else ROUTES
        gate = None
        if case.get("gc") is not None:
            # every route, and the genetic code of the copy's model is compared before anything else
            routes = ROUTES + ("deepcopy",)
            gate = [("genetic-code", lambda f: _observe_code(f.model))]
            built = _observe_code(lf.model)["code"]
            if built is None or built[0] != case["gc"]:
                raise HarnessError(f"the model was not built with genetic code {case['gc']}: {built}")
            s.cls(f"genetic-code:{case['gc']}")
            std_sense = set(SENSE_CODONS)
            if any(r[i : i + 3] not in std_sense and r[i : i + 3] != "---" for r in case["alns"][0].values() for i in range(0, len(r), 3)):
                s.cls("alignment has a codon that is a stop codon in the standard code")
        round_trips(s, sig, lf, observers, f"{case}", routes=routes, want=want, gate=gate, **LF_TOL)
        s.cls("family:" + case["family"], "model:" + case["model"], "variant:" + case["variant"], *sorted(flags))
        if case["name"]:
            s.cls("named")
        s.nontrivial = nhist >= 1
        return s
    # the name is lost for one reason whatever the variant: one signature per route
    name_obs = [o for o in observers if o[0] == "name"]
    rest = [o for o in observers if o[0] != "name"]
    round_trips(s, sig, lf, rest, f"{case}", want={k: v for k, v in want.items() if k != "name"}, **LF_TOL)
    for route in ("json", "rich_dict", "pickle"):
        ok, cp = send(s, sig, lf, route)
        if ok:
            compare(s, f"lf/{route}", {"name": want["name"]}, observe(cp, name_obs), f"{case}")
    s.cls("model:" + case["model"], "variant:" + case["variant"], *sorted(flags))
    if case["name"]:
        s.cls("named")
    if case["variant"] == "loci" and case["loci"] != sorted(case["loci"]):
        s.cls("loci-unsorted")
    s.nontrivial = nhist >= 1
    return s


# ================================================================ app results
def _result_lf(spec):
    """likelihood functions embedded in results stay clear of the circumstance reported under lf/bins-free"""
    return dict(spec, dist="gamma")


@st.composite
def result_cases(draw, light=False):
    kinds = ["generic", "generic", "tabular", "notcompleted", "notcompleted"] if light else ["model", "model", "model3", "hypothesis", "hypothesis", "bootstrap", "collection"]
    kind = draw(st.sampled_from(kinds))
    case = {"kind": kind, "source": draw(st.sampled_from(["foo.fa", "dir/some data.json", "x"]))}
    small_lf = lf_spec(allow_loci=False, max_ops=2).map(_result_lf)
    if kind in ("generic", "tabular"):
        pool = ["table", "dictarray", "distance"] if kind == "tabular" else ["table", "dictarray", "distance", "aln", "aln-sliced", "tree", "plain", "number", "seqcoll"]
        case["items"] = [[f"k{i}", draw(st.sampled_from(pool)), draw(st.integers(0, 1000))] for i in range(draw(st.integers(0, 4)))]
        if kind == "generic" and draw(st.booleans()):
            case["items"].append([["a", "b"], "plain", 3])  # tuple key
    elif kind == "model":
        case.update(lf=draw(small_lf), name=draw(st.sampled_from(["m1", "HKY85", None])), stat=draw(st.sampled_from(["sum", "max"])),
                    elapsed=draw(st.sampled_from([None, 1.5])), nevals=draw(st.sampled_from([None, 33])))
    elif kind == "model3":
        case.update(lfs=[draw(small_lf) for _ in range(3)], name="split", stat=draw(st.sampled_from(["sum", "max"])))
    elif kind == "collection":
        case.update(members=[draw(small_lf) for _ in range(draw(st.integers(0, 3)))], name=draw(st.sampled_from([None, "coll"])))
    elif kind in ("hypothesis", "bootstrap"):
        case.update(null=draw(small_lf), alts=[draw(small_lf) for _ in range(draw(st.integers(1, 2)))], name=draw(st.sampled_from([None, "hyp"])), nsim=draw(st.integers(0, 2)))
    else:
        case.update(type=draw(st.sampled_from(["ERROR", "FAIL", "BUG"])), origin=draw(st.sampled_from(["some_app", "take_named_seqs", "x y"])),
                    message=draw(st.sampled_from(["a message", "multi\nline \"quoted\" message", "", "Traceback ...\n  File x.py, line 3"])),
                    src=draw(st.sampled_from(["none", "str", "aln", "nested", "nested-aln", "result"])))
    return case


def _value(kind, a):
    import numpy

    from cogent3 import make_aligned_seqs, make_table, make_tree, make_unaligned_seqs
    from cogent3.evolve.fast_distance import DistanceMatrix
    from cogent3.util.dict_array import DictArrayTemplate

    if kind == "table":
        return make_table(header=["id", "x", "y"], data=[["r1", a, a / 7], ["r2", -a, float("nan")]], title=f"t{a}", index_name="id" if a % 2 else None).sorted(columns="x")
    if kind == "dictarray":
        return DictArrayTemplate(["p", "q"], ["u", "v", "w"]).wrap(numpy.arange(6).reshape(2, 3) / (1 + a % 5))["q" if a % 2 else "p"]
    if kind == "distance":
        return DistanceMatrix({("a", "b"): a / 100, ("a", "c"): 0.5, ("b", "c"): 0.25, ("a", "d"): 1.0, ("b", "d"): 2.0, ("c", "d"): 3.0}).take_dists(["c", "a", "b"])
    if kind in ("aln", "aln-sliced"):
        aln = make_aligned_seqs({"s1": "ACG-TAGGCT", "s2": "AC--TAGGAT", "s3": "ACGTTA-GCT"}, moltype="dna", array_align=bool(a % 2), info={"source": "orig.fa"})
        return aln[1 + a % 3: 8].rc() if kind == "aln-sliced" else aln
    if kind == "seqcoll":
        return make_unaligned_seqs({"s1": "ACGTAGGCT", "s2": "ACTAGG"}, moltype="dna").take_seqs(["s2", "s1"])
    if kind == "tree":
        return make_tree("((a:0.1,b:0.2)ab:0.05,c:0.3,d:0.4)").rooted_with_tip("c" if a % 2 else "a")
    if kind == "plain":
        return {"x": [1, 2.5, "three"], "nested": {"a": None, "b": True}, "n": a}
    return a / 3


def _sub_obs(v, observers):
    out = {"type": type(v).__name__}
    for k, w in observe(v, observers).items():
        out[k] = UNOBS_MARK if isinstance(w, Unobs) else w
    return out


def value_obs(v):
    name = type(v).__name__
    if name == "Table":
        return {"type": name, **{k: fn(v) for k, fn in table_obs()}}
    if name == "DictArray":
        return {"type": name, "names": v.template.names, "array": v.array}
    if name == "DistanceMatrix":
        return {"type": name, "names": [str(n) for n in v.names], "array": v.array}
    if name in ("Alignment", "ArrayAlignment", "SequenceCollection"):
        return {"type": name, "names": list(v.names), "seqs": v.to_dict(), "moltype": v.moltype.label, "info": clean_info(v.info)}
    if name == "PhyloNode":
        return {"type": name, "tree": tree_obs(v)}
    if name == "AlignmentLikelihoodFunction":
        return {"type": name, "lnL": v.lnL, "nfp": v.nfp, "statistics": {t.title: [list(t.header), t.to_list()] for t in v.get_statistics(with_motif_probs=True, with_titles=True)},
                "alignment": v.get_param_value("alignment").to_dict(), "model": v.model.name, "rules": sorted((norm(r) for r in v.get_param_rules()), key=_rule_key)}
    if name == "model_result":
        return _sub_obs(v, _model_result_obs())
    if name == "hypothesis_result":
        return _sub_obs(v, _hyp_obs())
    if name == "NotCompleted":
        return _sub_obs(v, _nc_obs())
    if isinstance(v, dict) and "type" in v:
        raise HarnessError(f"value still serialised: {str(v)[:200]}")
    return v


def _generic_obs():
    def items(o):
        o.deserialised_values()
        return [[norm(k), norm(value_obs(v))] for k, v in o.items()]

    return [("class", lambda o: type(o).__name__), ("source", lambda o: str(o.source)), ("keys", lambda o: [norm(k) for k in o.keys()]), ("items", items), ("len", len)]


def _model_result_obs():
    def lfs(o):
        o.deserialised_values()
        lf = o.lf
        if isinstance(lf, dict):
            return {str(k): value_obs(v) for k, v in lf.items()}
        return value_obs(lf)

    return [
        ("class", lambda o: type(o).__name__), ("source", lambda o: str(o.source)), ("name", lambda o: o.name), ("keys", lambda o: [norm(k) for k in o.keys()]),
        ("lnL", lambda o: o.lnL), ("nfp", lambda o: o.nfp), ("DLC", lambda o: o.DLC), ("unique_Q", lambda o: o.unique_Q),
        ("elapsed_time", lambda o: o.elapsed_time), ("num_evaluations", lambda o: o.num_evaluations), ("lf", lfs),
    ]


def _hyp_obs():
    def members(o):
        o.deserialised_values()
        return {str(k): norm(value_obs(v)) for k, v in o.items()}

    return [
        ("class", lambda o: type(o).__name__), ("source", lambda o: str(o.source)), ("name", lambda o: o.name), ("keys", lambda o: list(o.keys())),
        ("LR", lambda o: o.LR), ("df", lambda o: o.df), ("pvalue", lambda o: o.pvalue), ("null", lambda o: o.null.name), ("alt", lambda o: o.alt.name), ("members", members),
    ]


def _collection_obs():
    def members(o):
        o.deserialised_values()
        return {str(k): norm(value_obs(v)) for k, v in o.items()}

    def selected(o):
        if len(o) == 0:
            return None
        return sorted(m.name for m in o.select_models(stat="aic", threshold=0.05))

    return [("class", lambda o: type(o).__name__), ("source", lambda o: str(o.source)), ("name", lambda o: o.name), ("keys", lambda o: list(o.keys())), ("len", len),
            ("members", members), ("select_models", selected)]


def _nc_obs():
    return [("class", lambda o: type(o).__name__), ("type", lambda o: o.type), ("origin", lambda o: o.origin), ("message", lambda o: o.message),
            ("source", lambda o: None if o.source is None else str(o.source)), ("str", str), ("bool", bool), ("int", int)]


def exec_result(case) -> Soft:
    from cogent3 import make_aligned_seqs
    from cogent3.app.composable import NotCompleted
    from cogent3.app.result import bootstrap_result, generic_result, hypothesis_result, model_collection_result, model_result, tabular_result

    s = Soft("C10/")
    kind = case["kind"]
    pre = f"result/{kind}/"
    src = case["source"]
    tol = {}

    def mr(spec, name, **kw):
        r = build_lf(s, pre + "lf/", spec)
        if r is None:
            return None
        res = model_result(name=name, source=src, **kw)
        res[name if name is not None else "lf"] = r[0]
        return res

    if kind in ("generic", "tabular"):
        def build():
            res = (generic_result if kind == "generic" else tabular_result)(source=src)
            for key, vk, a in case["items"]:
                res[tuple(key) if isinstance(key, list) else key] = _value(vk, a)
            return res

        ok, obj = s.call(pre + "construct", build)
        observers = _generic_obs()
        nontrivial = any(vk in ("table", "dictarray", "distance", "aln-sliced", "tree", "seqcoll") for _, vk, _ in case["items"])
        for _, vk, _ in case["items"]:
            s.cls("value:" + vk)
    elif kind == "model":
        kw = dict(stat=sum if case["stat"] == "sum" else max, elapsed_time=case["elapsed"], num_evaluations=case["nevals"])
        obj = mr(case["lf"], case["name"], **kw)
        ok = obj is not None
        observers = _model_result_obs()
        tol = LF_TOL
        nontrivial = bool(case["lf"]["ops"])
        s.cls("lf:" + lf_label(case["lf"])) if ok else None
    elif kind == "model3":
        def build():
            res = model_result(name=case["name"], source=src, stat=sum if case["stat"] == "sum" else max)
            for i, spec in enumerate(case["lfs"]):
                r = build_lf(s, pre + "lf/", spec)
                if r is None:
                    return None
                res[i + 1] = r[0]
            return res

        ok, obj = s.call(pre + "construct", build)
        ok = ok and obj is not None
        observers = _model_result_obs()
        tol = LF_TOL
        nontrivial = any(sp["ops"] for sp in case["lfs"])
    elif kind == "collection":
        def build():
            res = model_collection_result(name=case["name"], source=src)
            for i, spec in enumerate(case["members"]):
                m = mr(spec, f"m{i}")
                if m is None:
                    return None
                res[f"m{i}"] = m
            return res

        ok, obj = s.call(pre + "construct", build)
        ok = ok and obj is not None
        observers = _collection_obs()
        tol = LF_TOL
        nontrivial = any(sp["ops"] for sp in case["members"])
        s.cls(f"members:{len(case['members'])}")
    elif kind in ("hypothesis", "bootstrap"):
        def build_h():
            res = hypothesis_result(name_of_null="null", name=case["name"], source=src)
            m0 = mr(case["null"], "null")
            if m0 is None:
                return None
            res["null"] = m0
            for i, spec in enumerate(case["alts"]):
                m1 = mr(spec, f"alt{i}")
                if m1 is None:
                    return None
                res[f"alt{i}"] = m1
            return res

        def build():
            h = build_h()
            if h is None or kind == "hypothesis":
                return h
            b = bootstrap_result(source=src)
            b.observed = h
            for _ in range(case["nsim"]):
                b.add_to_null(build_h())
            return b

        ok, obj = s.call(pre + "construct", build)
        ok = ok and obj is not None
        if kind == "hypothesis":
            observers = _hyp_obs()
        else:
            observers = _generic_obs() + [("observed.LR", lambda o: o.observed.LR), ("null_dist", lambda o: o.null_dist)]
        tol = LF_TOL
        nontrivial = bool(case["null"]["ops"]) or any(sp["ops"] for sp in case["alts"])
    else:
        def build():
            sk = case["src"]
            aln = make_aligned_seqs({"s1": "ACGT", "s2": "ACGA"}, moltype="dna", info={"source": "path/to/aln.fa"})
            if sk == "none":
                source = None
            elif sk == "str":
                source = src
            elif sk == "aln":
                source = aln[1:3]
            elif sk == "result":
                source = generic_result(source=src)
            else:
                source = NotCompleted("ERROR", "first_app", "inner message", source=aln if sk == "nested-aln" else src)
            origin = source if sk.startswith("nested") and case["origin"] == "x y" else case["origin"]
            return NotCompleted(case["type"], origin, case["message"], source=source)

        ok, obj = s.call(pre + "construct", build)
        observers = _nc_obs()
        nontrivial = case["src"] in ("aln", "nested", "nested-aln", "result")
        s.cls("source:" + case["src"])
    if not ok:
        return s
    round_trips(s, "result/" + kind, obj, observers, f"{case}", **tol)
    s.cls(kind)
    s.nontrivial = bool(nontrivial)
    return s


# ==================================================================== registry
COVERED_KEYS = {
    "cogent3.util.table.Table": "tabular", "cogent3.util.dict_array.DictArray": "tabular", "cogent3.evolve.fast_distance.DistanceMatrix": "tabular",
    "cogent3.core.sequence.SeqView": "sequence", "cogent3.app.composable.NotCompleted": "results", "cogent3.app.result": "results",
    "cogent3.core.moltype": "basics", "cogent3.core.alphabet": "basics", "cogent3.core.alignment.Aligned": "collection", "cogent3.core.sequence": "sequence",
    "cogent3.core.alignment": "collection", "cogent3.core.tree": "trees", "cogent3.evolve.substitution_model": "models", "cogent3.evolve.ns_substitution_model": "models",
    "cogent3.evolve.parameter_controller": "likelihood_function", "cogent3.core.location.IndelMap": "maps", "cogent3.core.location.FeatureMap": "maps",
    "cogent3.core.annotation_db.BasicAnnotationDb": "annotation_db", "cogent3.core.annotation_db.GffAnnotationDb": "annotation_db",
    "cogent3.core.annotation_db.GenbankAnnotationDb": "annotation_db", "cogent3.core.new_alphabet.CharAlphabet": "basics", "cogent3.core.new_alphabet.KmerAlphabet": "basics",
    "cogent3.core.new_alphabet.CodonAlphabet": "basics", "cogent3.core.new_sequence.Sequence": "sequence", "cogent3.core.new_sequence.ProteinSequence": "sequence",
    "cogent3.core.new_sequence.ByteSequence": "sequence", "cogent3.core.new_sequence.ProteinWithStopSequence": "sequence", "cogent3.core.new_sequence.DnaSequence": "sequence",
    "cogent3.core.new_sequence.RnaSequence": "sequence", "cogent3.core.new_alignment.SeqsData": "collection", "cogent3.core.new_alignment.SequenceCollection": "collection",
    "cogent3.core.profile": "profile",  # registered by the fix of the profile-class defect; reported as 'not-registered-any-more' on a tree without it
}
UNCOVERED_KEYS = {"annotation_to_annotation_db"}  # converter for the pre-2023 'annotations' list format, no object serialises to it any more


def enum_registry(tier):
    return [{"check": "registry"}]


def exec_registry(case) -> Soft:
    import importlib

    for mod in ("cogent3", "cogent3.app.result", "cogent3.app.composable", "cogent3.core.new_sequence", "cogent3.core.new_alignment", "cogent3.core.new_alphabet",
                "cogent3.core.annotation_db", "cogent3.core.location", "cogent3.evolve.likelihood_function", "cogent3.evolve.fast_distance", "cogent3.util.table",
                "cogent3.util.dict_array", "cogent3.core.tree", "cogent3.core.profile"):
        importlib.import_module(mod)
    from cogent3.util.deserialise import _deserialise_func_map

    s = Soft("C10/")
    keys = set(_deserialise_func_map)
    new = sorted(keys - set(COVERED_KEYS) - UNCOVERED_KEYS)
    if new:
        raise HarnessError(f"deserialiser registry has keys without a generator or an 'uncovered' entry: {new}")
    for k in sorted(keys):
        s.cls(("covered:" if k in COVERED_KEYS else "uncovered:") + k)
    for k in sorted(set(COVERED_KEYS) - keys):
        s.cls("not-registered-any-more:" + k)
    s.evals = len(keys)
    return s


SUBS = [
    Sub("registry", exec_registry, enumerate=enum_registry, exhaustive=True, weight=0.1),
    Sub("results", exec_result, strategy=result_cases(), quick=160, thorough=16_000, shards_quick=8, weight=8.0),
    Sub("results_light", exec_result, strategy=result_cases(light=True), quick=400, thorough=32_000, shards_quick=4, weight=1.0),
    Sub("likelihood_function", exec_lf, strategy=lf_spec(), quick=320, thorough=16_000, shards_quick=8, weight=5.0),
    Sub("lf_families", exec_lf, strategy=lf_family_spec(), quick=48, thorough=3_200, shards_quick=8, weight=40.0),
    Sub("annotation_db", exec_db, strategy=db_cases(), quick=300, thorough=32_000, shards_quick=4),
    Sub("basics", exec_basic, enumerate=enum_basics, exhaustive=True, weight=0.2),
    Sub("models", exec_model, enumerate=enum_models, exhaustive=True, weight=50.0),
    Sub("maps", exec_map, strategy=map_cases(), quick=600, thorough=64_000, shards_quick=4),
    Sub("trees", exec_tree, strategy=tree_cases(), quick=600, thorough=64_000, shards_quick=4),
    Sub("tabular", exec_tabular, strategy=tabular_cases(), quick=800, thorough=64_000, shards_quick=4),
    Sub("profile", exec_profile, strategy=profile_cases(), quick=800, thorough=64_000, shards_quick=4),
    Sub("sequence", exec_seq, strategy=seq_cases(), quick=1200, thorough=160_000, shards_quick=8),
    Sub("collection_seq", exec_collseq, strategy=collseq_cases(), quick=640, thorough=96_000, shards_quick=8),
    Sub("collection", exec_coll, strategy=coll_cases(), quick=800, thorough=96_000, shards_quick=8),
]

def _kp_tree_unnamed_nodes_sorted(case, sig, msg):
    """tree history with `bifurcating` (new nodes are unnamed) followed by `sorted` (every unnamed node is
    called edge.0): the rich dict is keyed by node name, so lengths and names of those nodes collide"""
    ops = [op[0] for op in case.get("ops", []) if op]
    return "bifurcating" in ops and "sorted" in ops[ops.index("bifurcating") + 1 :]


KNOWN_PREDICATES = {"tree_unnamed_nodes_sorted": _kp_tree_unnamed_nodes_sorted}

META = {
    "technique": "Hypothesis-generated objects and pre-serialisation histories; round trip through JSON, rich dict and pickle (copy / deepcopy / the class's own copy() where offered) with type specific observational equality (plus a string model for sequences, sequences handed out by collections, and collections)",
    "level_text": "Per run several thousand generated objects of the registered serialisable types (and of the profile array classes that app results name as members) are brought into a non-fresh state (sliced, strided, reverse complemented, annotated, re-rooted, re-scoped, optimised), observed through harness-written observers, serialised through every route and observed again; alphabets, moltypes, genetic codes and all registered substitution models (codon models also for non-standard genetic codes) are enumerated.",
    "level_note": "Round-trip oracle: trusts the observers (strings, coordinates, features, parameter tables, lnL) to expose differences; registry keys without a generator are listed as uncovered classes.",
    "design_ref": "DESIGN.md section 1, C10",
}
