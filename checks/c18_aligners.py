"""C18 — aligners preserve their inputs and are optimal for their own model.

Oracles (all written here, none of the dynamic-programming, traceback or
gap-merging code of cogent3 is used by them):

* content: rows of equal length, degapped rows equal the inputs (a
  contiguous part of them for local alignment); a pairwise result must be
  a path (no column that is a gap in both rows);
* own-model optimality: the pair-HMM *model* (state directions, transition
  matrix, emission score arrays) is read from the ``PairHMM`` object the
  aligner constructed; the harness scores the returned path with its own
  scorer, enumerates every monotone path for tiny inputs and runs its own
  backward recursion for larger ones; reported score == score(returned
  path) == maximum.  The model itself is tied to the requested scores by
  ratio relations (gap of length k costs d + (k-1)e relative to matches,
  substitution scores differ as the scoring dict says);
* full dynamic programming vs Hirschberg (``HIRSCHBERG_LIMIT`` lowered):
  equal score, and the Hirschberg path also rescoring to the maximum;
* reference-based: the projection of the multiple alignment onto
  (reference, row), all-gap columns removed, is the pairwise alignment, also
  with the Hirschberg limit lowered; the pair-HMMs the app builds encode the
  requested scores;
* orientation of the scoring dict (asymmetric dicts): a column pairing
  character x of the first sequence with character y of the second scores
  S[x, y];
* progressive: content clause; every node's pair-HMM (sequence or
  sub-alignment children, predecessor lists read from the alignables) is
  maximised by an independent forward recursion and the node's traceback is
  rescored; full DP vs Hirschberg;
* progressive, other options ('progopts'): the content clause and the node
  clauses for DNA, codon and protein models, estimated / given (also
  multifurcating) guide trees, iters / approx_dists / unique_guides /
  param_vals, through the app and through tree_align directly;
* 'sw': the smith_waterman app is judged like local_pairwise (content,
  recorded sw_score == score of the returned path == maximum).

Sequences of every sub-check may carry IUPAC ambiguity codes: the content
clauses need them returned unaltered, the optimality clauses are judged on
the aligner's own emission arrays (no independent model of how an ambiguity
code is scored is needed or assumed).
"""

from __future__ import annotations

import contextlib

from hypothesis import strategies as st

from vlib.core import HarnessError, Soft, Sub, exception_site

PROPERTY_ID = "C18"
LEVEL = "exploration"
RULE = (
    "pairwise sub-checks: a case is (moltype, two sequences built as identical / unrelated / substring / mutated-with-indels "
    "copies over a 1-4 letter sub-alphabet, a scoring dict (make_dna_scoring_dict, make_generic_scoring_dict, a random "
    "symmetric integer matrix or a random asymmetric one, S[x,y] != S[y,x]), gap open d in 1..20, gap extend e in 0.5..5, local or global, Hirschberg limit 0 or half the "
    "problem size). 'brute' uses lengths 1-7 and enumerates every monotone path of the aligner's own pair-HMM; 'pair' uses "
    "lengths 8-60 and an independent backward recursion. Non-trivial = the returned path has >= 1 gap and >= 1 mismatch. "
    "merge: a reference (1-12 residues) and 1-4 generated pairwise alignments to it with classic-reachable gap layouts are "
    "given to pairwise_to_multiple; non-trivial = >= 2 non-reference rows whose reference gaps differ. ref: 3-6 related "
    "sequences through get_app('align_to_ref') with named or longest reference, default or passed (symmetric / asymmetric) scores, "
    "for one case in two repeated with the Hirschberg limit 0; non-trivial = >= 2 rows whose pairwise "
    "alignments put different gaps into the reference. progressive: 2-5 related DNA sequences with a generated guide tree "
    "through get_app('progressive_align'); non-trivial = the result contains a gap and >= 3 sequences. "
    "progopts: 2-5 related sequences (DNA; codon sequences built from sense codons with whole-codon indels; protein over the 20 "
    "model states) aligned by get_app('progressive_align') or cogent3.align.progressive.tree_align with model in {HKY85, F81, "
    "JC69, TN93, K80, 'nucleotide'; 'codon'/MG94HKY; 'protein', JTT92, WG01}, guide tree estimated (None) or given (binary or "
    "multifurcating newick, branch lengths incl. 0.0), iters None/1/2, approx_dists, unique_guides, param_vals, "
    "params_from_pairwise, dict or collection input, optionally repeated with the Hirschberg limit 0 (content only); "
    "non-trivial as for progressive. sw: pair cases (lengths 1-30) through get_app('smith_waterman') with passed or default "
    "scores. In every sub-check one case in three draws its sequences from the canonical letters plus 1-3 IUPAC ambiguity codes "
    "(DNA: NRYWSKMBDHV, protein: XBZ; codon cases: only codons whose every resolution is a sense codon); one ref family in four has "
    "a member replaced by an exact duplicate, an unrelated sequence or a single residue. Distinct = distinct case encodings."
)
ASSUMPTIONS = [
    "sequences are non-empty and contain canonical characters and IUPAC ambiguity codes of the moltype (no gaps, no '?')",
    "ambiguity codes: the input-preservation clauses (names, equal length, degapped rows equal the inputs character for character) apply to every aligner; "
    "the own-model optimality clauses (reported score = rescored path = maximum, full DP vs Hirschberg) also apply because they are evaluated on the emission arrays "
    "the aligner built, whatever it put there for an ambiguity code; how an ambiguity code is scored is not documented (observed: log of the mean of exp(score) "
    "over the resolutions of both characters), so the relation between match emissions and the scoring dict is asserted for pairs of canonical characters only",
    "scoring dicts cover the whole moltype alphabet; scores in -20..20, d in 1..20, e in 0.5..5 (multiples of 0.5)",
    "orientation of a scoring dict S for global_pairwise / local_pairwise / classic_align_pairwise(s1, s2, S, ...): the key is (character of s1, character of s2). "
    "No docstring says so in words; it is the only reading of classic_align_pairwise, which looks up Sd[m1, m2] with m1 from the alphabet of s1 and m2 from the alphabet of s2 "
    "and fills an array shaped [len(alphabet of s1), len(alphabet of s2)], and it is the universal convention for substitution matrices. It only matters for asymmetric dicts "
    "(about one case in four); failures of the emission relation under an asymmetric dict carry the tag [asymmetric-scores]. smith_waterman: tests/test_app/test_align.py pins "
    "app(coll) == local_pairwise(first sequence of the collection, second, ...), so the first sequence is s1 (clause sw_app/model/sequence-order). align_to_ref does not document "
    "whether the reference is s1 or s2: the harness reads the argument order off the pair-HMMs the app built and uses the same order for its own global_pairwise calls, "
    "so either order is accepted; within that order the key is (character of the first, character of the second)",
    "align_to_ref with the Hirschberg limit 0: the result must keep the pairwise alignments that global_pairwise returns under the same limit, and each of those must be a path of "
    "maximal score of the pair's own model (co-optimal paths differing from the full-DP one are acceptable, as for the pair sub-checks)",
    "optimality is judged on the aligner's own pair-HMM (transition matrix and emission arrays read from the PairHMM it built); "
    "that model is only required to encode the requested scores up to per-state additive constants: log T[M,gap]-log T[M,M] = -d, "
    "log T[gap,gap]-log T[gap,M] = -e, no X<->Y transition, match emissions differ by the differences of the scoring dict, gap emissions constant",
    "scores are compared with relative tolerance 1e-9 (absolute 1e-9 below 1); co-optimal paths are all acceptable",
    "local alignment: the returned rows must be a contiguous part of each input; any occurrence of that part is accepted when rescoring",
    "pairwise_to_multiple is driven only with pairwise alignments reachable by the classic aligner (no insertion column adjacent to a deletion column, no all-gap column, >= 1 aligned column)",
    "align_to_ref 'longest' is only used when the longest sequence is unique, both counting and not counting ambiguity codes "
    "(align_to_ref measures with SequenceCollection.get_lengths(), whose documented default leaves ambiguity codes out)",
    "progressive alignment: DNA models (HKY85, F81, JC69, TN93), guide tree with positive branch lengths covering exactly the sequences; "
    "each node is judged on the pair-HMM and predecessor graph it was given (so a node is checked against its own inputs even if an earlier node differed); "
    "node scores of the full-DP and the Hirschberg run are compared only when both runs return the same alignment",
    "multiple alignments are not required to be free of all-gap columns (not part of the property text)",
    "progopts: only the clauses that hold for every option are asserted: the call completes, all names present, rows of equal length, degapped rows equal the inputs, "
    "tree_align returns (alignment, tree) with the input names as tips, and every pair-HMM solved on the way (guide-tree pairwise alignments included) returns a maximal path of its own model; "
    "which guide tree is estimated and what iters changes are not asserted. Codon models: lengths divisible by 3 and no stop codon under any resolution "
    "(an incomplete trailing codon is documented to be dropped, test_codon_incomplete; a stop codon gives NotCompleted, test_progressive_fails). Protein models: the 20 model states "
    "plus X/B/Z (U is not a state of JTT92/WG01). distance='pdist' (default) only: 'paralinear' is undefined for many short pairs and the app then returns the tree builder's NotCompleted",
    "progopts, estimated guide tree: when the distance/tree-building apps cannot produce a tree the app returns their NotCompleted (origin quick_tree, fast_slow_dist, ...) and "
    "tree_align raises the ArithmeticError documented by Alignment.distance_matrix ('not all pairwise distances could be computed'); both are counted as class no-guide-tree, not as failures. "
    "A NotCompleted whose origin is progressive_align, or any other exception, is a failure",
    "progopts with tree_align and a codon model always passes a guide tree (estimating one runs an optimiser per pair: seconds per case)",
    "sw: the smith_waterman app is documented as local alignment with the score stored in info['align_params']['sw_score'] (tests pin equality with local_pairwise); "
    "its default scores are make_dna_scoring_dict(10, -1, -8) for DNA and make_generic_scoring_dict(10, moltype) otherwise (docstring)",
    "the legacy pure-python kernel py_calc_rows is not compared (it is not reachable from any aligner and not covered by the suite)",
]

NEG = float("-inf")
DEFAULT_LIMIT = 10**8
DNA = "ACGT"  # order irrelevant, only membership
PROT = "ACDEFGHIKLMNPQRSTUVWY"


# IUPAC ambiguity codes the moltypes resolve (cogent3 moltype.ambiguities; '?' and '-' are not used)
AMBIG = {
    "dna": {"N": "ACGT", "R": "AG", "Y": "CT", "W": "AT", "S": "CG", "K": "GT", "M": "AC", "B": "CGT", "D": "AGT", "H": "ACT", "V": "ACG"},
    "protein": {"X": PROT, "B": "DN", "Z": "EQ"},
}
STOPS = ("TAA", "TAG", "TGA")  # standard genetic code
SENSE = [a + b + c for a in "TCAG" for b in "TCAG" for c in "TCAG" if a + b + c not in STOPS]
AA20 = "ACDEFGHIKLMNPQRSTVWY"  # states of the protein substitution models (no U)


def _alpha(mt):
    return DNA if mt == "dna" else PROT


class _R:
    """repr of a cogent3 object, evaluated only when a message is formatted and never raising"""

    def __init__(self, obj):
        self.obj = obj

    def __str__(self):
        try:
            return repr(self.obj)[:400]
        except Exception as e:  # noqa: BLE001
            return f"<{type(self.obj).__name__}: repr raised {type(e).__name__}>"


def _completed(s, sig, res, what):
    """res is an alignment-like result (not a NotCompleted); the message is only built on failure"""
    if hasattr(res, "to_dict") and type(res).__name__ != "NotCompleted":
        return True
    s.fail(sig, f"{what} {_R(res)}")
    return False


def _ncanon(text, mt):
    return sum(c not in AMBIG[mt] for c in text)


# ===================================================================== model
def _child_name(c):
    try:
        return str(c.leaf.edge_name)
    except Exception:  # noqa: BLE001 - only used to tell the two dimensions apart; absent = unknown
        return None


def _child_text(c):
    try:
        return str(c.seq) if hasattr(c, "seq") else None
    except Exception:  # noqa: BLE001
        return None


class Model:
    """the aligner's own pair-HMM, as plain python lists"""

    def __init__(self, hmm, flags=None):
        import numpy

        sd, T = hmm._transition_matrix
        ep = hmm.emission_probs
        if hasattr(ep, "midpoint"):
            ep = ep.midpoint
        use_cost = True if flags is None else bool(flags.use_cost_function)
        M, (X, Y) = ep._getEmissionProbs(True, use_cost)
        with numpy.errstate(divide="ignore"):
            logT = numpy.log(numpy.asarray(T, dtype=float))
        self.logT = [[float(v) for v in row] for row in logT]
        self.END = len(self.logT) - 1
        self.states = [(int(a), int(b), int(c), int(d)) for a, b, c, d in numpy.asarray(sd).tolist()]
        self.M = numpy.asarray(M).tolist()
        self.X = numpy.asarray(X).tolist()
        self.Y = numpy.asarray(Y).tolist()
        self.xi = [int(v) for v in ep.pair.x_index]
        self.yi = [int(v) for v in ep.pair.y_index]
        self.n = len(self.xi) - 2
        self.m = len(self.yi) - 2
        self.both_seqs = bool(ep.pair.both_seqs)
        # predecessor positions of every position (sequences: [i-1]; sub-alignments: a partial order graph)
        self.px = [[int(p) for p in pre] for pre in ep.pair.children[0]]
        self.py = [[int(p) for p in pre] for pre in ep.pair.children[1]]
        self.kinds = tuple("seq" if type(c).__name__ == "AlignableSeq" else "aln" for c in ep.pair.children)
        # which sequence is the first (x) and which the second (y) dimension of this model: names and texts of
        # sequence children (None for a sub-alignment child)
        self.names = tuple(_child_name(c) for c in ep.pair.children)
        self.texts = tuple(_child_text(c) for c in ep.pair.children)
        self.by_dir = {}
        for st_, b, dx, dy in self.states:
            self.by_dir.setdefault((dx, dy), []).append(st_)
        self.dirs = {st_: (b, dx, dy) for st_, b, dx, dy in self.states}

    def em(self, st_, i, j):
        """log emission of state st_ having consumed up to (i, j) (1-based)"""
        b, dx, dy = self.dirs[st_]
        if dx and dy:
            return self.M[b][self.xi[i]][self.yi[j]]
        if dx:
            return self.X[b][self.xi[i]]
        return self.Y[b][self.yi[j]]

    # -- score of one path: list of (state, i, j) after emission
    def score_path(self, path, local):
        if not path:
            # the empty path exists only between two sub-alignments that can both be skipped entirely (START -> END edges)
            return NEG if local else self.logT[0][self.END]
        tot = 0.0
        prev = 0
        for st_, i, j in path:
            tot += self.logT[prev][st_] + self.em(st_, i, j)
            prev = st_
        if not local:
            tot += self.logT[prev][self.END]
        return tot

    # -- exhaustive enumeration
    def enumerate_best(self, local, tol=1e-9):
        """(maximum, number of maximisers, number of paths) over all paths"""
        n, m = self.n, self.m
        logT, END = self.logT, self.END
        states = [(st_, dx, dy) for st_, b, dx, dy in self.states]
        match_states = {st_ for st_, b, dx, dy in self.states if dx and dy}
        res = {"best": NEG, "nbest": 0, "count": 0}

        def finish(tot):
            res["count"] += 1
            b = res["best"]
            if tot > b + tol * max(1.0, abs(b)) or b == NEG:
                if tot > NEG:
                    res["best"], res["nbest"] = tot, 1
            elif abs(tot - b) <= tol * max(1.0, abs(b)):
                res["nbest"] += 1
                if tot > b:
                    res["best"] = tot

        def rec(i, j, s, acc):
            if local:
                if s in match_states:
                    finish(acc)
            elif i == n and j == m:
                finish(acc + logT[s][END])
                return
            row = logT[s]
            for st_, dx, dy in states:
                ni, nj = i + dx, j + dy
                if ni > n or nj > m:
                    continue
                t = row[st_]
                if t == NEG:
                    continue
                rec(ni, nj, st_, acc + t + self.em(st_, ni, nj))

        if local:
            for i in range(1, n + 1):
                for j in range(1, m + 1):
                    for st_ in match_states:
                        t = logT[0][st_]
                        if t > NEG:
                            rec(i, j, st_, t + self.em(st_, i, j))
        else:
            rec(0, 0, 0, 0.0)
        return res["best"], res["nbest"], res["count"]

    # -- independent backward recursion (any size)
    def best(self, local):
        n, m = self.n, self.m
        logT, END = self.logT, self.END
        states = [(st_, dx, dy) for st_, b, dx, dy in self.states]
        ids = [0] + [st_ for st_, _, _ in states]
        match_states = {st_ for st_, b, dx, dy in self.states if dx and dy}
        # B[i][j][s]: best completion after state s emitted at (i, j)
        B = [[None] * (m + 2) for _ in range(n + 2)]
        for i in range(n, -1, -1):
            for j in range(m, -1, -1):
                cell = {}
                for s in ids:
                    if local:
                        v = 0.0 if s in match_states else NEG
                    else:
                        v = logT[s][END] if (i == n and j == m) else NEG
                    row = logT[s]
                    for st_, dx, dy in states:
                        ni, nj = i + dx, j + dy
                        if ni > n or nj > m:
                            continue
                        t = row[st_]
                        if t == NEG:
                            continue
                        nxt = B[ni][nj][st_]
                        if nxt == NEG:
                            continue
                        c = t + self.em(st_, ni, nj) + nxt
                        if c > v:
                            v = c
                    cell[s] = v
                B[i][j] = cell
        if not local:
            return B[0][0][0]
        best = NEG
        for i in range(1, n + 1):
            for j in range(1, m + 1):
                for st_ in match_states:
                    t = logT[0][st_]
                    if t == NEG:
                        continue
                    c = t + self.em(st_, i, j) + B[i][j][st_]
                    if c > best:
                        best = c
        return best


def best_forward(model):
    """global maximum by a forward recursion that follows predecessor lists (works for sub-alignments)"""
    n, m = model.n, model.m
    logT, END = model.logT, model.END
    ids = [0] + [st_ for st_, _, _, _ in model.states]
    F = {(0, 0): {s: (0.0 if s == 0 else NEG) for s in ids}}
    for i in range(0, n + 1):
        for j in range(0, m + 1):
            if i == 0 and j == 0:
                continue
            cell = {0: NEG}
            for st_, b, dx, dy in model.states:
                v = NEG
                if (dx and i == 0) or (dy and j == 0):
                    cell[st_] = NEG
                    continue
                for pi in model.px[i] if dx else [i]:
                    for pj in model.py[j] if dy else [j]:
                        src = F.get((pi, pj))
                        if src is None:
                            continue
                        for ps in ids:
                            c = src[ps] + logT[ps][st_]
                            if c > v:
                                v = c
                cell[st_] = v + model.em(st_, i, j) if v > NEG else NEG
            F[i, j] = cell
    best = NEG
    for pi in model.px[n + 1]:
        for pj in model.py[m + 1]:
            src = F.get((pi, pj))
            if src is None:
                continue
            for ps in ids:
                c = src[ps] + logT[ps][END]
                if c > best:
                    best = c
    return best


def traceback_path(model, tb):
    """([(state, i, j)], problem) from a cogent3 TrackBack: every step must follow a predecessor edge"""
    path = []
    pi = pj = 0
    for st_, posn, _ in tb.tlist:
        st_ = int(st_)
        i, j = int(posn[0]), int(posn[1])
        if st_ not in model.dirs:
            return None, f"unknown state {st_}"
        _, dx, dy = model.dirs[st_]
        if not (0 <= i <= model.n and 0 <= j <= model.m):
            return None, f"position ({i},{j}) outside ({model.n},{model.m})"
        okx = (pi in model.px[i]) if dx else (pi == i)
        oky = (pj in model.py[j]) if dy else (pj == j)
        if not (okx and oky):
            return None, f"step ({pi},{pj}) -> ({i},{j}) in state {st_} follows no predecessor edge"
        path.append((st_, i, j))
        pi, pj = i, j
    if pi not in model.px[model.n + 1] or pj not in model.py[model.m + 1]:
        return None, f"path stops at ({pi},{pj}), not at an end of ({model.n},{model.m})"
    return path, ""


@contextlib.contextmanager
def capture_hmms(limit=None):
    """records every PairHMM built while active; optionally sets the Hirschberg limit"""
    import cogent3.align.pairwise as pw

    got = []
    orig = pw.PairHMM.__init__
    old_limit = pw.HIRSCHBERG_LIMIT

    def init(self, *a, **k):
        orig(self, *a, **k)
        got.append(self)

    pw.PairHMM.__init__ = init
    if limit is not None:
        pw.HIRSCHBERG_LIMIT = limit
    try:
        yield got
    finally:
        pw.PairHMM.__init__ = orig
        pw.HIRSCHBERG_LIMIT = old_limit


def delannoy(n, m):
    row = [1] * (m + 1)
    for _ in range(n):
        new = [1]
        for j in range(1, m + 1):
            new.append(new[j - 1] + row[j - 1] + row[j])
        row = new
    return row[m]


# ============================================================ scoring dicts
def expected_scores(spec, mt):
    """harness-side scoring dict from the case's spec"""
    letters = _alpha(mt)
    out = {}
    kind = spec["kind"]
    if kind == "dna":
        pur = "AG"
        for a in letters:
            for b in letters:
                if a == b:
                    v = spec["m"]
                elif (a in pur) == (b in pur):
                    v = spec["ts"]
                else:
                    v = spec["tv"]
                out[a, b] = v
    elif kind == "generic":
        for a in letters:
            for b in letters:
                out[a, b] = spec["m"] if a == b else -1
    else:
        sub = spec["letters"]
        k = len(sub)
        vals = spec["vals"]
        for a in letters:
            for b in letters:
                out[a, b] = spec["dm"] if a == b else spec["dx"]
        if kind == "asym":
            # a full k x k matrix, row = character of the first sequence, column = character of the second
            if len(vals) != k * k:
                raise HarnessError("asym spec needs k*k values")
            for i in range(k):
                for j in range(k):
                    out[sub[i], sub[j]] = vals[i * k + j]
            return out
        idx = 0
        for i in range(k):
            for j in range(i, k):
                out[sub[i], sub[j]] = vals[idx]
                out[sub[j], sub[i]] = vals[idx]
                idx += 1
    return out


def is_asymmetric(want):
    return any(v != want[b, a] for (a, b), v in want.items())


def _default_spec(mt):
    """documented default of align_to_ref / smith_waterman: make_dna_scoring_dict(10, -1, -8) for DNA, make_generic_scoring_dict(10, moltype) otherwise"""
    return {"kind": "dna", "m": 10, "ts": -1, "tv": -8} if mt == "dna" else {"kind": "generic", "m": 10}


def build_scoring(s, spec, mt, sig):
    """the dict handed to the aligner: cogent3's builders where the spec names one"""
    from cogent3.align import make_dna_scoring_dict, make_generic_scoring_dict

    want = expected_scores(spec, mt)
    if is_asymmetric(want):
        s.cls("S:asymmetric")
    if spec["kind"] == "dna":
        ok, S = s.call(f"{sig}/make_dna_scoring_dict", make_dna_scoring_dict, spec["m"], spec["ts"], spec["tv"])
    elif spec["kind"] == "generic":
        ok, S = s.call(f"{sig}/make_generic_scoring_dict", make_generic_scoring_dict, spec["m"], mt)
    else:
        return want, want
    if not ok:
        return None, want
    return S, want


# ============================================================ path helpers
def columns(r1, r2):
    """column kinds of a two-row alignment: M, X (first row only), Y, or '?' for an all-gap column"""
    out = []
    for a, b in zip(r1, r2):
        if a != "-" and b != "-":
            out.append("M")
        elif a != "-":
            out.append("X")
        elif b != "-":
            out.append("Y")
        else:
            out.append("?")
    return "".join(out)


def path_from_rows(model, r1, r2, off1, off2):
    """[(state, i, j)] for the returned rows, or None if a column kind has no unique state"""
    path = []
    i, j = off1, off2
    for kind in columns(r1, r2):
        d = {"M": (1, 1), "X": (1, 0), "Y": (0, 1)}.get(kind)
        if d is None:
            return None
        sts = model.by_dir.get(d, [])
        if len(sts) != 1:
            return None
        i += d[0]
        j += d[1]
        path.append((sts[0], i, j))
    return path


def project(rows, a, b):
    """rows a and b of a multiple alignment with the columns that are gaps in both removed"""
    ra, rb = rows[a], rows[b]
    keep = [k for k in range(len(ra)) if ra[k] != "-" or rb[k] != "-"]
    return "".join(ra[k] for k in keep), "".join(rb[k] for k in keep)


def gap_slots(row):
    """{residues to the left: gap length} of a gapped row"""
    out, n, run = {}, 0, 0
    for c in row:
        if c == "-":
            run += 1
        else:
            if run:
                out[n] = run
            run = 0
            n += 1
    if run:
        out[n] = run
    return out


# ========================================================== pairwise checks
def check_model(s, model, want, d, e, s1, s2):
    """the aligner's model encodes the requested scores (ratio relations only)"""
    tol = 1e-9
    mm = model.by_dir.get((1, 1), [])
    xx = model.by_dir.get((1, 0), [])
    yy = model.by_dir.get((0, 1), [])
    if not s.check(len(mm) == 1 and len(xx) == 1 and len(yy) == 1, "model/states", f"state directions {model.states}"):
        return False
    Mst, Xst, Yst = mm[0], xx[0], yy[0]
    L = model.logT
    ok = True
    for g, nm in ((Xst, "X"), (Yst, "Y")):
        ok &= s.close(L[Mst][g] - L[Mst][Mst], -d, "model/gap-open", f"log T[M,{nm}] - log T[M,M]", rtol=tol, atol=tol)
        ok &= s.close(L[g][g] - L[g][Mst], -e, "model/gap-extend", f"log T[{nm},{nm}] - log T[{nm},M]", rtol=tol, atol=tol)
    ok &= s.check(L[Xst][Yst] == NEG and L[Yst][Xst] == NEG, "model/no-x-y", f"T[X,Y]={L[Xst][Yst]} T[Y,X]={L[Yst][Xst]} must be impossible")
    # emissions: a column pairing character x of the first sequence with character y of the second scores S[x, y]
    # (up to one additive constant).  With an asymmetric S the failures get their own signature (orientation of the dict)
    if len(s1) != model.n or len(s2) != model.m:
        raise HarnessError(f"model of size ({model.n},{model.m}) judged against sequences {s1!r} {s2!r}")
    circ = "[asymmetric-scores]" if is_asymmetric(want) else ""
    base = first = None
    for i in range(1, model.n + 1):
        for j in range(1, model.m + 1):
            if (s1[i - 1], s2[j - 1]) not in want:
                continue  # a pair with an ambiguity code: its score is not documented, not asserted
            v = model.em(Mst, i, j) - want[s1[i - 1], s2[j - 1]]
            if base is None:
                base, first = v, (s1[i - 1], s2[j - 1])
            elif abs(v - base) > 1e-9 * max(1.0, abs(base)):
                ok &= s.check(False, "model/match-emission" + circ, f"first sequence {s1}, second {s2}: emission({s1[i-1]},{s2[j-1]}) - S[{s1[i-1]},{s2[j-1]}] = {v!r}, but emission{first} - S{first} = {base!r}")
                break
        else:
            continue
        break
    gx = {round(model.em(Xst, i, 0), 9) for i in range(1, model.n + 1)}
    gy = {round(model.em(Yst, 0, j), 9) for j in range(1, model.m + 1)}
    ok &= s.check(len(gx) == 1 and len(gy) == 1 and gx == gy, "model/gap-emission", f"gap emissions vary: {sorted(gx)} {sorted(gy)}")
    return ok


def observe_pair(s, sig, fn, s1, s2, S, d, e, limit):
    """run one aligner -> (rows1, rows2, score, model) or None"""
    with capture_hmms(limit) as got:
        ok, res = s.call(sig, fn, s1, s2, S, d, e, return_score=True)
    if not ok:
        return None
    try:
        aln, score = res
    except Exception:  # noqa: BLE001
        s.fail(f"{sig}/result", f"expected (alignment, score), got {_R(res)}")
        return None
    if not _completed(s, f"{sig}/completed", aln, "returned"):
        return None
    try:
        score = float(score)
    except Exception:  # noqa: BLE001
        s.fail(f"{sig}/score-reported", f"expected a numeric score, got {score!r}"[:300])
        return None
    ok, rows = s.call(f"{sig}/to_dict", lambda: {str(k): str(v) for k, v in aln.to_dict().items()})
    if not ok:
        return None
    if not s.check(set(rows) == {"a", "b"}, f"{sig}/names", f"rows {sorted(rows)}"):
        return None
    if not s.check(len(got) == 1, f"{sig}/one-hmm", f"{len(got)} PairHMM objects built"):
        return None
    model = Model(got[0])
    # the first argument / first sequence of the collection is the first dimension of the model (for the app:
    # test_smith_waterman_matches_local_pairwise pins app(coll) == local_pairwise(first, second))
    if not s.check(model.names == ("a", "b"), f"{sig}/model/sequence-order", f"the model was built for {model.names} {model.texts}, the call was (a, b)"):
        return None
    return rows["a"], rows["b"], score, model


def _sw_app_fn(s, mt, default_scores):
    """get_app('smith_waterman') with the call signature of local_pairwise"""
    from cogent3 import get_app, make_unaligned_seqs

    def fn(s1, s2, S, d, e, return_score=True):
        kw = {} if default_scores else {"score_matrix": S}
        app = get_app("smith_waterman", insertion_penalty=d, extension_penalty=e, moltype=mt, **kw)
        coll = make_unaligned_seqs({"a": s1, "b": s2}, moltype=mt)
        res = app(coll)
        if type(res).__name__ == "NotCompleted" or not hasattr(res, "info"):
            return res, None
        params = res.info.get("align_params", None) or {}
        return res, params.get("sw_score", None)

    return fn


def check_content(s, sig, r1, r2, t1, t2, local):
    """-> (offset1, offset2) of the aligned part, or None"""
    ok = s.check(len(r1) == len(r2), f"{sig}/content/equal-length", f"{r1!r} {r2!r}")
    ok &= s.check(len(r1) > 0, f"{sig}/content/empty", "no columns returned")
    if ok:
        ok &= s.check("?" not in columns(r1, r2), f"{sig}/content/all-gap-column", f"{r1!r} {r2!r}")
    d1, d2 = r1.replace("-", ""), r2.replace("-", "")
    if local:
        o1, o2 = t1.find(d1), t2.find(d2)
        ok &= s.check(o1 >= 0 and len(d1) > 0, f"{sig}/content/substring", f"{d1!r} is not a non-empty part of {t1!r}")
        ok &= s.check(o2 >= 0 and len(d2) > 0, f"{sig}/content/substring", f"{d2!r} is not a non-empty part of {t2!r}")
    else:
        o1 = o2 = 0
        ok &= s.eq(d1, t1, f"{sig}/content/degapped", "first row")
        ok &= s.eq(d2, t2, f"{sig}/content/degapped", "second row")
    return (o1, o2) if ok else None


def exec_pair(case) -> Soft:
    from cogent3 import make_seq
    from cogent3.align import global_pairwise, local_pairwise

    s = Soft("C18/")
    mt, t1, t2, spec = case["mt"], case["s1"], case["s2"], case["S"]
    d, e, local = case["d"], case["e"], bool(case["local"])
    mode = "local" if local else "global"
    s.cls(mt, mode, "S:" + spec["kind"], f"rel:{case.get('rel', '?')}")
    n, m = len(t1), len(t2)
    s.cls("len:1" if min(n, m) == 1 else ("len:2-7" if max(n, m) <= 7 else "len:8+"))
    namb = sum(c in AMBIG[mt] for c in t1 + t2)
    s.cls("ambiguity:none" if not namb else ("ambiguity:one-seq" if not all(any(c in AMBIG[mt] for c in t) for t in (t1, t2)) else "ambiguity:both-seqs"))
    S, want = build_scoring(s, spec, mt, "scoring")
    if S is None:
        return s
    ok1, s1 = s.call("make_seq", make_seq, t1, name="a", moltype=mt)
    ok2, s2 = s.call("make_seq", make_seq, t2, name="b", moltype=mt)
    if not (ok1 and ok2):
        return s
    fn = local_pairwise if local else global_pairwise
    if case.get("api") == "app":
        # the smith_waterman app: the same local aligner behind the app interface, score in info['align_params']['sw_score']
        if not local:
            raise HarnessError("api=app is the smith_waterman app: local only")
        mode = "sw_app"
        if case.get("defaultS") and spec != _default_spec(mt):
            raise HarnessError("defaultS needs the spec of the documented default scores")
        s.cls("S:app-default" if case.get("defaultS") else "S:passed")
        fn = _sw_app_fn(s, mt, bool(case.get("defaultS")))
    obs = observe_pair(s, mode, fn, s1, s2, S, d, e, DEFAULT_LIMIT)
    if obs is None:
        return s
    r1, r2, score, model = obs
    evals = 1
    check_model(s, model, want, d, e, t1, t2)
    offs = check_content(s, mode, r1, r2, t1, t2, local)

    # maximum of the aligner's own model
    best = model.best(local)
    use_enum = (n * m <= 25) if local else (delannoy(n, m) <= 9000)
    if use_enum:
        ebest, nbest, count = model.enumerate_best(local)
        evals += count
        s.cls("enumerated", "co-optimal" if nbest > 1 else "unique-optimum")
        # two harness computations must agree (else the harness is wrong)
        if abs(ebest - best) > 1e-9 * max(1.0, abs(best)):
            raise HarnessError(f"enumeration {ebest} != recursion {best} on {case}")
    else:
        s.cls("recursion-only")
    s.close(score, best, f"{mode}/score-is-maximum", f"reported score vs best path of own model ({r1}/{r2})", rtol=1e-9, atol=1e-9)
    if offs is not None:
        path = path_from_rows(model, r1, r2, *offs)
        if path is not None:
            ps = model.score_path(path, local)
            s.close(ps, score, f"{mode}/score-of-returned-path", f"rescored path {r1}/{r2} vs reported", rtol=1e-9, atol=1e-9)
            s.check(ps <= best + 1e-9 * max(1.0, abs(best)), f"{mode}/harness-max-too-low", f"path {ps} beats harness maximum {best}")
            s.close(ps, best, f"{mode}/returned-path-is-optimal", f"rescored path {r1}/{r2} vs maximum", rtol=1e-9, atol=1e-9)
        cols = columns(r1, r2)
        has_gap = "X" in cols or "Y" in cols
        has_mis = any(a != b and a != "-" and b != "-" for a, b in zip(r1, r2))
        s.cls("path:gap" if has_gap else "path:ungapped")
        if has_gap and ("X" in cols and "Y" in cols):
            s.cls("path:both-gap-kinds")
        s.nontrivial = has_gap and has_mis

    # linear space vs full dynamic programming
    if not local and n >= 3:
        hl = case.get("hl", 0)
        limit = 0 if hl == 0 else max(1, ((n + 2) * (m + 2) * len(model.logT)) // 2)
        s.cls("hirschberg:limit-0" if limit == 0 else "hirschberg:limit-half")
        obs2 = observe_pair(s, "hirschberg", fn, s1, s2, S, d, e, limit)
        evals += 1
        if obs2 is not None:
            h1, h2, hscore, hmodel = obs2
            s.close(hscore, score, "hirschberg/score-equals-full-dp", f"{h1}/{h2} vs {r1}/{r2}", rtol=1e-9, atol=1e-9)
            hoffs = check_content(s, "hirschberg", h1, h2, t1, t2, False)
            if hoffs is not None:
                hp = path_from_rows(model, h1, h2, 0, 0)
                if hp is not None:
                    hs = model.score_path(hp, False)
                    s.close(hs, best, "hirschberg/returned-path-is-optimal", f"rescored {h1}/{h2} vs maximum (full dp gave {r1}/{r2})", rtol=1e-9, atol=1e-9)
            s.cls("hirschberg:same-path" if (h1, h2) == (r1, r2) else "hirschberg:other-path")
    s.evals = evals
    return s


# ------------------------------------------------------------- generators
def _letters(draw, mt):
    k = draw(st.sampled_from([1, 2, 2, 3, 3, 4]))
    alpha = _alpha(mt)
    start = draw(st.integers(0, len(alpha) - k))
    return alpha[start : start + k]


def _text(draw, letters, lo, hi):
    return "".join(draw(st.lists(st.sampled_from(letters), min_size=lo, max_size=hi)))


def _mutate(draw, t, letters, hi, nmax=6):
    """copy with substitutions and indel runs"""
    out = list(t)
    for _ in range(draw(st.integers(1, nmax))):
        op = draw(st.sampled_from("sdi"))
        pos = draw(st.integers(0, max(0, len(out))))
        if op == "s" and out:
            out[min(pos, len(out) - 1)] = draw(st.sampled_from(letters))
        elif op == "d" and len(out) > 1:
            ln = draw(st.integers(1, 3))
            del out[pos : pos + ln]
            if not out:
                out = [t[0]]
        elif op == "i":
            ln = draw(st.integers(1, 3))
            out[pos:pos] = [draw(st.sampled_from(letters)) for _ in range(ln)]
    return "".join(out)[:hi] or t[:1]


def _scoring_spec(draw, mt, letters):
    kinds = ["dna", "generic", "matrix", "matrix", "asym", "asym"] if mt == "dna" else ["generic", "matrix", "matrix", "asym"]
    kind = draw(st.sampled_from(kinds))
    if kind == "dna":
        m = draw(st.integers(1, 12))
        return {"kind": "dna", "m": m, "ts": draw(st.integers(-10, m)), "tv": draw(st.integers(-12, m))}
    if kind == "generic":
        return {"kind": "generic", "m": draw(st.integers(1, 12))}
    k = len(letters)
    if kind == "asym":
        # S[x, y] != S[y, x] in general: row = character of the first sequence, column = character of the second
        vals = draw(st.lists(st.integers(-12, 12), min_size=k * k, max_size=k * k))
        return {"kind": "asym", "letters": letters, "vals": vals, "dm": draw(st.integers(-2, 12)), "dx": draw(st.integers(-12, 4))}
    vals = draw(st.lists(st.integers(-12, 12), min_size=k * (k + 1) // 2, max_size=k * (k + 1) // 2))
    return {"kind": "matrix", "letters": letters, "vals": vals, "dm": draw(st.integers(-2, 12)), "dx": draw(st.integers(-12, 4))}


def _amb_pool(draw, mt, letters, extra=None):
    """letters to draw sequence characters from: the canonical ones (weight 3 each) plus 1-3 ambiguity codes of the moltype"""
    codes = sorted(AMBIG[mt]) if extra is None else extra
    amb = draw(st.lists(st.sampled_from(codes), min_size=1, max_size=3, unique=True))
    return list(letters) * 3 + amb


def _pair_case(draw, lengths, api=None):
    mt = draw(st.sampled_from(["dna", "dna", "protein"]))
    canon = _letters(draw, mt)
    # one case in three carries IUPAC ambiguity codes in its sequences
    letters = _amb_pool(draw, mt, canon) if draw(st.sampled_from([False, False, True])) else canon
    rel = draw(st.sampled_from(["identical", "unrelated", "substring", "mutated", "mutated", "mutated"]))
    n = draw(st.sampled_from(lengths))
    hi = max(lengths)
    t1 = _text(draw, letters, n, n)
    if rel == "identical":
        t2 = t1
    elif rel == "unrelated":
        k = draw(st.sampled_from(lengths))
        t2 = _text(draw, letters, k, k)
    elif rel == "substring":
        a = draw(st.integers(0, len(t1) - 1))
        b = draw(st.integers(a + 1, len(t1)))
        t2 = t1[a:b]
    else:
        t2 = _mutate(draw, t1, letters, hi)
    if draw(st.booleans()):
        t1, t2 = t2, t1
    case = {
        "mt": mt,
        "s1": t1,
        "s2": t2,
        "rel": rel,
        "S": _scoring_spec(draw, mt, canon),
        "d": draw(st.sampled_from([1, 1, 2, 2, 3, 4, 6, 9, 12, 20])),
        "e": draw(st.sampled_from([0.5, 0.5, 1, 1, 1.5, 2, 3, 5])),
        "local": draw(st.sampled_from([False, False, True])),
        "hl": draw(st.sampled_from([0, 0, 1])),
    }
    if api == "app":
        case["api"] = "app"
        case["local"] = True
        if draw(st.sampled_from([False, False, True])):
            case["defaultS"] = True
            case["S"] = _default_spec(mt)
            case["d"], case["e"] = draw(st.sampled_from([(20, 2), (20, 2), (9, 1), (3, 1)]))
    return case


@st.composite
def brute_cases(draw):
    return _pair_case(draw, [1, 2, 3, 3, 4, 4, 5, 5, 6, 6, 7])


@st.composite
def long_cases(draw):
    return _pair_case(draw, [8, 10, 12, 16, 20, 30, 45, 60])


@st.composite
def sw_cases(draw):
    return _pair_case(draw, [1, 2, 3, 4, 5, 6, 8, 12, 20, 30], api="app")


# ============================================================= merge check
def exec_merge(case) -> Soft:
    from cogent3 import make_aligned_seqs, make_seq
    from cogent3.app.align import pairwise_to_multiple

    s = Soft("C18/merge/")
    mt, ref, pw_rows = case["mt"], case["ref"], case["pw"]
    ok, ref_seq = s.call("make_seq", make_seq, ref, name="r", moltype=mt)
    if not ok:
        return s
    pwise = []
    for k, (rr, orow) in enumerate(pw_rows):
        ok, aln = s.call("make_aligned_seqs", make_aligned_seqs, {"r": rr, f"s{k}": orow}, moltype=mt, array_align=False)
        if not ok:
            return s
        pwise.append((f"s{k}", aln))
    ok, res = s.call("pairwise_to_multiple", pairwise_to_multiple, pwise, ref_seq, mt)
    if not ok:
        return s
    ok, rows = s.call("to_dict", lambda: {str(k): str(v) for k, v in res.to_dict().items()})
    if not ok:
        return s
    layouts = {tuple(sorted(gap_slots(rr).items())) for rr, _ in pw_rows}
    s.cls(f"rows={len(pw_rows)}", f"ref-gap-layouts={min(len(layouts), 3)}")
    s.cls("ambiguity" if any(c in AMBIG[mt] for c in ref + "".join(o for _, o in pw_rows)) else "canonical")
    if any(rr.startswith("-") or o.startswith("-") for rr, o in pw_rows):
        s.cls("leading-gap")
    if any(rr.endswith("-") or o.endswith("-") for rr, o in pw_rows):
        s.cls("trailing-gap")
    if any("-" in rr for rr, _ in pw_rows) and any("-" in o for _, o in pw_rows):
        s.cls("insertions+deletions")
    s.nontrivial = len(pw_rows) >= 2 and len(layouts) >= 2
    check_multiple(s, rows, "r", {f"s{k}": (rr, o) for k, (rr, o) in enumerate(pw_rows)}, {"r": ref, **{f"s{k}": o.replace("-", "") for k, (_, o) in enumerate(pw_rows)}})
    return s


def check_multiple(s, rows, ref_name, pairs, inputs, pre=""):
    """content + 'keeps each sequence's pairwise alignment with the reference'"""
    if not s.eq(sorted(rows), sorted(inputs), pre + "content/names", "row names"):
        return
    lens = {len(v) for v in rows.values()}
    if not s.check(len(lens) == 1, pre + "content/equal-length", f"{rows}"):
        return
    okc = True
    for name, text in inputs.items():
        okc &= s.eq(rows[name].replace("-", ""), text, pre + "content/degapped", f"row {name} of {rows}")
    if not okc:
        return
    circ = "[ref-gap-inside-deletion]" if _ref_gap_inside_deletion(pairs) else ""
    for name, (rr, orow) in pairs.items():
        got = project(rows, ref_name, name)
        s.eq(got, (rr, orow), pre + "keeps-pairwise" + circ, f"projection of result {rows} onto ({ref_name},{name})")


def _ref_gap_inside_deletion(pairs):
    """some pairwise alignment inserts residues at a reference position that lies strictly inside a run of
    reference residues deleted in another pairwise alignment (the circumstance of known finding C18-merge)"""
    ins, dels = {}, {}
    for name, (rr, orow) in pairs.items():
        ins[name] = {p for p, ln in gap_slots(rr).items() if ln}
        runs, p, start = [], 0, None
        for rc_, oc in zip(rr, orow):
            if rc_ == "-":
                continue
            if oc == "-":
                if start is None:
                    start = p
            elif start is not None:
                runs.append((start, p))
                start = None
            p += 1
        if start is not None:
            runs.append((start, p))
        dels[name] = runs
    for a in pairs:
        for b in pairs:
            if a == b:
                continue
            for p in ins[a]:
                if any(lo < p < hi for lo, hi in dels[b]):
                    return True
    return False


@st.composite
def merge_cases(draw):
    mt = draw(st.sampled_from(["dna", "dna", "protein"]))
    letters = _alpha(mt)[: draw(st.sampled_from([2, 4, 4]))] if mt == "dna" else _alpha(mt)[: draw(st.sampled_from([3, 8, 21]))]
    if draw(st.sampled_from([False, False, True])):
        letters = _amb_pool(draw, mt, letters)
    n = draw(st.integers(1, 12))
    ref = _text(draw, letters, n, n)
    k = draw(st.integers(1, 4))
    pw_rows = []
    for _ in range(k):
        # which reference residues are aligned (M) or deleted in the other row (X): runs
        flags = []
        while len(flags) < n:
            kind = draw(st.sampled_from("MMX"))
            flags.extend(kind * draw(st.integers(1, 4)))
        flags = flags[:n]
        if "M" not in flags:
            flags[draw(st.integers(0, n - 1))] = "M"
        rr, orow = [], []
        for p in range(n + 1):
            left_ok = p == 0 or flags[p - 1] == "M"
            right_ok = p == n or flags[p] == "M"
            if left_ok and right_ok:
                ln = draw(st.sampled_from([0, 0, 0, 1, 1, 2, 3]))
                for _ in range(ln):
                    rr.append("-")
                    orow.append(draw(st.sampled_from(letters)))
            if p < n:
                rr.append(ref[p])
                if flags[p] == "M":
                    orow.append(ref[p] if draw(st.booleans()) else draw(st.sampled_from(letters)))
                else:
                    orow.append("-")
        pw_rows.append(["".join(rr), "".join(orow)])
    return {"mt": mt, "ref": ref, "pw": pw_rows}


# ======================================================= align_to_ref check
def _ref_pairs(s, sig, seqs, objs, ref_name, ref_first, S, d, e, limit):
    """the pairwise alignment of every sequence with the reference, by global_pairwise in the argument order the app
    used -> ({name: (reference row, other row)}, {name: Model}) or None"""
    from cogent3.align import global_pairwise

    pairs, models = {}, {}
    for n in sorted(seqs):
        if n == ref_name:
            continue
        a, b = (ref_name, n) if ref_first.get(n, True) else (n, ref_name)
        with capture_hmms(limit) as got:
            ok, aln = s.call(f"{sig}global_pairwise", global_pairwise, objs[a], objs[b], S, d, e)
        if not ok:
            return None
        ok, pr = s.call(f"{sig}global_pairwise/to_dict", lambda: {str(k): str(v) for k, v in aln.to_dict().items()})
        if not ok:
            return None
        if not s.check(set(pr) == {ref_name, n}, f"{sig}global_pairwise/names", f"rows {sorted(pr)}"):
            return None
        pairs[n] = (pr[ref_name], pr[n])
        if len(got) == 1:
            models[n] = (Model(got[0]), a, b)
    return pairs, models


def exec_ref(case) -> Soft:
    from cogent3 import get_app, make_seq, make_unaligned_seqs

    s = Soft("C18/align_to_ref/")
    mt, seqs, ref = case["mt"], case["seqs"], case["ref"]
    spec, d, e = case["S"], case["d"], case["e"]
    names = sorted(seqs)
    kw = {}
    S, want = build_scoring(s, spec if spec is not None else _default_spec(mt), mt, "scoring")
    if S is None:
        return s
    if spec is not None:
        kw["score_matrix"] = S
    s.cls(mt, "ref:longest" if ref == "longest" else "ref:named", "S:default" if spec is None else "S:" + spec["kind"], f"n={len(names)}")
    s.cls("ambiguity" if any(c in AMBIG[mt] for v in seqs.values() for c in v) else "canonical")
    vals = list(seqs.values())
    if len(set(vals)) < len(vals):
        s.cls("member:duplicate")
    if min(len(v) for v in vals) == 1:
        s.cls("member:length-1")
    ok, coll = s.call("make_unaligned_seqs", make_unaligned_seqs, {n: seqs[n] for n in case["order"]}, moltype=mt)
    if not ok:
        return s
    ok, app = s.call("get_app", get_app, "align_to_ref", ref_seq=ref, insertion_penalty=d, extension_penalty=e, moltype=mt, **kw)
    if not ok:
        return s
    with capture_hmms() as app_hmms:
        ok, res = s.call("call", app, coll)
    if not ok:
        return s
    if not _completed(s, "completed", res, "app returned"):
        return s
    ok, rows = s.call("to_dict", lambda: {str(k): str(v) for k, v in res.to_dict().items()})
    if not ok:
        return s
    if ref == "longest":
        top = max(len(v) for v in seqs.values())
        ref_name = [n for n in names if len(seqs[n]) == top][0]
        if any(_ncanon(seqs[ref_name], mt) <= len(seqs[n]) for n in names if n != ref_name):
            raise HarnessError("ref='longest' is only in the domain when the longest sequence is unique with and without its ambiguity codes")
    else:
        ref_name = ref
    objs = {}
    for n in names:
        ok, objs[n] = s.call("make_seq", make_seq, seqs[n], name=n, moltype=mt)
        if not ok:
            return s
    # the pair-HMMs the app built: which of (reference, sequence) it made the first dimension (not documented, so it
    # is read off), and the relation of their scores to the requested S, d, e (as for global_pairwise)
    ref_first = {}
    for h in app_hmms:
        model = Model(h)
        if ref_name not in model.names or len(set(model.names)) != 2 or not all(n in seqs for n in model.names):
            continue
        other = model.names[1] if model.names[0] == ref_name else model.names[0]
        if other in ref_first or model.texts != (seqs[model.names[0]], seqs[model.names[1]]):
            continue
        ref_first[other] = model.names[0] == ref_name
        check_model(s, model, want, d, e, *model.texts)
    s.cls("pair-hmms:all-seen" if len(ref_first) == len(names) - 1 else "pair-hmms:not-all-seen")
    got = _ref_pairs(s, "", seqs, objs, ref_name, ref_first, S, d, e, None)
    if got is None:
        return s
    pairs, models = got
    layouts = {tuple(sorted(gap_slots(rr).items())) for rr, _ in pairs.values()}
    s.cls(f"ref-gap-layouts={min(len(layouts), 3)}")
    s.nontrivial = len(layouts) >= 2
    check_multiple(s, rows, ref_name, pairs, dict(seqs))
    evals = 1

    # linear space: the same app with the Hirschberg limit at 0 keeps the pairwise alignments made with that limit,
    # and those are paths of maximal score of the same model (co-optimal paths are all acceptable)
    if case.get("hl") == 0:
        with capture_hmms(0):
            ok, hres = s.call("hirschberg/call", app, coll)
        if ok and _completed(s, "hirschberg/completed", hres, "app returned"):
            ok, hrows = s.call("hirschberg/to_dict", lambda: {str(k): str(v) for k, v in hres.to_dict().items()})
            hgot = _ref_pairs(s, "hirschberg/", seqs, objs, ref_name, ref_first, S, d, e, 0) if ok else None
            if hgot is not None:
                evals += 1
                hpairs = hgot[0]
                s.cls("hirschberg:same-alignment" if hrows == rows else "hirschberg:other-alignment")
                check_multiple(s, hrows, ref_name, hpairs, dict(seqs), pre="hirschberg/")
                for n, (hr, ho) in hpairs.items():
                    if (hr, ho) == pairs[n] or n not in models:
                        continue
                    model, a, b = models[n]
                    if len(hr) != len(ho) or hr.replace("-", "") != seqs[ref_name] or ho.replace("-", "") != seqs[n]:
                        continue  # reported by the content clauses of the pair sub-checks; nothing to rescore
                    path = path_from_rows(model, *((hr, ho) if a == ref_name else (ho, hr)), 0, 0)
                    if path is None:
                        continue
                    best = model.best(False)
                    s.close(model.score_path(path, False), best, "hirschberg/pairwise-is-optimal", f"({ref_name},{n}) with limit 0: {hr}/{ho}; full dp gave {pairs[n][0]}/{pairs[n][1]}", rtol=1e-9, atol=1e-9)
    s.evals = evals
    return s


def _family(draw, letters, k, lo, hi):
    anc = _text(draw, letters, lo, hi)
    out = []
    for _ in range(k):
        out.append(_mutate(draw, anc, letters, hi + 6, nmax=4))
    return out


def _odd_members(draw, fam, letters):
    """one family in four gets a member replaced by an exact duplicate of another, an unrelated sequence or a single residue"""
    if len(fam) < 2 or draw(st.sampled_from([True, False, False, False])) is False:
        return fam
    fam = list(fam)
    i = draw(st.integers(0, len(fam) - 1))
    kind = draw(st.sampled_from(["duplicate", "unrelated", "length-1"]))
    if kind == "duplicate":
        fam[i] = fam[(i + 1) % len(fam)]
    elif kind == "unrelated":
        fam[i] = _text(draw, letters, 2, 12)
    else:
        fam[i] = _text(draw, letters, 1, 1)
    return fam


@st.composite
def ref_cases(draw):
    mt = draw(st.sampled_from(["dna", "dna", "dna", "protein"]))
    letters = _alpha(mt)[: (4 if mt == "dna" else draw(st.sampled_from([4, 21])))]
    canon = letters
    if draw(st.sampled_from([False, False, True])):
        letters = _amb_pool(draw, mt, canon)
    k = draw(st.integers(3, 6))
    fam = _family(draw, letters, k, 4, draw(st.sampled_from([8, 16, 30])))
    fam = _odd_members(draw, fam, letters)
    names = [f"t{i}" for i in range(k)]
    seqs = dict(zip(names, fam))
    if draw(st.booleans()):
        ref = "longest"
        chosen = draw(st.sampled_from(names))
        # the longest is unique by construction, whether or not ambiguity codes are counted
        # (align_to_ref measures with get_lengths(), which leaves ambiguity codes out)
        top = max(len(v) for n, v in seqs.items() if n != chosen)
        while _ncanon(seqs[chosen], mt) <= top:
            seqs[chosen] += draw(st.sampled_from(canon))
    else:
        ref = draw(st.sampled_from(names))
    order = draw(st.permutations(names))
    default = draw(st.sampled_from([True, False, False]))
    return {
        "mt": mt,
        "seqs": seqs,
        "order": list(order),
        "ref": ref,
        "S": None if default else _scoring_spec(draw, mt, canon[:4]),
        "d": draw(st.integers(1, 20)),
        "e": draw(st.integers(1, 10)) / 2,
        "hl": draw(st.sampled_from([None, 0])),
    }


# ======================================================= progressive check
def _prog_run(s, sig, case, limit):
    from cogent3 import get_app, make_unaligned_seqs

    ok, coll = s.call(f"{sig}/make_unaligned_seqs", make_unaligned_seqs, {n: case["seqs"][n] for n in case["order"]}, moltype="dna")
    if not ok:
        return None
    ok, app = s.call(
        f"{sig}/get_app",
        get_app,
        "progressive_align",
        model=case["model"],
        guide_tree=case["tree"],
        indel_rate=case["indel_rate"],
        indel_length=case["indel_length"],
    )
    if not ok:
        return None
    with capture_hmms(limit) as got:
        ok, res = s.call(f"{sig}/call", app, coll)
    if not ok:
        return None
    if not _completed(s, f"{sig}/completed", res, "app returned"):
        return None
    ok, rows = s.call(f"{sig}/to_dict", lambda: {str(k): str(v) for k, v in res.to_dict().items()})
    if not ok:
        return None
    return rows, got


def _prog_content(s, sig, rows, seqs):
    if not s.eq(sorted(rows), sorted(seqs), f"{sig}/content/names", "row names"):
        return False
    ok = s.check(len({len(v) for v in rows.values()}) == 1, f"{sig}/content/equal-length", f"{rows}")
    for n, t in seqs.items():
        ok &= s.eq(rows[n].replace("-", ""), t, f"{sig}/content/degapped", f"row {n} of {rows}")
    return ok


def _viterbi_results(hmm):
    """[(flags, score, traceback)] cached on a PairHMM"""
    out = []
    for flags, res in hmm.results.items():
        if getattr(flags, "viterbi", False) and isinstance(res, tuple) and len(res) == 2:
            out.append((flags, float(res[0]), res[1]))
    return out


def check_nodes(s, sig, hmms, full_dp):
    """own-model optimality of every node of a progressive run -> [(kind, reported score)]"""
    out = []
    for idx, h in enumerate(hmms):
        vres = _viterbi_results(h)
        if not s.check(len(vres) == 1, f"{sig}/node/one-viterbi-result", f"node {idx}: {len(vres)} viterbi results"):
            out.append((None, None))
            continue
        flags, score, tb = vres[0]
        model = Model(h, flags)
        kind = "-".join(sorted(model.kinds))
        s.cls(f"node:{kind}")
        best = best_forward(model)
        if model.both_seqs:
            other = model.best(False)
            if abs(other - best) > 1e-9 * max(1.0, abs(best)):
                raise HarnessError(f"forward recursion {best} != backward recursion {other}")
        out.append((kind, score))
        if full_dp:
            s.close(score, best, f"{sig}/node:{kind}/score-is-maximum", f"node {idx} ({model.n}x{model.m}) reported vs best path of own model", rtol=1e-9, atol=1e-9)
        path, why = traceback_path(model, tb)
        if not s.check(path is not None, f"{sig}/node:{kind}/traceback-is-a-path", f"node {idx}: {why}; {tb}"):
            continue
        ps = model.score_path(path, False)
        s.check(ps <= best + 1e-9 * max(1.0, abs(best)), f"{sig}/node:{kind}/harness-max-too-low", f"path {ps} beats harness maximum {best}")
        s.close(ps, best, f"{sig}/node:{kind}/returned-path-is-optimal", f"node {idx} ({model.n}x{model.m}) rescored traceback {tb} vs maximum", rtol=1e-9, atol=1e-9)
        if full_dp:
            s.close(ps, score, f"{sig}/node:{kind}/score-of-returned-path", f"node {idx} rescored traceback vs reported", rtol=1e-9, atol=1e-9)
    return out


def exec_prog(case) -> Soft:
    s = Soft("C18/progressive/")
    seqs = case["seqs"]
    k = len(seqs)
    s.cls(f"n={k}", "model:" + case["model"], f"indel_rate={case['indel_rate']}")
    s.cls("ambiguity" if any(c in AMBIG["dna"] for v in seqs.values() for c in v) else "canonical")
    a = _prog_run(s, "full-dp", case, DEFAULT_LIMIT)
    if a is None:
        return s
    rows, hmms = a
    okc = _prog_content(s, "full-dp", rows, seqs)
    s.check(len(hmms) == k - 1, "full-dp/one-hmm-per-node", f"{len(hmms)} PairHMM objects for {k} sequences")
    na = check_nodes(s, "full-dp", hmms, True)
    evals = 1 + len(hmms)
    if okc:
        gap = any("-" in r for r in rows.values())
        s.cls("gapped" if gap else "ungapped")
        s.nontrivial = gap and k >= 3
    # linear space
    b = _prog_run(s, "hirschberg", case, 0)
    if b is not None:
        hrows, hh = b
        evals += 1 + len(hh)
        _prog_content(s, "hirschberg", hrows, seqs)
        nb = check_nodes(s, "hirschberg", hh, False)
        same = hrows == rows
        s.cls("hirschberg:same-alignment" if same else "hirschberg:other-alignment")
        if same and len(na) == len(nb):
            # same alignment => every node saw the same inputs in both runs
            for idx, ((ka, x), (kb, y)) in enumerate(zip(na, nb)):
                if x is not None and y is not None and ka == kb:
                    s.close(y, x, f"hirschberg/node:{ka}/score-equals-full-dp", f"node {idx} of {len(na)}", rtol=1e-9, atol=1e-9)
    s.evals = evals
    return s


def _guide_tree(draw, names, lens, binary):
    """newick of a random rooted tree on names; binary=False also joins three subtrees at a time"""
    nodes = [f"{n}:{draw(st.sampled_from(lens))}" for n in names]
    while len(nodes) > 2:
        if not binary and len(nodes) == 3 and draw(st.booleans()):
            break  # a trifurcating root
        take = 2 if binary or len(nodes) < 4 else draw(st.sampled_from([2, 2, 3]))
        picked = sorted(draw(st.lists(st.integers(0, len(nodes) - 1), min_size=take, max_size=take, unique=True)), reverse=True)
        parts = [nodes.pop(i) for i in picked][::-1]
        nodes.append(f"({','.join(parts)}):{draw(st.sampled_from(lens))}")
    return "(" + ",".join(nodes) + ")"


@st.composite
def prog_cases(draw):
    k = draw(st.sampled_from([2, 3, 3, 4, 4, 5]))
    letters = _amb_pool(draw, "dna", DNA) if draw(st.sampled_from([False, False, True])) else DNA
    fam = _family(draw, letters, k, 4, draw(st.sampled_from([8, 14, 24])))
    names = [f"t{i}" for i in range(k)]
    tree = _guide_tree(draw, names, ["0.01", "0.05", "0.1", "0.3", "0.7"], binary=True)
    return {
        "seqs": dict(zip(names, fam)),
        "order": list(draw(st.permutations(names))),
        "tree": tree,
        "model": draw(st.sampled_from(["HKY85", "F81", "JC69", "TN93"])),
        "indel_rate": draw(st.sampled_from([1e-10, 0.01, 0.1])),
        "indel_length": draw(st.sampled_from([0.1, 0.4])),
    }


# ===================================== progressive alignment: other options
OPT_MODELS = {"nucleotide": "dna", "HKY85": "dna", "F81": "dna", "JC69": "dna", "TN93": "dna", "K80": "dna",
              "codon": "codon", "MG94HKY": "codon", "protein": "protein", "JTT92": "protein", "WG01": "protein"}  # fmt: skip
TREE_BUILDERS = ("quick_tree", "fast_slow_dist", "jaccard_dist", "approx_pdist", "approx_jc69")


def _opts_run(s, sig, case, limit):
    """one run of progressive_align / tree_align with the case's options -> (rows, hmms), 'no-guide-tree' or None"""
    from cogent3 import get_app, make_tree, make_unaligned_seqs

    kind = OPT_MODELS[case["model"]]
    mt = "protein" if kind == "protein" else "dna"
    opts = case["opts"]
    data = {n: case["seqs"][n] for n in case["order"]}
    ok, coll = s.call(f"{sig}/make_unaligned_seqs", make_unaligned_seqs, data, moltype=mt)
    if not ok:
        return None
    kw = {"indel_rate": case["indel_rate"], "indel_length": case["indel_length"]}
    for key in ("iters", "approx_dists", "param_vals"):
        if key in opts:
            kw[key] = opts[key]
    estimated = case["tree"] is None
    if case["api"] == "app":
        if case["tree"] is not None:
            kw["guide_tree"] = case["tree"]
        if opts.get("unique_guides"):
            kw["unique_guides"] = True
            estimated = True
        ok, app = s.call(f"{sig}/get_app", get_app, "progressive_align", model=case["model"], **kw)
        if not ok:
            return None
        with capture_hmms(limit) as got:
            ok, res = s.call(f"{sig}/call", app, coll)
        if not ok:
            return None
        if type(res).__name__ == "NotCompleted":
            # the guide tree is estimated by other apps first; when they cannot produce a tree (invalid distances)
            # the app hands their NotCompleted on (app/align.py progressive_align.main): not an alignment result
            if estimated and str(getattr(res, "origin", "")) in TREE_BUILDERS:
                return "no-guide-tree"
            if case["model"] == "codon" and not any(
                set(v[i : i + 3]) <= set("ACGT") for v in case["seqs"].values() for i in range(0, len(v) - 2, 3)
            ):
                # no sequence holds a single unambiguous codon: the codon frequencies the model takes
                # from the data are 0/0, the app refuses (not-completed), nothing to align against
                s.cls("out-of-domain:no-unambiguous-codon")
                return "no-guide-tree"
            s.fail(f"{sig}/completed", f"app returned {_R(res)}")
            return None
        aln = res
    else:
        from cogent3.align.progressive import tree_align

        if "params_from_pairwise" in opts:
            kw["params_from_pairwise"] = opts["params_from_pairwise"]
        if case["tree"] is not None:
            ok, tree = s.call(f"{sig}/make_tree", make_tree, case["tree"])
            if not ok:
                return None
            kw["tree"] = tree
        arg = data if opts.get("as_dict") else coll
        with capture_hmms(limit) as got:
            ok, res = s.call(f"{sig}/tree_align", tree_align, case["model"], arg, show_progress=False, allowed=(ArithmeticError,), **kw)
        if not ok:
            if isinstance(res, ArithmeticError):
                # Alignment.distance_matrix documents ArithmeticError when a distance cannot be computed: no guide tree
                if estimated and "pairwise distances" in str(res):
                    return "no-guide-tree"
                s.fail(f"{sig}/tree_align/raises:ArithmeticError@{exception_site(res)}", f"{res}"[:300])
            return None
        if not (isinstance(res, tuple) and len(res) == 2):
            s.fail(f"{sig}/returns-alignment-and-tree", f"got {_R(res)}")
            return None
        aln, tree = res
        ok, tips = s.call(f"{sig}/tree-tips", lambda: sorted(tree.get_tip_names()))
        if ok:
            s.eq(tips, sorted(data), f"{sig}/tree-tips", "tips of the returned guide tree")
    if not _completed(s, f"{sig}/completed", aln, "returned"):
        return None
    ok, rows = s.call(f"{sig}/to_dict", lambda: {str(k): str(v) for k, v in aln.to_dict().items()})
    if not ok:
        return None
    return rows, got


def exec_opts(case) -> Soft:
    s = Soft("C18/progopts/")
    seqs = case["seqs"]
    kind = OPT_MODELS[case["model"]]
    mt = "protein" if kind == "protein" else "dna"
    opts = case["opts"]
    k = len(seqs)
    s.cls(f"n={k}", kind, "model:" + case["model"], "api:" + case["api"], "tree:estimated" if case["tree"] is None else "tree:given")
    s.cls(f"iters={opts.get('iters')}", f"approx_dists={opts.get('approx_dists', 'default')}")
    for key in ("unique_guides", "param_vals", "params_from_pairwise", "as_dict"):
        if opts.get(key):
            s.cls(key)
    s.cls("ambiguity" if any(c in AMBIG[mt] for v in seqs.values() for c in v) else "canonical")
    if case["tree"] is not None and case["tree"].count(",") + 1 == k and _max_children(case["tree"]) > 2:
        s.cls("tree:multifurcating")
    if kind == "codon":
        for n, t in seqs.items():
            cods = [t[i : i + 3] for i in range(0, len(t), 3)]
            if len(t) % 3 or any(_codon_has_stop(c) for c in cods):
                raise HarnessError(f"codon case with incomplete or stop codon in {n}: {t}")
    a = _opts_run(s, "run", case, DEFAULT_LIMIT)
    if a is None:
        return s
    if a == "no-guide-tree":
        s.cls("no-guide-tree")
        return s
    rows, hmms = a
    okc = _prog_content(s, "run", rows, seqs)
    nodes = [h for h in hmms if len(_viterbi_results(h)) == 1]
    check_nodes(s, "run", nodes, True)
    evals = 1 + len(nodes)
    if okc:
        gap = any("-" in r for r in rows.values())
        s.cls("gapped" if gap else "ungapped")
        s.nontrivial = gap and k >= 3
    if case.get("hl") == 0:
        # linear space: only the content clause (node optimality under Hirschberg is the 'progressive' sub-check)
        b = _opts_run(s, "hirschberg", case, 0)
        if b is not None and b != "no-guide-tree":
            evals += 1
            _prog_content(s, "hirschberg", b[0], seqs)
            s.cls("hirschberg:same-alignment" if b[0] == rows else "hirschberg:other-alignment")
    s.evals = evals
    return s


def _max_children(newick):
    """largest number of children of a node of a newick string without quoted names"""
    best, stack = 0, []
    for c in newick:
        if c == "(":
            stack.append(1)
        elif c == "," and stack:
            stack[-1] += 1
        elif c == ")" and stack:
            best = max(best, stack.pop())
    return best


def _codon_has_stop(codon):
    """some resolution of the (possibly ambiguous) codon is a stop codon of the standard code"""
    import itertools

    sets = [AMBIG["dna"].get(c, c) for c in codon]
    return any("".join(p) in STOPS for p in itertools.product(*sets))


def _family_tokens(draw, tokens, k, lo, hi):
    """k mutated copies (token substitutions, insertions, deletions) of a random ancestor made of tokens (codons)"""
    anc = draw(st.lists(st.sampled_from(tokens), min_size=lo, max_size=hi))
    fam = []
    for _ in range(k):
        out = list(anc)
        for _ in range(draw(st.integers(1, 4))):
            op = draw(st.sampled_from("sdi"))
            pos = draw(st.integers(0, len(out)))
            if op == "s":
                out[min(pos, len(out) - 1)] = draw(st.sampled_from(tokens))
            elif op == "d" and len(out) > 1:
                del out[pos : pos + draw(st.integers(1, 2))]
                if not out:
                    out = [anc[0]]
            elif op == "i":
                out[pos:pos] = [draw(st.sampled_from(tokens)) for _ in range(draw(st.integers(1, 2)))]
        fam.append("".join(out))
    return fam


@st.composite
def opts_cases(draw):
    kind = draw(st.sampled_from(["dna", "dna", "dna", "codon", "protein", "protein"]))
    api = draw(st.sampled_from(["app", "app", "tree_align"]))
    k = draw(st.sampled_from([2, 3, 3, 4, 4, 5]))
    amb = draw(st.sampled_from([False, False, True]))
    opts = {}
    if kind == "dna":
        letters = _amb_pool(draw, "dna", DNA) if amb else DNA
        fam = _family(draw, letters, k, 4, draw(st.sampled_from([8, 14, 24])))
        model = draw(st.sampled_from(["HKY85", "F81", "JC69", "TN93", "K80"] + (["nucleotide"] if api == "app" else [])))
        if model in ("HKY85", "K80") and draw(st.booleans()):
            opts["param_vals"] = {"kappa": draw(st.sampled_from([0.5, 2.0, 4.0]))}
    elif kind == "protein":
        size = draw(st.sampled_from([3, 6, 20]))
        start = draw(st.integers(0, len(AA20) - size))
        canon = AA20[start : start + size]
        letters = _amb_pool(draw, "protein", canon) if amb else canon
        fam = _family(draw, letters, k, 3, draw(st.sampled_from([6, 10, 16])))
        model = draw(st.sampled_from(["JTT92", "WG01"] + (["protein"] if api == "app" else [])))
    else:
        tokens = draw(st.lists(st.sampled_from(SENSE), min_size=2, max_size=6, unique=True))
        if amb:
            # codons with one ambiguity code, kept only if every resolution is a sense codon
            for _ in range(draw(st.integers(1, 2))):
                c = draw(st.sampled_from(tokens))
                pos = draw(st.integers(0, 2))
                cand = c[:pos] + draw(st.sampled_from(sorted(AMBIG["dna"]))) + c[pos + 1 :]
                tokens = tokens + ([cand] if not _codon_has_stop(cand) else [c])
        fam = _family_tokens(draw, tokens, k, 2, draw(st.sampled_from([3, 5, 8])))
        model = "codon" if api == "app" else "MG94HKY"
        if api == "tree_align" and draw(st.booleans()):
            opts["param_vals"] = draw(st.sampled_from([{"omega": 0.4, "kappa": 3}, {"omega": 1.5, "kappa": 1.0}]))
    names = [f"t{i}" for i in range(k)]
    given = draw(st.sampled_from([False, False, True]))
    if api == "tree_align" and kind == "codon":
        given = True  # tree_align estimates a codon guide tree from optimised pairwise alignments: seconds per case
    tree = _guide_tree(draw, names, ["0.0", "0.01", "0.05", "0.1", "0.3", "0.7"], binary=False) if given else None
    iters = draw(st.sampled_from([None, None, 1, 2]))
    if iters is not None:
        opts["iters"] = iters
    approx = draw(st.sampled_from([None, True, False]))
    if approx is not None:
        opts["approx_dists"] = approx
    if api == "app":
        if draw(st.sampled_from([False, False, False, True])):
            opts["unique_guides"] = True
    else:
        pfp = draw(st.sampled_from([None, True, False]))
        if pfp is not None:
            opts["params_from_pairwise"] = pfp
        if draw(st.booleans()):
            opts["as_dict"] = True
    return {
        "api": api,
        "model": model,
        "seqs": dict(zip(names, fam)),
        "order": list(draw(st.permutations(names))),
        "tree": tree,
        "opts": opts,
        "indel_rate": draw(st.sampled_from([1e-10, 0.01, 0.1])),
        "indel_length": draw(st.sampled_from([0.1, 0.4])),
        "hl": draw(st.sampled_from([None, None, 0])),
    }


SUBS = [
    Sub("brute", exec_pair, strategy=brute_cases(), quick=960, thorough=64000, shards_quick=16, weight=3.0),
    Sub("pair", exec_pair, strategy=long_cases(), quick=400, thorough=32000, shards_quick=16, weight=4.0),
    Sub("merge", exec_merge, strategy=merge_cases(), quick=1600, thorough=160000, shards_quick=8, weight=1.0),
    Sub("ref", exec_ref, strategy=ref_cases(), quick=320, thorough=24000, shards_quick=8, weight=2.0),
    Sub("progressive", exec_prog, strategy=prog_cases(), quick=128, thorough=9600, shards_quick=8, weight=5.0),
    Sub("progopts", exec_opts, strategy=opts_cases(), quick=192, thorough=9600, shards_quick=16, weight=6.0),
    Sub("sw", exec_pair, strategy=sw_cases(), quick=240, thorough=16000, shards_quick=8, weight=2.0),
]

KNOWN_PREDICATES = {}

META = {
    "technique": "exhaustive path enumeration and an independent backward recursion over the aligner's own pair-HMM arrays; "
    "differential full DP vs Hirschberg; projection oracle for reference-based merging (full and linear-space DP); orientation of asymmetric scoring dicts read from the emission arrays; content oracle for progressive alignment "
    "(also over models, guide-tree sources and options, app and tree_align entry points) and for sequences with ambiguity codes",
    "level_text": "For generated sequence pairs (DNA and protein, lengths 1-60, identical/unrelated/substring/mutated), scoring "
    "dicts, gap penalties and both alignment modes the harness reads the pair-HMM the aligner built, scores the returned path "
    "itself and compares the reported score with the maximum over all paths (every path enumerated up to about 9000 paths, "
    "an independent recursion beyond), and repeats the global alignment with the Hirschberg limit lowered. Reference-based "
    "merging is driven with generated classic-reachable pairwise alignments and through align_to_ref (also with the Hirschberg limit at 0), and judged by projecting "
    "the result back onto each (reference, row) pair; about one scoring dict in four is asymmetric, and the emission arrays of global/local pairwise, smith_waterman and align_to_ref "
    "must then score a column (x of the first sequence, y of the second) with S[x, y]. Progressive alignment is judged on content, on optimality of every node's traceback for that node's own "
    "pair-HMM (forward recursion over the predecessor graph) and on agreement of full and linear-space dynamic programming. "
    "A further sub-check runs progressive alignment with DNA, codon and protein models, estimated and given (also multifurcating) guide trees, iters, approx_dists, "
    "unique_guides and param_vals, through the app and through tree_align, and the smith_waterman app is judged like local_pairwise. One case in three of every sub-check "
    "carries IUPAC ambiguity codes, which must come back unaltered. Exploration, not proof.",
    "level_note": "Trusts the harness' path scorer/enumerator (about 120 lines) and numpy's log. The model arrays are read from "
    "cogent3 objects, so an error in how emission arrays are built from the substitution scores is only seen through the ratio "
    "relations stated in the assumptions, and for ambiguity codes not at all (their scoring is undocumented). Alignment-of-alignment nodes are judged on the predecessor lists their alignables expose (the partial order graph itself is not re-derived from the sub-alignment).",
    "design_ref": "DESIGN.md section 1, C18",
}
