"""C02 — the reported log-likelihood equals the first-principles Felsenstein
sum-product computed from the model's published definition.

Oracle (everything below is written here and shares no code with
``cogent3.evolve``):

* state spaces: nucleotides, dinucleotides, the 61 sense codons of the
  standard genetic code (table written in the harness) and the 20 amino acids;
* rate matrices: ``q(x->y) = prod(parameters whose predicate holds for x->y)
  * pi-term`` for states differing at exactly one position, zero otherwise;
  the pi-term follows the motif-probability model (word frequency of the
  target, monomer frequency of the new nucleotide, frequency of the target
  conditional on its unchanged positions, or 1 for the non-stationary general
  models whose motif probabilities are only the root distribution); the
  diagonal makes rows sum to zero and Q is calibrated to ``-sum pi_i q_ii = 1``.
  For the empirical protein models the exchangeability tables are read as data
  from ``cogent3.evolve.models`` and Q is formed here;
* ``P(edge) = scipy.linalg.expm(Q * length * bin-rate)``;
* pruning: leaf vectors are indicators of the state set compatible with the
  observed symbol (IUPAC codes; gap, ``?`` and N = every state), partial
  likelihoods are multiplied over any number of children, the root vector is
  weighted by the motif probabilities, site classes are mixed with the bin
  probabilities, columns are summed in the log domain and loci are added;
* discrete gamma rates: bin medians from ``scipy.stats.gamma.ppf`` scaled to a
  weighted mean of one (the rule stated in the GammaDefn docstring); "free"
  rate bins: cumulative increments scaled the same way.
"""

from __future__ import annotations

import itertools
import math

from hypothesis import strategies as st

from vlib.core import Soft, Sub

PROPERTY_ID = "C02"
LEVEL = "exploration"
RULE = (
    "A case is a tree (3-6 tips, root degree 2-4, internal degree 2-4; polytomy = root degree 4 or an internal node with 3-4 children; branch lengths log-uniform in [1e-3, 3] with a share of "
    "1e-6..1e-4 and 3..10), a continuous-time model (every registered nucleotide, codon and protein model, generated reversible / "
    "non-reversible nucleotide models built from predicates, generated dinucleotide models with tuple / monomer / conditional motif "
    "probabilities), parameter values log-uniform inside the declared bounds, non-uniform motif probabilities, a configuration "
    "(plain; per-edge parameter scopes; 2-4 rate-heterogeneity bins with gamma or free rates and unequal bin probabilities; site-class "
    "bins carrying their own parameter values; two loci with their own parameters, motif probabilities and alignments) and an "
    "alignment of 1-15 columns (drawn from a pool of distinct columns so that repeated columns occur) over the model's alphabet with "
    "about a quarter of the cells degenerate (IUPAC codes, N/X, gap, ?). The harness builds Q, P=expm(Qt), the pruning recursion and "
    "the mixtures itself and compares: parameter names, the calibrated rate matrix of every edge (and bin/locus), P of every edge, "
    "the per-column likelihoods and lnL. The normalisation sub-check supplies all 4^n columns of 3-4 tips for 4-state models "
    "(any configuration) and requires the per-column likelihoods to sum to one. Non-trivial = unequal motif probabilities, at "
    "least one degenerate symbol and at least one of polytomy, per-edge scope, bins, non-reversible model (normalisation sub-check: "
    "unequal motif probabilities and one of those four). Distinct = distinct case encodings."
)
ASSUMPTIONS = [
    "continuous-time models only (the discrete-time BH / DT entries of cogent3.evolve.models.models are outside the statement)",
    "rate parameters are drawn log-uniformly from [1e-2, 1e2] (80 %) or the full declared range [1e-6, 1e6] (20 %); branch lengths from [1e-6, 10] "
    "(declared bounds [0, 10]); motif probabilities are >= 1/(20 n) so the 1e-6 floor applied by set_motif_probs never acts; JC69 / K80 keep their equal frequencies",
    "rate matrices compared at 1e-9 relative to the largest entry; P matrices at 2e-9 absolute; lnL at 1e-9 * max(1, |lnL|) and column likelihoods at 1e-9 relative, each plus a "
    "floating-point allowance L(P + delta) - L(P) (every term of the sum-product is non-negative, so this bounds the effect of an entrywise error delta in P), with "
    "delta = 2 * max(1e-15, largest observed deviation of the reported P from the harness P, capped at 2e-9); sum over all columns = 1 at 1e-9",
    "a P deviation above 2e-9 that occurs with the default exponentiator on a rate matrix whose eigenvector matrix has condition number > 1e5 is reported under the single "
    "signature psub/eigen-precision; for such a case delta is capped at 1e-6 instead, so that the lnL / column clauses still test the pruning and do not repeat the same root cause",
    "degenerate symbols and gaps are the set of compatible states (gap, ?, N / X = all states; a degenerate codon = the sense codons it matches, "
    "generated so that this set is never empty, since all-stop codons are rejected by design); codon alignments contain no stop codon",
    "the CpG predicate of the H04 models and of generated dinucleotide models follows the MotifChange semantics 'exactly one CG-containing window covers the changed "
    "position' (so the codon pair CCG<->CGG, which destroys one CpG and creates another, is not CpG-flagged); this is modelled, not asserted against",
    "gamma rate bins use bin medians rescaled to weighted mean one, as the GammaDefn docstring states; rates are additionally compared with the reported 'rate' values at 1e-7 "
    "(scipy's and cogent3's inverse gamma CDF agree to about 1e-9 only)",
    "Q is calibrated with the (root) motif probabilities also for the non-stationary models GN / ssGN / GNC / generated non-reversible models (documented by get_rate_matrix_for_edge)",
    "empirical protein exchangeability tables and frequencies are read as data from cogent3.evolve.models; the amino-acid order of the tables is taken from the model alphabet",
    "expm setting: library default ('either') or 'pade'; old-style Alignment and ArrayAlignment inputs of moltype dna / protein",
    "generated predicate models use disjoint predicates that do not cover every instantaneous change (otherwise the constructor rejects them as redundant)",
]

NUCS = "ACGT"
IUPAC = {
    "A": "A", "C": "C", "G": "G", "T": "T",
    "R": "AG", "Y": "CT", "M": "AC", "K": "GT", "S": "CG", "W": "AT",
    "H": "ACT", "B": "CGT", "V": "ACG", "D": "AGT", "N": "ACGT", "-": "ACGT", "?": "ACGT",
}  # fmt: skip
NUC_DEGEN = "RYMKSWHBVDN-?"
AAS = "ACDEFGHIKLMNPQRSTVWY"
AA_AMBIG = {"B": "DN", "Z": "EQ", "X": AAS, "-": AAS, "?": AAS}
# standard genetic code, codons in TCAG order
_GC_STR = "FFLLSSSSYY**CC*WLLLLPPPPHHQQRRRRIIIMTTTTNNKKSSRRVVVVAAAADDEEGGGG"
_GC = {a + b + c: _GC_STR[16 * i + 4 * j + k] for i, a in enumerate("TCAG") for j, b in enumerate("TCAG") for k, c in enumerate("TCAG")}
SENSE = sorted(c for c, aa in _GC.items() if aa != "*")
DINUCS = [a + b for a in NUCS for b in NUCS]
TRANSITIONS = {frozenset("AG"), frozenset("CT")}

GTR_PARS = ["A/C", "A/G", "A/T", "C/G", "C/T"]
GN_PARS = [f"{f}>{t}" for f, t in itertools.permutations("ACTG", 2) if not (f == "T" and t == "G")]
SSGN_PARS = ["(A>G | T>C)", "(A>T | T>A)", "(C>G | G>C)", "(C>T | G>A)", "(G>T | C>A)"]

# name -> (state space, rate parameters, pi-term, equal frequencies only)
MODEL_DEFS = {
    "JC69": ("nuc", [], "tuple", True),
    "F81": ("nuc", [], "tuple", False),
    "K80": ("nuc", ["kappa"], "tuple", True),
    "HKY85": ("nuc", ["kappa"], "tuple", False),
    "TN93": ("nuc", ["kappa_y", "kappa_r"], "tuple", False),
    "GTR": ("nuc", GTR_PARS, "tuple", False),
    "GN": ("nuc", GN_PARS, "none", False),
    "ssGN": ("nuc", SSGN_PARS, "none", False),
    "CNFGTR": ("codon", GTR_PARS + ["omega"], "conditional", False),
    "CNFHKY": ("codon", ["kappa", "omega"], "conditional", False),
    "MG94HKY": ("codon", ["kappa", "omega"], "monomer", False),
    "MG94GTR": ("codon", GTR_PARS + ["omega"], "monomer", False),
    "GY94": ("codon", ["kappa", "omega"], "tuple", False),
    "Y98": ("codon", ["kappa", "omega"], "tuple", False),
    "H04G": ("codon", ["G", "kappa", "omega"], "tuple", False),
    "H04GK": ("codon", ["G.K", "kappa", "omega"], "tuple", False),
    "H04GGK": ("codon", ["G", "G.K", "kappa", "omega"], "tuple", False),
    "GNC": ("codon", GN_PARS + ["omega"], "none", False),
    "DSO78": ("protein", [], "tuple", False),
    "JTT92": ("protein", [], "tuple", False),
    "AH96": ("protein", [], "tuple", False),
    "AH96_mtmammals": ("protein", [], "tuple", False),
    "WG01": ("protein", [], "tuple", False),
}
NUC_MODELS = ["JC69", "F81", "K80", "HKY85", "TN93", "GTR", "GN", "ssGN"]
CODON_MODELS = ["CNFGTR", "CNFHKY", "MG94HKY", "MG94GTR", "GY94", "Y98", "H04G", "H04GK", "H04GGK", "GNC"]
PROTEIN_MODELS = ["DSO78", "JTT92", "AH96", "AH96_mtmammals", "WG01"]
NONREV = {"GN", "ssGN", "GNC"}


# ------------------------------------------------------------------ oracle
def states_of(space):
    return {"nuc": list(NUCS), "dinuc": DINUCS, "codon": SENSE, "protein": list(AAS)}[space]


def compatible(space, sym):
    """state set compatible with an observed (possibly degenerate) symbol"""
    if space == "protein":
        return AA_AMBIG.get(sym, sym)
    sets = [IUPAC[ch] for ch in sym]
    out = ["".join(p) for p in itertools.product(*sets)]
    if space == "codon":
        out = [c for c in out if _GC[c] != "*"]
    return out


def _cpg(x, y, p):
    """exactly one window of two positions that covers position p and reads CG in x or in y"""
    n = 0
    for o in range(len(x) - 1):
        if o <= p <= o + 1 and (x[o : o + 2] == "CG" or y[o : o + 2] == "CG"):
            n += 1
    return n == 1


def predicate_for(name, user=None):
    """(x, y, p, a, b) -> bool for a parameter name; x->y differ at position p only, a=x[p], b=y[p]"""
    if user is not None and name in user:
        spec = user[name]
        if spec == "cpg":
            return lambda x, y, p, a, b: _cpg(x, y, p)
        pairs = {(f, t) for f, t in spec}
        return lambda x, y, p, a, b: (a, b) in pairs
    if name == "kappa":
        return lambda x, y, p, a, b: frozenset((a, b)) in TRANSITIONS
    if name == "kappa_y":
        return lambda x, y, p, a, b: {a, b} == {"C", "T"}
    if name == "kappa_r":
        return lambda x, y, p, a, b: {a, b} == {"A", "G"}
    if name == "omega":
        return lambda x, y, p, a, b: _GC[x] != _GC[y]
    if name == "G":
        return lambda x, y, p, a, b: _cpg(x, y, p)
    if name == "G.K":
        return lambda x, y, p, a, b: _cpg(x, y, p) and frozenset((a, b)) in TRANSITIONS
    parts = [q.strip() for q in name.strip("()").split("|")]
    und = set()
    dire = set()
    for q in parts:
        if "/" in q:
            f, t = q.split("/")
            und.add(frozenset((f, t)))
        else:
            f, t = q.split(">")
            dire.add((f, t))
    return lambda x, y, p, a, b: frozenset((a, b)) in und or (a, b) in dire


def word_probs(space, pi_kind, mprobs):
    """root / stationary distribution over states from the motif probabilities given to the model"""
    import numpy

    S = states_of(space)
    if pi_kind == "monomer":
        w = numpy.array([math.prod(mprobs[ch] for ch in s) for s in S])
        return w / w.sum()
    return numpy.array([mprobs[s] for s in S])


def build_Q(space, pi_kind, mprobs, preds, protein_S=None):
    """calibrated rate matrix (numpy, harness state order) from the published definition"""
    import numpy

    S = states_of(space)
    n = len(S)
    w = word_probs(space, pi_kind, mprobs)
    wd = dict(zip(S, w))
    Q = numpy.zeros((n, n))
    if space == "protein":
        for i in range(n):
            for j in range(n):
                if i != j:
                    Q[i, j] = protein_S[i][j] * w[j]
    else:
        L = len(S[0])
        ctx_cache = {}
        for i, x in enumerate(S):
            for j, y in enumerate(S):
                if i == j:
                    continue
                diffs = [p for p in range(L) if x[p] != y[p]]
                if len(diffs) != 1:
                    continue
                p = diffs[0]
                a, b = x[p], y[p]
                r = 1.0
                for fn, val in preds:
                    if fn(x, y, p, a, b):
                        r *= val
                if pi_kind == "none":
                    t = 1.0
                elif pi_kind == "tuple":
                    t = wd[y]
                elif pi_kind == "monomer":
                    t = mprobs[b]
                else:  # conditional on the unchanged positions of the target
                    key = (y[:p], p, y[p + 1 :])
                    if key not in ctx_cache:
                        ctx_cache[key] = sum(wd[z] for z in S if z[:p] == y[:p] and z[p + 1 :] == y[p + 1 :])
                    t = wd[y] / ctx_cache[key]
                Q[i, j] = r * t
    rows = Q.sum(axis=1)
    Q -= numpy.diag(rows)
    Q /= float((w * rows).sum())
    return Q


def gamma_rates(shape, bprobs):
    import numpy
    from scipy.stats import gamma

    wts = numpy.array(bprobs, float)
    wts = wts / wts.sum()
    pct = numpy.cumsum(wts) - wts / 2
    med = gamma.ppf(pct, shape, scale=1.0 / shape)
    return med / float((med * wts).sum())


def free_rates(increments, bprobs):
    import numpy

    vals = numpy.cumsum(numpy.array(increments, float))
    return vals / float((vals * numpy.array(bprobs, float)).sum())


def m_edges(tree):
    """[(name, length, is_tip)] of every non-root node"""
    out = []

    def walk(nd, root):
        if not root:
            out.append((nd["name"], nd["len"], not nd["kids"]))
        for k in nd["kids"]:
            walk(k, False)

    walk(tree, True)
    return out


def m_tips(tree):
    return [nm for nm, _, tip in m_edges(tree) if tip]


def m_polytomy(tree):
    """a node with more than two children below the root, or a root with more than three"""

    def walk(nd, root):
        return len(nd["kids"]) > (3 if root else 2) or any(walk(k, False) for k in nd["kids"])

    return walk(tree, True)


def m_newick(tree):
    def nw(nd, root):
        if nd["kids"]:
            s = "(" + ",".join(nw(k, False) for k in nd["kids"]) + ")"
            return s + ("" if root else f"{nd['name']}:{nd['len']!r}")
        return f"{nd['name']}:{nd['len']!r}"

    return nw(tree, True) + ";"


def prune(tree, leafvec, P, root_pi):
    """per-column likelihoods: leafvec[tip] (columns x states), P[edge] (states x states)"""

    def partial(nd):
        if not nd["kids"]:
            return leafvec[nd["name"]]
        out = None
        for k in nd["kids"]:
            up = partial(k) @ P[k["name"]].T  # sum_j P[i, j] * child[j]
            out = up if out is None else out * up
        return out

    return partial(tree) @ root_pi


# ------------------------------------------------------------------ generator
def _sig(v):
    return float(f"{v:.6g}")


@st.composite
def _rate_value(draw):
    wide = draw(st.integers(0, 4)) == 0
    e = draw(st.floats(-6.0, 6.0) if wide else st.floats(-2.0, 2.0))
    return min(1e6, max(1e-6, _sig(10.0**e)))


@st.composite
def _length(draw):
    k = draw(st.integers(0, 11))
    if k == 0:
        e = draw(st.floats(-6.0, -4.0))
    elif k == 1:
        e = draw(st.floats(math.log10(3.0), 1.0))
    else:
        e = draw(st.floats(-3.0, math.log10(3.0)))
    return min(10.0, max(1e-6, _sig(10.0**e)))


@st.composite
def _tree(draw, min_tips=3, max_tips=6):
    n = draw(st.sampled_from([k for k in (3, 4, 4, 5, 5, 6, 6) if min_tips <= k <= max_tips]))
    nodes = [{"name": f"t{i}", "len": draw(_length()), "kids": []} for i in range(n)]
    root_deg = draw(st.sampled_from([2, 3, 3, 4]))
    root_deg = min(root_deg, n)
    poly = draw(st.integers(0, 1)) == 0
    k = 0
    while len(nodes) > root_deg:
        size = 2
        if poly:
            size = min(draw(st.sampled_from([2, 3, 3, 4])), len(nodes) - root_deg + 1)
        idx = draw(st.lists(st.integers(0, len(nodes) - 1), min_size=size, max_size=size, unique=True))
        kids = [nodes[i] for i in sorted(idx)]
        nodes = [x for i, x in enumerate(nodes) if i not in idx]
        nodes.append({"name": f"n{k}", "len": draw(_length()), "kids": kids})
        k += 1
    return {"name": "root", "len": None, "kids": nodes}


@st.composite
def _probs(draw, keys, equal=False):
    if equal:
        return None
    wts = [draw(st.integers(1, 20)) for _ in keys]
    if len(set(wts)) == 1:
        wts[0] += 1
    tot = sum(wts)
    return {k: w / tot for k, w in zip(keys, wts)}


@st.composite
def _bprobs(draw, n):
    wts = [draw(st.integers(1, 9)) for _ in range(n)]
    tot = sum(wts)
    return [w / tot for w in wts]


def _degenerate_symbol(draw, space, base):
    """a degenerate symbol compatible with state ``base`` (so the compatible set is never empty)"""
    if space == "protein":
        opts = ["X", "-", "?"]
        if base in "DN":
            opts.append("B")
        if base in "EQ":
            opts.append("Z")
        return draw(st.sampled_from(opts))
    chars = list(base)
    npos = draw(st.sampled_from([1, 1, 1, len(chars)]))
    pos = draw(st.lists(st.integers(0, len(chars) - 1), min_size=npos, max_size=npos, unique=True))
    whole = draw(st.integers(0, 3)) == 0
    for p in pos:
        if whole:
            chars[p] = draw(st.sampled_from("N-?"))
        else:
            chars[p] = draw(st.sampled_from([c for c in NUC_DEGEN if chars[p] in IUPAC[c]]))
    return "".join(chars)


@st.composite
def _alignment(draw, space, tips, max_cols=15):
    S = states_of(space)
    ncol = draw(st.integers(1, max_cols))
    npool = draw(st.integers(1, min(ncol, 8)))
    pool = []
    for _ in range(npool):
        base = draw(st.sampled_from(S))
        col = []
        for _t in tips:
            k = draw(st.integers(0, 11))
            if k < 6:
                col.append(base)
            elif k < 9:
                col.append(draw(st.sampled_from(S)))
            else:
                col.append(_degenerate_symbol(draw, space, base if k == 9 else draw(st.sampled_from(S))))
        pool.append(col)
    order = list(range(npool)) + [draw(st.integers(0, npool - 1)) for _ in range(ncol - npool)]
    order = draw(st.permutations(order))
    return {"pool": pool, "order": list(order)}


@st.composite
def _scopes(draw, pars, edges, p_scope):
    """{par: [[edge names], value] ...} — groups of edges that get their own value"""
    out = {}
    for par in pars:
        if draw(st.integers(0, 99)) >= p_scope:
            continue
        groups = []
        ngroups = draw(st.sampled_from([1, 1, 2]))
        remaining = list(edges)
        for _ in range(ngroups):
            if len(remaining) < 2:
                break
            size = draw(st.integers(1, len(remaining) - 1))
            idx = draw(st.lists(st.integers(0, len(remaining) - 1), min_size=size, max_size=size, unique=True))
            grp = [remaining[i] for i in sorted(idx)]
            remaining = [e for i, e in enumerate(remaining) if i not in idx]
            groups.append([grp, draw(_rate_value())])
        if groups:
            out[par] = groups
    return out


UND_PAIRS = ["AC", "AG", "AT", "CG", "CT", "GT"]


@st.composite
def _user_model(draw, dinuc):
    """a predicate-built model: disjoint predicates that leave at least one change unparameterised"""
    rev = True if dinuc else draw(st.booleans())
    preds = {}
    if rev:
        pairs = list(draw(st.permutations(UND_PAIRS)))[: draw(st.integers(1, 5))]
        npred = draw(st.integers(1, min(3, len(pairs))))
        groups = [[] for _ in range(npred)]
        for i, pr in enumerate(pairs):
            groups[i if i < npred else draw(st.integers(0, npred - 1))].append(pr)
        for i, g in enumerate(groups):
            preds[f"p{i}"] = sorted([a, b] for pr in g for a, b in (pr, pr[::-1]))
    else:
        dpairs = [f + t for f, t in itertools.permutations(NUCS, 2)]
        pairs = list(draw(st.permutations(dpairs)))[: draw(st.integers(1, 11))]
        npred = draw(st.integers(1, min(4, len(pairs))))
        groups = [[] for _ in range(npred)]
        for i, pr in enumerate(pairs):
            groups[i if i < npred else draw(st.integers(0, npred - 1))].append(pr)
        for i, g in enumerate(groups):
            preds[f"p{i}"] = sorted([pr[0], pr[1]] for pr in g)
    spec = {"reversible": rev, "preds": preds}
    if dinuc:
        spec["mprob_model"] = draw(st.sampled_from(["tuple", "monomer", "conditional"]))
        if draw(st.booleans()):
            spec["preds"]["cpg"] = "cpg"
    return spec


def _general_case(space_choice, allcols=False):
    @st.composite
    def build(draw):
        space = space_choice
        case = {}
        user = None
        if space == "nuc":
            if allcols or draw(st.integers(0, 4)) > 0:
                name = draw(st.sampled_from(NUC_MODELS + ["HKY85", "GTR", "GN", "ssGN", "TN93", "F81"]))
            else:
                name = "user"
        elif space == "dinuc":
            name = "user"
        elif space == "codon":
            name = draw(st.sampled_from(CODON_MODELS))
        else:
            name = draw(st.sampled_from(PROTEIN_MODELS))
        if name == "user":
            user = draw(_user_model(space == "dinuc"))
            pars = sorted(user["preds"])
            pi_kind = user.get("mprob_model", "tuple") if user["reversible"] else "none"
            equal = False
            case["user"] = user
        else:
            _, pars, pi_kind, equal = MODEL_DEFS[name]
        case["model"] = name
        case["space"] = space
        tree = draw(_tree(3, 4) if allcols else _tree(3, 6 if space in ("nuc", "dinuc") else 5))
        case["tree"] = tree
        edges = [e for e, _, _ in m_edges(tree)]
        tips = m_tips(tree)
        mkeys = list(NUCS) if pi_kind == "monomer" else states_of(space)
        if space == "nuc" and not equal:
            config = draw(st.sampled_from(["plain", "scope", "scope", "gamma", "free", "binpar", "loci"]))
        elif space == "nuc":
            config = draw(st.sampled_from(["plain", "scope", "gamma", "free", "loci"]))
        elif space == "dinuc":
            config = draw(st.sampled_from(["plain", "scope", "gamma"]))
        elif space == "codon":
            config = draw(st.sampled_from(["plain", "scope", "scope", "gamma", "binpar"]))
        else:
            config = draw(st.sampled_from(["plain", "plain", "gamma", "free"]))
        if config in ("scope", "binpar") and not pars:
            config = "plain"
        case["config"] = config
        nloci = 2 if config == "loci" else 1
        loci = []
        for _ in range(nloci):
            loc = {"params": {p: draw(_rate_value()) for p in pars}, "mprobs": draw(_probs(mkeys, equal))}
            if allcols:
                loc["aln"] = "allcols"
            else:
                loc["aln"] = draw(_alignment(space, tips, 15 if space in ("nuc", "dinuc") else 8))
            loci.append(loc)
        case["loci"] = loci
        p_scope = {"scope": 60, "gamma": 20, "free": 20, "loci": 20}.get(config, 0)
        case["scoped"] = draw(_scopes(pars, edges, p_scope)) if p_scope else {}
        if config == "scope" and not case["scoped"] and pars:
            par = draw(st.sampled_from(pars))
            case["scoped"] = {par: [[[draw(st.sampled_from(edges))], draw(_rate_value())]]}
        if config in ("gamma", "free", "binpar"):
            nb = draw(st.integers(2, 4))
            bins = {"n": nb, "bprobs": draw(_bprobs(nb))}
            if config == "gamma":
                bins["shape"] = _sig(10.0 ** draw(st.floats(-1.0, 1.3)))
            elif config == "free":
                incs = [draw(st.integers(1, 9)) for _ in range(nb)]
                tot = sum(incs)
                bins["increments"] = [i / tot for i in incs]
            else:
                par = draw(st.sampled_from(pars))
                bins["par"] = par
                bins["values"] = [draw(_rate_value()) for _ in range(nb)]
            case["bins"] = bins
        case["expm"] = draw(st.sampled_from([None, None, "pade"]))
        case["array_align"] = draw(st.booleans())
        return case

    return build()


# -------------------------------------------------------------------- execute
_MODEL_CACHE = {}


def _get_sm(case):
    """substitution model object (cached per process: models are reusable factories for likelihood functions)"""
    import json

    name = case["model"]
    config = case["config"]
    kw = {}
    if config == "gamma":
        kw = {"ordered_param": "rate", "distribution": "gamma"}
    elif config == "free":
        kw = {"ordered_param": "rate", "distribution": "free"}
    key = json.dumps([name, case.get("user"), kw], sort_keys=True)
    if key in _MODEL_CACHE:
        return _MODEL_CACHE[key]
    if name != "user":
        from cogent3 import get_model

        sm = get_model(name, **kw)
    else:
        from cogent3.evolve import ns_substitution_model as nsm
        from cogent3.evolve import substitution_model as smod
        from cogent3.evolve.predicate import MotifChange

        user = case["user"]
        preds = {}
        for pname, spec in user["preds"].items():
            if spec == "cpg":
                preds[pname] = MotifChange("CG")
                continue
            pr = None
            for f, t in spec:
                q = MotifChange(f, t, forward_only=True)
                pr = q if pr is None else (pr | q)
            preds[pname] = pr
        kw = dict(kw, predicates=preds, recode_gaps=True, model_gaps=False)
        if case["space"] == "dinuc":
            sm = smod.TimeReversibleDinucleotide(mprob_model=user["mprob_model"], **kw)
        elif user["reversible"]:
            sm = smod.TimeReversibleNucleotide(**kw)
        else:
            sm = nsm.NonReversibleNucleotide(**kw)
    _MODEL_CACHE[key] = sm
    return sm


def _protein_table(name, motifs):
    """exchangeability table (data) of an empirical model re-indexed to the harness amino-acid order"""
    import cogent3.evolve.models as M

    mat = getattr(M, f"{name}_matrix")
    idx = [motifs.index(a) for a in AAS]
    return [[float(mat[i][j]) for j in idx] for i in idx]


def _all_columns(space, tips):
    S = states_of(space)
    cols = list(itertools.product(S, repeat=len(tips)))
    return {t: "".join(c[i] for c in cols) for i, t in enumerate(tips)}, len(cols)


def _rows(aln, tips):
    cols = [aln["pool"][i] for i in aln["order"]]
    return {t: [c[k] for c in cols] for k, t in enumerate(tips)}


def _dictarray(da, S):
    """DictArray -> numpy array in harness state order (row / column labels are read from the object)"""
    import numpy

    names = da.template.names
    rows = [str(x) for x in names[0]]
    cols = [str(x) for x in names[1]]
    arr = numpy.asarray(da.array, float)
    ri = [rows.index(x) for x in S]
    ci = [cols.index(x) for x in S]
    return arr[numpy.ix_(ri, ci)]


def execute(case) -> Soft:
    import numpy
    from scipy.linalg import expm

    sub = "norm" if case["loci"][0]["aln"] == "allcols" else case["space"]
    s = Soft(f"C02/{sub}/")
    name = case["model"]
    space = case["space"]
    user = case.get("user")
    config = case["config"]
    tree = case["tree"]
    S = states_of(space)
    n = len(S)
    wl = len(S[0])
    if name == "user":
        pars = sorted(user["preds"])
        pi_kind = user.get("mprob_model", "tuple") if user["reversible"] else "none"
        equal = False
        nonrev = not user["reversible"]
    else:
        _, pars, pi_kind, equal = MODEL_DEFS[name]
        nonrev = name in NONREV
    edges = m_edges(tree)
    tips = m_tips(tree)
    bins = case.get("bins")
    nb = bins["n"] if bins else 1
    bin_names = [f"bin{i}" for i in range(nb)] if bins else [None]
    nloci = len(case["loci"])
    locus_names = [f"L{i}" for i in range(nloci)] if nloci > 1 else [None]
    allcols = case["loci"][0]["aln"] == "allcols"

    # ---------------------------------------------------------------- real
    ok, sm = s.call("model", _get_sm, case)
    if not ok:
        return s

    def mk_tree():
        from cogent3 import make_tree

        return make_tree(m_newick(tree))

    ok, rtree = s.call("make_tree", mk_tree)
    if not ok:
        return s
    got_edges = sorted(e.name for e in rtree.get_edge_vector(include_root=False))
    if got_edges != sorted(e for e, _, _ in edges):  # harness expectation about names, not the property
        s.fail("harness/tree-names", f"{got_edges} vs {sorted(e for e, _, _ in edges)}")
        return s

    def mk_lf():
        kw = {}
        if bins:
            kw["bins"] = nb
        if nloci > 1:
            kw["loci"] = locus_names
        return sm.make_likelihood_function(rtree, **kw)

    ok, lf = s.call("make_likelihood_function", mk_lf)
    if not ok:
        return s

    # alignments
    rows_by_locus = []
    seqs_by_locus = []
    ncols = []
    for loc in case["loci"]:
        if allcols:
            seqs, nc = _all_columns(space, tips)
            rows = {t: list(seqs[t]) for t in tips}
        else:
            rows = _rows(loc["aln"], tips)
            nc = len(loc["aln"]["order"])
            seqs = {t: "".join(rows[t]) for t in tips}
        rows_by_locus.append(rows)
        ncols.append(nc)
        seqs_by_locus.append(seqs)

    def mk_alns():
        from cogent3 import make_aligned_seqs

        mt = "protein" if space == "protein" else "dna"
        return [make_aligned_seqs(dict(sq), moltype=mt, array_align=bool(case["array_align"])) for sq in seqs_by_locus]

    ok, alns = s.call("make_aligned_seqs", mk_alns)
    if not ok:
        return s
    # parameter names
    ok, pnames = s.call("get_param_names", lf.get_param_names)
    if not ok:
        return s
    rate_like = {"mprobs", "length", "bprobs", "rate", "rate_shape"}
    got_pars = sorted(p for p in pnames if p not in rate_like)
    if not s.eq(got_pars, sorted(pars), "param-names", f"model {name} rate parameters"):
        return s

    def setup():
        with lf.updates_postponed():
            for ename, ln, _ in edges:
                lf.set_param_rule("length", edge=ename, value=ln, is_constant=True)
            for li, loc in enumerate(case["loci"]):
                lkw = {"locus": locus_names[li]} if nloci > 1 else {}
                for p in pars:
                    lf.set_param_rule(p, value=loc["params"][p], is_constant=True, **lkw)
                if loc["mprobs"] is not None:
                    lf.set_motif_probs(dict(loc["mprobs"]), is_constant=True, **lkw)
            for p, groups in case["scoped"].items():
                for grp, val in groups:
                    lf.set_param_rule(p, edges=list(grp), value=val, is_constant=True)
            if bins:
                lf.set_param_rule("bprobs", value=numpy.array(bins["bprobs"], float), is_constant=True)
                if config == "gamma":
                    lf.set_param_rule("rate_shape", value=bins["shape"], is_constant=True)
                elif config == "free":
                    lf.set_param_rule("rate_partition", value=numpy.array(bins["increments"], float), is_constant=True)
                else:
                    for b, v in zip(bin_names, bins["values"]):
                        lf.set_param_rule(bins["par"], bin=b, value=v, is_constant=True)
            if case.get("expm"):
                lf.set_expm(case["expm"])

    ok, _ = s.call("set_param_rule", setup)
    if not ok:
        return s
    # motif probabilities are set before the alignment so that they are never estimated from (possibly all-degenerate) data
    ok, _ = s.call("set_alignment", lambda: lf.set_alignment(alns if nloci > 1 else alns[0]))
    if not ok:
        return s


    # ---------------------------------------------------------------- model
    prot_S = None
    motifs = [str(m) for m in sm.get_motifs()]
    if sorted(motifs) != sorted(S):
        s.fail("alphabet", f"model states {motifs[:8]}… differ from the published state space ({len(motifs)} vs {n})")
        return s
    if space == "protein":
        prot_S = _protein_table(name, motifs)
        sym = all(abs(prot_S[i][j] - prot_S[j][i]) <= 1e-12 * max(1.0, abs(prot_S[i][j])) for i in range(n) for j in range(n))
        s.check(sym, f"protein-table-symmetric/{name}", "exchangeability table is not symmetric")

    def value_of(par, li, ename, b):
        v = case["loci"][li]["params"][par]
        for grp, val in case["scoped"].get(par, []):
            if ename in grp:
                v = val
        if bins and config == "binpar" and bins["par"] == par:
            v = bins["values"][b]
        return v

    if config == "gamma":
        brates = gamma_rates(bins["shape"], bins["bprobs"])
    elif config == "free":
        brates = free_rates(bins["increments"], bins["bprobs"])
    else:
        brates = [1.0] * nb
    bprobs = bins["bprobs"] if bins else [1.0]

    mkeys = list(NUCS) if pi_kind == "monomer" else S
    eigen_imprecise = False
    pending = []  # (leaf vectors, [P per bin], root distribution) per locus; pruned once the P error is known
    qcache = {}
    evals = 0
    unequal_pi = False
    for li, loc in enumerate(case["loci"]):
        mp = loc["mprobs"] if loc["mprobs"] is not None else {k: 1.0 / len(mkeys) for k in mkeys}
        unequal_pi = unequal_pi or len({round(v, 12) for v in mp.values()}) > 1
        root_pi = word_probs(space, pi_kind, mp)
        lkw = {"locus": locus_names[li]} if nloci > 1 else {}

        # motif probabilities as reported
        ok, gmp = s.call("get_motif_probs", lambda: lf.get_motif_probs(**lkw))
        if ok:
            try:
                gd = {str(k): float(v) for k, v in gmp.to_dict().items()}
            except Exception as e:  # noqa: BLE001
                gd = None
                s.fail("get_motif_probs/shape", f"{type(e).__name__}: {e}")
            if gd is not None:
                bad = [(k, gd.get(k), mp[k]) for k in mkeys if gd.get(k) is None or abs(gd[k] - mp[k]) > 1e-12]
                s.check(not bad, "get_motif_probs/values", f"{name}: (motif, got, set) {bad[:3]}")

        leafvec = {}
        for t in tips:
            m = numpy.zeros((ncols[li], n))
            for c, symb in enumerate(rows_by_locus[li][t]):
                for st_ in compatible(space, symb):
                    m[c, S.index(st_)] = 1.0
            leafvec[t] = m

        P_bins = []
        for b in range(nb):
            P = {}
            for ename, ln, _ in edges:
                vals = tuple(value_of(p, li, ename, b) for p in pars)
                key = (li, vals)
                if key not in qcache:
                    preds = [(predicate_for(p, user["preds"] if user else None), v) for p, v in zip(pars, vals)]
                    qcache[key] = build_Q(space, pi_kind, mp, preds, prot_S)
                    # rate matrix clause, once per distinct parameter combination
                    bkw = {"bin": bin_names[b]} if bins else {}
                    ok, gq = s.call("get_rate_matrix_for_edge", lambda: lf.get_rate_matrix_for_edge(ename, calibrated=True, **bkw, **lkw))
                    if ok:
                        ok2, G = s.call("get_rate_matrix_for_edge/to_dict", _dictarray, gq, S)
                        if ok2:
                            W = qcache[key]
                            scale = float(numpy.abs(W).max())
                            err = numpy.abs(G - W)
                            s.notes["dQ"] = max(s.notes.get("dQ", 0.0), float(err.max()) / scale)
                            if not (err <= 1e-9 * scale).all():
                                i, j = numpy.unravel_index(int(numpy.argmax(err)), err.shape)
                                circ = _q_circumstance(space, pi_kind, S[i], S[j], pars, user)
                                s.fail(
                                    f"rate-matrix/{_family(name, user, space)}/{circ}",
                                    f"{name} edge {ename} q[{S[i]}->{S[j]}] got {float(G[i, j])!r} want {float(W[i, j])!r}; params {dict(zip(pars, vals))} mprobs {_brief(mp)}",
                                )
                            evals += 1
                Q = qcache[key]
                Pe = expm(Q * (ln * float(brates[b])))
                P[ename] = Pe
                # psub clause
                bkw = {"bin": bin_names[b]} if bins else {}
                ok, gp = s.call("get_psub_for_edge", lambda: lf.get_psub_for_edge(ename, **bkw, **lkw))
                if ok:
                    ok2, G = s.call("get_psub_for_edge/to_dict", _dictarray, gp, S)
                    if ok2:
                        err = numpy.abs(G - Pe)
                        s.notes["dP"] = max(s.notes.get("dP", 0.0), float(err.max()))
                        if not (err <= 2e-9).all():
                            i, j = numpy.unravel_index(int(numpy.argmax(err)), err.shape)
                            what = f"{name} edge {ename} length {ln} bin {b} rate {float(brates[b])!r}: P[{S[i]}->{S[j]}] got {float(G[i, j])!r} want {float(Pe[i, j])!r}"
                            # one root cause gets one signature: the default exponentiator accepts an ill-conditioned eigendecomposition
                            cond = float(numpy.linalg.cond(numpy.linalg.eig(Q)[1]))
                            if case.get("expm") is None and float(err.max()) <= 1e-6 and cond > 1e5:
                                eigen_imprecise = True
                                s.fail("psub/eigen-precision", what + f"; cond(eigenvectors of Q) = {cond:.3g}, params {dict(zip(pars, vals))}")
                            else:
                                s.fail(f"psub/{_family(name, user, space)}" + ("/bins" if bins else ""), what)
                        evals += 1
            P_bins.append(P)
        pending.append((leafvec, P_bins, root_pi))

    # Pruning.  Every term of the sum-product is non-negative, so if each entry of P is known to within delta the column
    # likelihood L is known to within L(P + delta) - L(P).  delta is twice the largest deviation between the reported and the
    # harness P (itself limited to 2e-9 by the psub clause; 1e-6 when that clause already reported the eigen-precision
    # circumstance, so that one root cause gives one signature) or 1e-15; this bound is the floating-point allowance of the
    # lnL / column clauses, on top of 1e-9 relative.
    delta = 2.0 * max(1e-15, min(s.notes.get("dP", 0.0), 1e-6 if eigen_imprecise else 2e-9))
    total = 0.0
    slack_total = 0.0
    col_lh_by_locus = []
    col_slack_by_locus = []
    for leafvec, P_bins, root_pi in pending:
        col = sum(w * prune(tree, leafvec, P, root_pi) for w, P in zip(bprobs, P_bins))
        hi = sum(w * prune(tree, leafvec, {e: M + delta for e, M in P.items()}, root_pi) for w, P in zip(bprobs, P_bins))
        col_lh_by_locus.append(col)
        col_slack_by_locus.append(hi - col)
        total += float(numpy.log(col).sum())
        slack_total += float(((hi - col) / col).sum())

    # bin rates as reported
    if config in ("gamma", "free"):
        for b in range(nb):
            ok, r = s.call("get_param_value(rate)", lambda: lf.get_param_value("rate", bin=bin_names[b]))
            if ok:
                s.close(r, float(brates[b]), f"bin-rates/{config}", f"bins {bins} rate of {bin_names[b]}", rtol=1e-7)

    # ---------------------------------------------------------------- compare
    circ = _circumstance(config, m_polytomy(tree), nonrev, bool(case["scoped"]))
    fam = _family(name, user, space)
    ok, lnL = s.call("lnL", lambda: lf.lnL)
    if ok:
        s.notes["dlnL"] = abs(float(lnL) - total) / max(1.0, abs(total))
        s.notes["lnL_margin"] = abs(float(lnL) - total) / (1e-9 * max(1.0, abs(total)) + 2.0 * slack_total)
        s.close(lnL, total, f"lnL/{fam}/{circ}", f"{name} {m_newick(tree)} config {config}", rtol=1e-9, atol=2.0 * slack_total)
        evals += 1
    for li in range(nloci):
        lkw = {"locus": locus_names[li]} if nloci > 1 else {}
        ok, fl = s.call("get_full_length_likelihoods", lambda: lf.get_full_length_likelihoods(**lkw))
        if not ok:
            continue
        try:
            fl = [float(x) for x in fl]
        except Exception as e:  # noqa: BLE001
            s.fail("get_full_length_likelihoods/shape", f"{type(e).__name__}: {e}")
            continue
        want = [float(x) for x in col_lh_by_locus[li]]
        slack = [float(x) for x in col_slack_by_locus[li]]
        if not s.eq(len(fl), len(want), "get_full_length_likelihoods/length", f"{name}"):
            continue
        s.notes["dcol"] = max([s.notes.get("dcol", 0.0)] + [abs(g - w) / abs(w) for g, w in zip(fl, want) if w > 0])
        s.notes["col_margin"] = max([s.notes.get("col_margin", 0.0)] + [abs(g - w) / (1e-9 * w + 2.0 * e) for g, w, e in zip(fl, want, slack) if w > 0])
        bad = [(c, g, w) for c, (g, w, e) in enumerate(zip(fl, want, slack)) if not abs(g - w) <= 1e-9 * abs(w) + 2.0 * e]
        if bad:
            c = bad[0][0]
            colsyms = [rows_by_locus[li][t][c] for t in tips]
            s.fail(f"column-likelihood/{fam}/{circ}", f"{name} column {c} {dict(zip(tips, colsyms))}: got {bad[0][1]!r} want {bad[0][2]!r} ({len(bad)} of {len(want)} columns differ)")
        evals += 1
        if allcols:
            s.close(sum(fl), 1.0, f"normalisation/{fam}/{circ}", f"{name} sum over all {len(fl)} columns", rtol=1e-9)
            s.close(sum(want), 1.0, "harness/normalisation", "oracle columns do not sum to one", rtol=1e-9)

    # ---------------------------------------------------------------- classes
    degenerate = (not allcols) and any(len(compatible(space, x)) > 1 for rows in rows_by_locus for t in tips for x in rows[t])
    repeated = (not allcols) and any(len(loc["aln"]["order"]) > len(set(loc["aln"]["order"])) for loc in case["loci"])
    s.cls(f"model:{name}", f"family:{fam}", f"config:{config}", f"tips:{len(tips)}", f"root-degree:{len(tree['kids'])}")
    s.cls("polytomy" if m_polytomy(tree) else "binary")
    if case["scoped"]:
        s.cls("edge-scope")
    if bins:
        s.cls(f"bins:{nb}")
    if nonrev:
        s.cls("non-reversible")
    if degenerate:
        s.cls("degenerate-symbols")
    if repeated:
        s.cls("repeated-columns")
    if unequal_pi:
        s.cls("unequal-pi")
    if name == "user":
        s.cls("pi-term:" + pi_kind)
    if case.get("expm"):
        s.cls("expm:" + case["expm"])
    s.cls("ArrayAlignment" if case["array_align"] else "Alignment")
    special = m_polytomy(tree) or bool(case["scoped"]) or bool(bins) or nonrev
    s.nontrivial = bool(unequal_pi and special and (degenerate or allcols))
    s.evals = max(1, evals)
    return s


def _brief(mp):
    items = list(mp.items())
    return {k: round(v, 5) for k, v in items[:6]}


def _family(name, user, space):
    if name != "user":
        return name
    return ("dinuc-" + user["mprob_model"]) if space == "dinuc" else ("user-reversible" if user["reversible"] else "user-nonreversible")


def _circumstance(config, poly, nonrev, scoped):
    parts = [config]
    if scoped and config != "scope":
        parts.append("scope")
    parts.append("polytomy" if poly else "binary")
    return "+".join(parts)


def _q_circumstance(space, pi_kind, x, y, pars, user):
    """which kind of cell of the rate matrix disagrees (names the predicates that hold there)"""
    if space == "protein":
        return "cell"
    L = len(x)
    diffs = [p for p in range(L) if x[p] != y[p]]
    if x == y:
        return "diagonal"
    if len(diffs) != 1:
        return "non-instantaneous"
    p = diffs[0]
    hold = [q for q in pars if predicate_for(q, user["preds"] if user else None)(x, y, p, x[p], y[p])]
    if user:
        return "predicates:" + str(len(hold))
    return "predicates:" + ("&".join(hold) if hold else "none")


SUBS = [
    Sub("nuc", execute, strategy=_general_case("nuc"), quick=1200, thorough=16 * 1500, shards_quick=16, weight=1.0),
    Sub("dinuc", execute, strategy=_general_case("dinuc"), quick=240, thorough=16 * 300, shards_quick=8, weight=2.0),
    Sub("codon", execute, strategy=_general_case("codon"), quick=160, thorough=16 * 200, shards_quick=16, weight=8.0),
    Sub("protein", execute, strategy=_general_case("protein"), quick=96, thorough=16 * 100, shards_quick=8, weight=2.0),
    Sub("norm", execute, strategy=_general_case("nuc", allcols=True), quick=240, thorough=16 * 200, shards_quick=8, weight=1.0),
]

KNOWN_PREDICATES = {}

META = {
    "technique": "Hypothesis-generated trees, alignments, models, parameter values and scoping/bin/locus configurations; differential against a "
    "first-principles re-implementation (rate matrices from predicates and motif-probability terms, scipy expm, Felsenstein pruning with "
    "multifurcations and ambiguity sets, bin mixtures) written in the check",
    "level_text": "Each run builds several hundred likelihood functions over every registered continuous-time model plus generated predicate and dinucleotide models "
    "and compares parameter names, every edge's calibrated rate matrix and substitution matrix, every column likelihood and lnL with the harness computation "
    "(lnL at 1e-9 relative); all 4^n columns of small trees must have likelihoods summing to one.",
    "level_note": "Trusts the harness oracle (about 200 lines) and scipy's expm / gamma quantiles. Bounded to 6 tips and 15 columns in the quick tier; "
    "empirical protein exchangeabilities are taken as data from the library; time-heterogeneous motif probabilities, discrete-time edges, "
    "the site-HMM (sites_independent=False) and position-specific monomer models are not generated.",
    "design_ref": "DESIGN.md section 1, C02",
}
