"""C02 — the reported log-likelihood equals the first-principles Felsenstein
sum-product computed from the model's published definition.

Oracle (everything below is written here and shares no code with
``cogent3.evolve``):

* state spaces: nucleotides, dinucleotides, the sense codons of a genetic code
  (standard table written in the harness; tables 2, 4, 6, 11, 12, 27 from the
  strings pinned in vlib/ncbi_codes.py; synonymous / non-synonymous follows
  from the same table) and the 20 amino acids;
* rate matrices: ``q(x->y) = prod(parameters whose predicate holds for x->y)
  * pi-term`` for states differing at exactly one position, zero otherwise;
  the pi-term follows the motif-probability model (word frequency of the
  target, monomer frequency of the new nucleotide, position-specific monomer
  frequency of the new nucleotide, frequency of the target conditional on its
  unchanged positions, or 1 for the non-stationary general models whose motif
  probabilities are only the root distribution); the diagonal makes rows sum
  to zero and Q is calibrated to ``-sum pi_i q_ii = 1``.
  For the empirical protein models the exchangeability tables are read as data
  from ``cogent3.evolve.models`` and Q is formed here;
* ``P(edge) = scipy.linalg.expm(Q * length * bin-rate)``;
* pruning: leaf vectors are indicators of the state set compatible with the
  observed symbol (IUPAC codes; gap, ``?`` and N = every state), partial
  likelihoods are multiplied over any number of children, the root vector is
  weighted by the motif probabilities, site classes are mixed with the bin
  probabilities, columns are summed in the log domain and loci are added;
* discrete gamma rates: bin medians from ``scipy.stats.gamma.ppf`` scaled to a
  weighted mean of one (the rule stated in the GammaDefn docstring); "free"
  rate bins: cumulative increments scaled the same way; the same two rules give
  the per-bin factors when the bins are declared on a model parameter
  (``ordered_param="kappa"`` etc.): value on (edge, bin) = value on the edge x factor of the bin;
* trees of hundreds of tips (sub-check ``bigtree``): the same recursion with every
  partial-likelihood row divided by its maximum at each node and the logs of the divisors
  carried alongside, so the oracle is exact where a column likelihood is below the double range.
"""

from __future__ import annotations

import itertools
import math

from hypothesis import strategies as st

from vlib.core import Soft, Sub

PROPERTY_ID = "C02"
LEVEL = "exploration"
RULE = (
    "A case is a tree (2-6 tips, root degree 2-4, internal degree 2-4; polytomy = root degree 4 or an internal node with 3-4 children; in the thorough tier one nucleotide "
    "case in six has 20-40 tips; branch lengths log-uniform in [1e-3, 3] with a share of 1e-6..1e-4 and 3..10), a continuous-time model (every registered nucleotide, "
    "codon and protein model; codon models for the standard code or, half of the time, get_model(name, gc=k) with k in {2, 4, 6, 11, 12, 27}; generated models built from "
    "predicates: reversible / non-reversible nucleotide, dinucleotide (tuple / monomer / position-specific monomers / conditional motif probabilities, CpG term), codon "
    "(TimeReversibleCodon / NonReversibleCodon with groups of nucleotide changes or the predefined kappa / transition / transversion, omega / replacement / silent, CpG and a "
    "conjunction of two predicates, any motif-probability model, any of the codes) and protein (TimeReversibleProtein / NonReversibleProtein with groups of amino-acid "
    "changes)), parameter values log-uniform inside the declared bounds, non-uniform motif probabilities, a configuration (plain; per-edge parameter scopes; 2-4 "
    "rate-heterogeneity bins with gamma or free rates and unequal bin probabilities; 2-4 bins on one model parameter with gamma or free factors (ordered_param=<parameter>); "
    "site-class bins carrying their own parameter values; two loci with their own parameters, motif probabilities and alignments) and an alignment of 1-15 columns (drawn "
    "from a pool of distinct columns so that repeated columns occur) over the model's alphabet with about a quarter of the cells degenerate (IUPAC codes, N/X, gap, ?). The "
    "harness builds Q, P=expm(Qt), the pruning recursion and the mixtures itself and compares: parameter names, the calibrated rate matrix of every edge (and bin/locus), P "
    "of every edge, the per-column likelihoods and lnL. The normalisation sub-checks supply every possible column (4^n for n = 2-4 tips; 16^n and 20^n for n = 2-3; all "
    "pairs of sense codons for 2 tips; named and generated models, any configuration) and require the per-column likelihoods to sum to one. Non-trivial = unequal motif "
    "probabilities, at least one degenerate symbol and at least one of polytomy, per-edge scope, bins, non-reversible model (normalisation sub-checks: unequal motif "
    "probabilities and one of those four). Distinct = distinct case encodings. Sub-check bigtree: trees of 500-900 tips (nucleotide models HKY85 / GTR / TN93 / F81 / JC69 / GN / ssGN; up "
    "to 1500 in the thorough tier) and 150-400 tips (empirical protein models; up to 600) built from a compact recipe (group sizes 2-4 cycled round by round over adjacent nodes, "
    "an optional comb of 5-40 tips, root degree 2-4, 1-4 distinct branch lengths log-uniform in [1e-3, 1.6] assigned by a repeating pattern), 1-4 columns given by a motif of 1-6 "
    "symbols (an eighth degenerate) laid out along the tips as runs, cyclically or sparsely (every 5th-61st tip deviates), plain or 2-3 gamma rate bins; the harness prunes in the "
    "log domain with per-node rescaling and compares one substitution matrix per distinct length and bin, lnL (1e-9 relative) and the column likelihoods a double can hold. About a "
    "third of the cases have a column whose likelihood is below 1e-300: there the statement still fixes lnL, a disagreement is reported under the single signature "
    "C02/bigtree/lnL[column-likelihood-underflows-double]."
)
ASSUMPTIONS = [
    "continuous-time models only (the discrete-time BH / DT entries of cogent3.evolve.models.models are outside the statement)",
    "rate parameters are drawn log-uniformly from [1e-2, 1e2] (80 %) or the full declared range [1e-6, 1e6] (20 %); branch lengths from [1e-6, 10] "
    "(declared bounds [0, 10]); motif probabilities are >= 1/(20 n) so the 1e-6 floor applied by set_motif_probs never acts; JC69 / K80 keep their equal frequencies",
    "rate matrices compared at 1e-9 relative to the largest entry; P matrices at 2e-9 absolute; lnL at 1e-9 * max(1, |lnL|) and column likelihoods at 1e-9 relative, each plus a "
    "floating-point allowance L(P + delta) - L(P) (every term of the sum-product is non-negative, so this bounds the effect of an entrywise error delta in P), with "
    "delta = 2 * max(1e-15, largest observed deviation of the reported P from the harness P, capped at 2e-9); sum over all columns = 1 at 1e-9",
    "a P deviation above 2e-9 that occurs with the default exponentiator on a rate matrix whose eigenvector matrix has condition number > 1e5 is reported under the single "
    "signature psub/eigen-precision; for such a case delta is capped at 1e-6 instead, so that the lnL / column clauses still test the pruning and do not repeat the same root cause",
    "degenerate symbols and gaps are the set of compatible states (gap, ?, N / X = all states; a degenerate codon = the sense codons it matches, "
    "generated so that this set is never empty, since all-stop codons are rejected by design); codon alignments contain no stop codon of the model's genetic code",
    "genetic codes other than the standard one come from the ncbieaa strings pinned in vlib/ncbi_codes.py (sense codons = codons not translated to '*'; "
    "omega / replacement = the two codons translate differently, silent = identically); code 27 has no stop codon, so its models have 64 states",
    "the CpG predicate of the H04 models and of generated dinucleotide / codon models follows the MotifChange semantics 'exactly one CG-containing window covers the changed "
    "position' (so the codon pair CCG<->CGG, which destroys one CpG and creates another, is not CpG-flagged); this is modelled, not asserted against",
    "gamma rate bins use bin medians rescaled to weighted mean one, as the GammaDefn docstring states; rates are additionally compared with the reported 'rate' values at 1e-7 "
    "(scipy's and cogent3's inverse gamma CDF agree to about 1e-9 only); bins declared on a model parameter (ordered_param=<par>, distribution gamma / free; pinned by "
    "tests/test_evolve/test_likelihood_function.py 'gamma distributed kappa' and test_complex_binned_partition) multiply the parameter's per-edge value by a per-bin factor "
    "obtained by the same two rules (parameters <par>_factor_shape / <par>_factor_partition; reported <par>_factor compared at 1e-7)",
    "Q is calibrated with the (root) motif probabilities also for the non-stationary models GN / ssGN / GNC / generated non-reversible models (documented by get_rate_matrix_for_edge); "
    "for generated non-reversible word models the mprob_model only decides how the root word distribution is formed from the given motif probabilities",
    "mprob_model='monomers' (position-specific monomers, exercised by tests/test_evolve/test_newq.py): the likelihood function is given word frequencies; the nucleotide "
    "frequencies of word position p are the marginals of those word frequencies (over the model's states), the word distribution is their normalised product and the pi-term "
    "of a change at position p is the position-p frequency of the new nucleotide; the motif probabilities such a function reports (per position) are not compared",
    "empirical protein exchangeability tables and frequencies are read as data from cogent3.evolve.models; the amino-acid order of the tables is taken from the model alphabet",
    "expm setting: library default ('either') or 'pade'; old-style Alignment and ArrayAlignment inputs of moltype dna / protein. New-type alignments cannot be given to a "
    "likelihood function at this commit: make_aligned_seqs(..., new_type=True) returns the old classes (the argument is passed on and ignored; there is no Alignment class in "
    "core/new_alignment.py), a new-style MolType is rejected by make_aligned_seqs (AttributeError in get_moltype) and a new-style SequenceCollection has no get_gapped_seq; "
    "so the new-moltype branch of make_likelihood_tree_leaf is unreachable through lf.set_alignment and is not exercised",
    "generated predicate models use disjoint groups of single-letter changes that do not cover every instantaneous change (otherwise the constructor rejects them as redundant); "
    "generated codon models add overlapping predicates (predefined ones, CpG, a conjunction): the harness evaluates its own predicate functions on every instantaneous change and, "
    "when a predicate holds nowhere / everywhere or the indicator vectors (with the all-ones vector) are linearly dependent, a ValueError from the constructor is the documented "
    "outcome and the case ends there; otherwise the constructor must succeed",
    "bigtree: 'for any tree' is read as including trees whose per-column likelihood is smaller than the smallest double (the statement is about the reported LOG-likelihood, which is "
    "representable): lnL must equal the log-domain oracle there too. get_full_length_likelihoods returns plain likelihoods, which cannot hold such values, so column likelihoods are "
    "only compared for columns whose oracle likelihood is >= 1e-300 (above that no subnormal intermediate matters: an entry lost to underflow changes a column likelihood by at most "
    "nodes x states x 5e-324). Every lnL disagreement of a case holding a column below 1e-300 carries the tag [column-likelihood-underflows-double], whatever the model or configuration",
    "bigtree: branch lengths are set with set_param_rule('length', edges=[...]) once per distinct length in use (an empty edge list means every edge, so unused lengths are skipped); "
    "the reported substitution matrix is compared for the first edge of every distinct (length, bin) only; tolerances as for the small trees (computed allowance L(P + delta) - L(P) in the log domain)",
]

NUCS = "ACGT"
IUPAC = {
    "A": "A", "C": "C", "G": "G", "T": "T",
    "R": "AG", "Y": "CT", "M": "AC", "K": "GT", "S": "CG", "W": "AT",
    "H": "ACT", "B": "CGT", "V": "ACG", "D": "AGT", "N": "ACGT", "-": "ACGT", "?": "ACGT",
}  # fmt: skip
NUC_DEGEN = "RYMKSWHBVDN-?"
AAS = "ACDEFGHIKLMNPQRSTVWY"
AA_AMBIG = {"B": "DN", "Z": "EQ", "X": AAS, "-": AAS, "?": AAS}
# standard genetic code, codons in TCAG order (written here); the other codes come from the tables pinned in vlib/ncbi_codes.py
_GC_STR = "FFLLSSSSYY**CC*WLLLLPPPPHHQQRRRRIIIMTTTTNNKKSSRRVVVVAAAADDEEGGGG"
_GC_TABLES = {}
_SENSE_LISTS = {}
# codes offered to get_model(name, gc=k): 2 (60 sense codons; AGA/AGG stop, TGA=W, ATA=M), 4 (62; TGA=W), 6 (63; TAA/TAG=Q),
# 11 (amino acids of the standard code), 12 (61; CTG=S), 27 (no stop codon: 64 states)
GC_CHOICES = [2, 2, 4, 6, 11, 12, 27]


def gc_table(gc=None):
    """{codon: amino acid or '*'} of NCBI genetic code ``gc`` (None / 1 = standard)"""
    gc = 1 if gc is None else int(gc)
    if gc not in _GC_TABLES:
        if gc == 1:
            aas = _GC_STR
        else:
            from vlib.ncbi_codes import CODES

            aas = CODES[gc][1]
        _GC_TABLES[gc] = {a + b + c: aas[16 * i + 4 * j + k] for i, a in enumerate("TCAG") for j, b in enumerate("TCAG") for k, c in enumerate("TCAG")}
    return _GC_TABLES[gc]


def sense_codons(gc=None):
    gc = 1 if gc is None else int(gc)
    if gc not in _SENSE_LISTS:
        _SENSE_LISTS[gc] = sorted(c for c, aa in gc_table(gc).items() if aa != "*")
    return _SENSE_LISTS[gc]


_GC = gc_table(1)
SENSE = sense_codons(1)
DINUCS = [a + b for a in NUCS for b in NUCS]
TRANSITIONS = {frozenset("AG"), frozenset("CT")}

GTR_PARS = ["A/C", "A/G", "A/T", "C/G", "C/T"]
GN_PARS = [f"{f}>{t}" for f, t in itertools.permutations("ACTG", 2) if not (f == "T" and t == "G")]
SSGN_PARS = ["(A>G | T>C)", "(A>T | T>A)", "(C>G | G>C)", "(C>T | G>A)", "(G>T | C>A)"]

# name -> (state space, rate parameters, pi-term, equal frequencies only)
MODEL_DEFS = {
    "JC69": ("nuc", [], "tuple", True),
    "F81": ("nuc", [], "tuple", False),
    "K80": ("nuc", ["kappa"], "tuple", True),
    "HKY85": ("nuc", ["kappa"], "tuple", False),
    "TN93": ("nuc", ["kappa_y", "kappa_r"], "tuple", False),
    "GTR": ("nuc", GTR_PARS, "tuple", False),
    "GN": ("nuc", GN_PARS, "none", False),
    "ssGN": ("nuc", SSGN_PARS, "none", False),
    "CNFGTR": ("codon", GTR_PARS + ["omega"], "conditional", False),
    "CNFHKY": ("codon", ["kappa", "omega"], "conditional", False),
    "MG94HKY": ("codon", ["kappa", "omega"], "monomer", False),
    "MG94GTR": ("codon", GTR_PARS + ["omega"], "monomer", False),
    "GY94": ("codon", ["kappa", "omega"], "tuple", False),
    "Y98": ("codon", ["kappa", "omega"], "tuple", False),
    "H04G": ("codon", ["G", "kappa", "omega"], "tuple", False),
    "H04GK": ("codon", ["G.K", "kappa", "omega"], "tuple", False),
    "H04GGK": ("codon", ["G", "G.K", "kappa", "omega"], "tuple", False),
    "GNC": ("codon", GN_PARS + ["omega"], "none", False),
    "DSO78": ("protein", [], "tuple", False),
    "JTT92": ("protein", [], "tuple", False),
    "AH96": ("protein", [], "tuple", False),
    "AH96_mtmammals": ("protein", [], "tuple", False),
    "WG01": ("protein", [], "tuple", False),
}
NUC_MODELS = ["JC69", "F81", "K80", "HKY85", "TN93", "GTR", "GN", "ssGN"]
CODON_MODELS = ["CNFGTR", "CNFHKY", "MG94HKY", "MG94GTR", "GY94", "Y98", "H04G", "H04GK", "H04GGK", "GNC"]
PROTEIN_MODELS = ["DSO78", "JTT92", "AH96", "AH96_mtmammals", "WG01"]
NONREV = {"GN", "ssGN", "GNC"}


# ------------------------------------------------------------------ oracle
def states_of(space, gc=None):
    if space == "codon":
        return sense_codons(gc)
    return {"nuc": list(NUCS), "dinuc": DINUCS, "protein": list(AAS)}[space]


def compatible(space, sym, gc=None):
    """state set compatible with an observed (possibly degenerate) symbol"""
    if space == "protein":
        return AA_AMBIG.get(sym, sym)
    sets = [IUPAC[ch] for ch in sym]
    out = ["".join(p) for p in itertools.product(*sets)]
    if space == "codon":
        tbl = gc_table(gc)
        out = [c for c in out if tbl[c] != "*"]
    return out


def _cpg(x, y, p):
    """exactly one window of two positions that covers position p and reads CG in x or in y"""
    n = 0
    for o in range(len(x) - 1):
        if o <= p <= o + 1 and (x[o : o + 2] == "CG" or y[o : o + 2] == "CG"):
            n += 1
    return n == 1


NAMED_SPECS = ("omega", "replacement", "silent", "kappa", "transition", "transversion")


def spec_fn(spec, gc=None):
    """(x, y, p, a, b) -> bool for a predicate specification of a generated model: 'cpg', one of NAMED_SPECS (the predicates
    the model classes predefine), a list of directed [from, to] pairs of single letters, or {"and": [spec, spec]}"""
    if spec == "cpg":
        return lambda x, y, p, a, b: _cpg(x, y, p)
    if spec in ("omega", "replacement"):
        tbl = gc_table(gc)
        return lambda x, y, p, a, b: tbl[x] != tbl[y]
    if spec == "silent":
        tbl = gc_table(gc)
        return lambda x, y, p, a, b: tbl[x] == tbl[y]
    if spec in ("kappa", "transition"):
        return lambda x, y, p, a, b: frozenset((a, b)) in TRANSITIONS
    if spec == "transversion":
        return lambda x, y, p, a, b: frozenset((a, b)) not in TRANSITIONS
    if isinstance(spec, dict):
        fns = [spec_fn(q, gc) for q in spec["and"]]
        return lambda x, y, p, a, b: all(f(x, y, p, a, b) for f in fns)
    pairs = {(f, t) for f, t in spec}
    return lambda x, y, p, a, b: (a, b) in pairs


def predicate_for(name, user=None, gc=None):
    """(x, y, p, a, b) -> bool for a parameter name; x->y differ at position p only, a=x[p], b=y[p]"""
    if user is not None and name in user:
        return spec_fn(user[name], gc)
    if name == "kappa":
        return lambda x, y, p, a, b: frozenset((a, b)) in TRANSITIONS
    if name == "kappa_y":
        return lambda x, y, p, a, b: {a, b} == {"C", "T"}
    if name == "kappa_r":
        return lambda x, y, p, a, b: {a, b} == {"A", "G"}
    if name == "omega":
        tbl = gc_table(gc)
        return lambda x, y, p, a, b: tbl[x] != tbl[y]
    if name == "G":
        return lambda x, y, p, a, b: _cpg(x, y, p)
    if name == "G.K":
        return lambda x, y, p, a, b: _cpg(x, y, p) and frozenset((a, b)) in TRANSITIONS
    parts = [q.strip() for q in name.strip("()").split("|")]
    und = set()
    dire = set()
    for q in parts:
        if "/" in q:
            f, t = q.split("/")
            und.add(frozenset((f, t)))
        else:
            f, t = q.split(">")
            dire.add((f, t))
    return lambda x, y, p, a, b: frozenset((a, b)) in und or (a, b) in dire


def position_marginals(S, mprobs):
    """per word position, the nucleotide frequencies implied by word frequencies ``mprobs`` (the 'monomers' model)"""
    L = len(S[0])
    out = []
    for p in range(L):
        m = {ch: 0.0 for ch in NUCS}
        for s_ in S:
            m[s_[p]] += mprobs[s_]
        tot = sum(m.values())
        out.append({ch: v / tot for ch, v in m.items()})
    return out


def word_probs(space, pi_kind, mprobs, gc=None, root_kind=None):
    """root / stationary distribution over states from the motif probabilities given to the model"""
    import numpy

    S = states_of(space, gc)
    kind = root_kind or pi_kind
    if kind == "monomer":
        w = numpy.array([math.prod(mprobs[ch] for ch in s) for s in S])
        return w / w.sum()
    if kind == "monomers":
        marg = position_marginals(S, mprobs)
        w = numpy.array([math.prod(marg[p][ch] for p, ch in enumerate(s)) for s in S])
        return w / w.sum()
    return numpy.array([mprobs[s] for s in S])


def build_Q(space, pi_kind, mprobs, preds, protein_S=None, gc=None, root_kind=None):
    """calibrated rate matrix (numpy, harness state order) from the published definition

    pi_kind is the pi-term of an instantaneous change (none / tuple / monomer / monomers / conditional); root_kind says how the
    word distribution used for calibration is formed (defaults to pi_kind). For single-letter alphabets every ordered pair of
    distinct states is an instantaneous change."""
    import numpy

    S = states_of(space, gc)
    n = len(S)
    w = word_probs(space, pi_kind, mprobs, gc, root_kind)
    wd = dict(zip(S, w))
    Q = numpy.zeros((n, n))
    if space == "protein" and protein_S is not None:
        for i in range(n):
            for j in range(n):
                if i != j:
                    Q[i, j] = protein_S[i][j] * w[j]
    else:
        L = len(S[0])
        ctx_cache = {}
        marg = position_marginals(S, mprobs) if pi_kind == "monomers" else None
        for i, x in enumerate(S):
            for j, y in enumerate(S):
                if i == j:
                    continue
                diffs = [p for p in range(L) if x[p] != y[p]]
                if len(diffs) != 1:
                    continue
                p = diffs[0]
                a, b = x[p], y[p]
                r = 1.0
                for fn, val in preds:
                    if fn(x, y, p, a, b):
                        r *= val
                if pi_kind == "none":
                    t = 1.0
                elif pi_kind == "tuple":
                    t = wd[y]
                elif pi_kind == "monomer":
                    t = mprobs[b]
                elif pi_kind == "monomers":
                    t = marg[p][b]
                else:  # conditional on the unchanged positions of the target
                    key = (y[:p], p, y[p + 1 :])
                    if key not in ctx_cache:
                        ctx_cache[key] = sum(wd[z] for z in S if z[:p] == y[:p] and z[p + 1 :] == y[p + 1 :])
                    t = wd[y] / ctx_cache[key]
                Q[i, j] = r * t
    rows = Q.sum(axis=1)
    Q -= numpy.diag(rows)
    Q /= float((w * rows).sum())
    return Q


def gamma_rates(shape, bprobs):
    import numpy
    from scipy.stats import gamma

    wts = numpy.array(bprobs, float)
    wts = wts / wts.sum()
    pct = numpy.cumsum(wts) - wts / 2
    med = gamma.ppf(pct, shape, scale=1.0 / shape)
    return med / float((med * wts).sum())


def free_rates(increments, bprobs):
    import numpy

    vals = numpy.cumsum(numpy.array(increments, float))
    return vals / float((vals * numpy.array(bprobs, float)).sum())


def m_edges(tree):
    """[(name, length, is_tip)] of every non-root node"""
    out = []

    def walk(nd, root):
        if not root:
            out.append((nd["name"], nd["len"], not nd["kids"]))
        for k in nd["kids"]:
            walk(k, False)

    walk(tree, True)
    return out


def m_tips(tree):
    return [nm for nm, _, tip in m_edges(tree) if tip]


def m_polytomy(tree):
    """a node with more than two children below the root, or a root with more than three"""

    def walk(nd, root):
        return len(nd["kids"]) > (3 if root else 2) or any(walk(k, False) for k in nd["kids"])

    return walk(tree, True)


def m_newick(tree):
    def nw(nd, root):
        if nd["kids"]:
            s = "(" + ",".join(nw(k, False) for k in nd["kids"]) + ")"
            return s + ("" if root else f"{nd['name']}:{nd['len']!r}")
        return f"{nd['name']}:{nd['len']!r}"

    return nw(tree, True) + ";"


def prune(tree, leafvec, P, root_pi):
    """per-column likelihoods: leafvec[tip] (columns x states), P[edge] (states x states)"""

    def partial(nd):
        if not nd["kids"]:
            return leafvec[nd["name"]]
        out = None
        for k in nd["kids"]:
            up = partial(k) @ P[k["name"]].T  # sum_j P[i, j] * child[j]
            out = up if out is None else out * up
        return out

    return partial(tree) @ root_pi


# ------------------------------------------------------------------ generator
def _sig(v):
    return float(f"{v:.6g}")


@st.composite
def _rate_value(draw):
    wide = draw(st.integers(0, 4)) == 0
    e = draw(st.floats(-6.0, 6.0) if wide else st.floats(-2.0, 2.0))
    return min(1e6, max(1e-6, _sig(10.0**e)))


@st.composite
def _length(draw):
    k = draw(st.integers(0, 11))
    if k == 0:
        e = draw(st.floats(-6.0, -4.0))
    elif k == 1:
        e = draw(st.floats(math.log10(3.0), 1.0))
    else:
        e = draw(st.floats(-3.0, math.log10(3.0)))
    return min(10.0, max(1e-6, _sig(10.0**e)))


@st.composite
def _tree(draw, min_tips=2, max_tips=6, big=False):
    if big:
        n = draw(st.integers(20, 40))
    else:
        n = draw(st.sampled_from([k for k in (2, 3, 3, 4, 4, 4, 5, 5, 5, 6, 6, 6) if min_tips <= k <= max_tips]))
    nodes = [{"name": f"t{i}", "len": draw(_length()), "kids": []} for i in range(n)]
    root_deg = draw(st.sampled_from([2, 3, 3, 4]))
    root_deg = min(root_deg, n)
    poly = draw(st.integers(0, 1)) == 0
    k = 0
    while len(nodes) > root_deg:
        size = 2
        if poly:
            size = min(draw(st.sampled_from([2, 3, 3, 4])), len(nodes) - root_deg + 1)
        idx = draw(st.lists(st.integers(0, len(nodes) - 1), min_size=size, max_size=size, unique=True))
        kids = [nodes[i] for i in sorted(idx)]
        nodes = [x for i, x in enumerate(nodes) if i not in idx]
        nodes.append({"name": f"n{k}", "len": draw(_length()), "kids": kids})
        k += 1
    return {"name": "root", "len": None, "kids": nodes}


@st.composite
def _probs(draw, keys, equal=False):
    if equal:
        return None
    wts = [draw(st.integers(1, 20)) for _ in keys]
    if len(set(wts)) == 1:
        wts[0] += 1
    tot = sum(wts)
    return {k: w / tot for k, w in zip(keys, wts)}


@st.composite
def _bprobs(draw, n):
    wts = [draw(st.integers(1, 9)) for _ in range(n)]
    tot = sum(wts)
    return [w / tot for w in wts]


def _degenerate_symbol(draw, space, base, gc=None):
    """a degenerate symbol compatible with state ``base`` (so the compatible set is never empty)"""
    if space == "protein":
        opts = ["X", "-", "?"]
        if base in "DN":
            opts.append("B")
        if base in "EQ":
            opts.append("Z")
        return draw(st.sampled_from(opts))
    chars = list(base)
    npos = draw(st.sampled_from([1, 1, 1, len(chars)]))
    pos = draw(st.lists(st.integers(0, len(chars) - 1), min_size=npos, max_size=npos, unique=True))
    whole = draw(st.integers(0, 3)) == 0
    for p in pos:
        if whole:
            chars[p] = draw(st.sampled_from("N-?"))
        else:
            chars[p] = draw(st.sampled_from([c for c in NUC_DEGEN if chars[p] in IUPAC[c]]))
    return "".join(chars)


@st.composite
def _alignment(draw, space, tips, max_cols=15, gc=None):
    S = states_of(space, gc)
    ncol = draw(st.integers(1, max_cols))
    npool = draw(st.integers(1, min(ncol, 8)))
    pool = []
    for _ in range(npool):
        base = draw(st.sampled_from(S))
        col = []
        for _t in tips:
            k = draw(st.integers(0, 11))
            if k < 6:
                col.append(base)
            elif k < 9:
                col.append(draw(st.sampled_from(S)))
            else:
                col.append(_degenerate_symbol(draw, space, base if k == 9 else draw(st.sampled_from(S))))
        pool.append(col)
    order = list(range(npool)) + [draw(st.integers(0, npool - 1)) for _ in range(ncol - npool)]
    order = draw(st.permutations(order))
    return {"pool": pool, "order": list(order)}


@st.composite
def _scopes(draw, pars, edges, p_scope):
    """{par: [[edge names], value] ...} — groups of edges that get their own value"""
    out = {}
    for par in pars:
        if draw(st.integers(0, 99)) >= p_scope:
            continue
        groups = []
        ngroups = draw(st.sampled_from([1, 1, 2]))
        remaining = list(edges)
        for _ in range(ngroups):
            if len(remaining) < 2:
                break
            size = draw(st.integers(1, len(remaining) - 1))
            idx = draw(st.lists(st.integers(0, len(remaining) - 1), min_size=size, max_size=size, unique=True))
            grp = [remaining[i] for i in sorted(idx)]
            remaining = [e for i, e in enumerate(remaining) if i not in idx]
            groups.append([grp, draw(_rate_value())])
        if groups:
            out[par] = groups
    return out


UND_PAIRS = ["AC", "AG", "AT", "CG", "CT", "GT"]
MPROB_MODELS = ["tuple", "monomer", "monomers", "conditional"]


def _pair_groups(draw, pairs, max_groups, reversible, prefix="p"):
    """disjoint groups of the given (from, to) pairs -> {name: sorted list of directed pairs}"""
    npred = draw(st.integers(1, min(max_groups, len(pairs))))
    groups = [[] for _ in range(npred)]
    for i, pr in enumerate(pairs):
        groups[i if i < npred else draw(st.integers(0, npred - 1))].append(pr)
    out = {}
    for i, g in enumerate(groups):
        if reversible:
            out[f"{prefix}{i}"] = sorted([a, b] for pr in g for a, b in (pr, pr[::-1]))
        else:
            out[f"{prefix}{i}"] = sorted([pr[0], pr[1]] for pr in g)
    return out


def _nuc_pair_preds(draw, rev):
    """groups of nucleotide changes that leave at least one change unparameterised"""
    if rev:
        pairs = list(draw(st.permutations(UND_PAIRS)))[: draw(st.integers(1, 5))]
        return _pair_groups(draw, pairs, 3, True)
    dpairs = [f + t for f, t in itertools.permutations(NUCS, 2)]
    pairs = list(draw(st.permutations(dpairs)))[: draw(st.integers(1, 11))]
    return _pair_groups(draw, pairs, 4, False)


@st.composite
def _user_model(draw, kind):
    """a predicate-built model over nucleotides, dinucleotides, codons or amino acids: groups of single-letter changes that leave
    at least one change unparameterised, plus (word models) the CpG term and (codon models) predefined predicates and a conjunction"""
    if kind is True or kind is False:  # older call form: dinuc flag
        kind = "dinuc" if kind else "nuc"
    if kind == "nuc":
        rev = draw(st.booleans())
        return {"reversible": rev, "preds": _nuc_pair_preds(draw, rev)}
    if kind == "dinuc":
        rev = draw(st.sampled_from([True, True, False]))
        spec = {"reversible": rev, "preds": _nuc_pair_preds(draw, rev), "mprob_model": draw(st.sampled_from(MPROB_MODELS))}
        if draw(st.booleans()):
            spec["preds"]["cpg"] = "cpg"
        return spec
    if kind == "protein":
        rev = draw(st.sampled_from([True, True, False]))
        npairs = draw(st.integers(1, 8))
        seen = []
        for _ in range(npairs):
            i = draw(st.integers(0, 19))
            j = draw(st.integers(0, 18))
            j = j + 1 if j >= i else j
            pr = AAS[i] + AAS[j]
            if pr not in seen and (not rev or pr[::-1] not in seen):
                seen.append(pr)
        return {"reversible": rev, "preds": _pair_groups(draw, seen, 3, rev)}
    # codon
    rev = draw(st.sampled_from([True, True, False]))
    preds = {}
    k = draw(st.integers(0, 3))
    if k > 0:
        preds.update(_nuc_pair_preds(draw, rev))
    else:
        preds["k"] = draw(st.sampled_from(["kappa", "transition", "transversion"]))
    if draw(st.integers(0, 3)) > 0:
        preds["w"] = draw(st.sampled_from(["omega", "omega", "replacement", "silent"]))
    if draw(st.integers(0, 2)) == 0:
        preds["cg"] = "cpg"
    if draw(st.integers(0, 2)) == 0:
        first = draw(st.sampled_from(["transition", "transversion", "cpg"]))
        preds["x"] = {"and": [first, draw(st.sampled_from(["silent", "replacement"]))]}
    return {"reversible": rev, "preds": preds, "mprob_model": draw(st.sampled_from(MPROB_MODELS))}


def model_layout(name, user, space):
    """(parameter names, pi-term, root-distribution kind, equal frequencies only, non-reversible) of a case's model"""
    if name != "user":
        _, pars, pi_kind, equal = MODEL_DEFS[name]
        return list(pars), pi_kind, ("monomer" if pi_kind == "monomer" else "tuple"), equal, name in NONREV
    mpm = user.get("mprob_model", "tuple")
    root_kind = mpm if mpm in ("monomer", "monomers") else "tuple"
    pi_kind = mpm if user["reversible"] else "none"
    return sorted(user["preds"]), pi_kind, root_kind, False, not user["reversible"]


def mprob_keys(space, root_kind, gc=None):
    """what the motif probabilities given to the likelihood function are keyed by"""
    return list(NUCS) if root_kind == "monomer" else states_of(space, gc)


def _general_case(space_choice, allcols=False, big=False):
    """space_choice: a state space or a list of them (one is drawn); allcols: the alignment is every possible column;
    big: a share of the trees has 20-40 tips (thorough tier, nucleotide models)"""

    @st.composite
    def build(draw):
        space = space_choice if isinstance(space_choice, str) else draw(st.sampled_from(list(space_choice)))
        case = {}
        user = None
        gc = None
        if space == "nuc":
            name = draw(st.sampled_from(NUC_MODELS + ["HKY85", "GTR", "GN", "ssGN", "TN93", "F81"])) if draw(st.integers(0, 4)) > 0 else "user"
        elif space == "dinuc":
            name = "user"
        elif space == "codon":
            name = draw(st.sampled_from(CODON_MODELS)) if draw(st.integers(0, 4)) > 0 else "user"
            if draw(st.integers(0, 1)) == 1:
                gc = draw(st.sampled_from(GC_CHOICES))
        else:
            name = draw(st.sampled_from(PROTEIN_MODELS)) if draw(st.integers(0, 3)) > 0 else "user"
        if name == "user":
            user = draw(_user_model(space))
            case["user"] = user
        pars, pi_kind, root_kind, equal, _nonrev = model_layout(name, user, space)
        case["model"] = name
        case["space"] = space
        if gc is not None:
            case["gc"] = gc
        if allcols:
            # every column: 4^n (n = 2-4), 16^n / 20^n (n = 2-3), sense codons ^ 2
            tree = draw(_tree(2, {"nuc": 4, "dinuc": 3, "protein": 3, "codon": 2}[space]))
        elif big and draw(st.integers(0, 5)) == 0:
            tree = draw(_tree(big=True))
        else:
            tree = draw(_tree(2, 6 if space in ("nuc", "dinuc") else 5))
        case["tree"] = tree
        edges = [e for e, _, _ in m_edges(tree)]
        tips = m_tips(tree)
        mkeys = mprob_keys(space, root_kind, gc)
        if space == "nuc" and not equal:
            options = ["plain", "scope", "scope", "gamma", "free", "binpar", "loci", "pgamma", "pfree"]
        elif space == "nuc":
            options = ["plain", "scope", "gamma", "free", "loci", "pgamma"]
        elif space == "dinuc":
            options = ["plain", "scope", "scope", "gamma", "free", "binpar", "loci", "pgamma"]
        elif space == "codon":
            options = ["plain", "scope", "scope", "gamma", "binpar", "pgamma", "pgamma", "free", "loci"]
        elif name == "user":
            options = ["plain", "scope", "gamma", "binpar", "pgamma"]
        else:
            options = ["plain", "plain", "gamma", "free"]
        if allcols and space != "nuc":
            options = [o for o in options if o != "loci"]
        config = draw(st.sampled_from(options))
        if config in ("scope", "binpar", "pgamma", "pfree") and not pars:
            config = "plain"
        case["config"] = config
        nloci = 2 if config == "loci" else 1
        loci = []
        for _ in range(nloci):
            loc = {"params": {p: draw(_rate_value()) for p in pars}, "mprobs": draw(_probs(mkeys, equal))}
            if allcols:
                loc["aln"] = "allcols"
            else:
                loc["aln"] = draw(_alignment(space, tips, 15 if space in ("nuc", "dinuc") else 8, gc))
            loci.append(loc)
        case["loci"] = loci
        p_scope = {"scope": 60, "gamma": 20, "free": 20, "loci": 20, "pgamma": 20, "pfree": 20}.get(config, 0)
        case["scoped"] = draw(_scopes(pars, edges, p_scope)) if p_scope else {}
        if config == "scope" and not case["scoped"] and pars:
            par = draw(st.sampled_from(pars))
            case["scoped"] = {par: [[[draw(st.sampled_from(edges))], draw(_rate_value())]]}
        if config in ("gamma", "free", "binpar", "pgamma", "pfree"):
            nb = draw(st.integers(2, 4))
            bins = {"n": nb, "bprobs": draw(_bprobs(nb))}
            if config in ("pgamma", "pfree"):
                # the bins differ in one model parameter: value on an edge x a per-bin factor of weighted mean one
                preferred = [q for q in pars if q in ("omega", "kappa", "w", "k")]
                bins["par"] = draw(st.sampled_from(preferred + pars))
            if config in ("gamma", "pgamma"):
                bins["shape"] = _sig(10.0 ** draw(st.floats(-1.0, 1.3)))
            elif config in ("free", "pfree"):
                incs = [draw(st.integers(1, 9)) for _ in range(nb)]
                tot = sum(incs)
                bins["increments"] = [i / tot for i in incs]
            else:
                par = draw(st.sampled_from(pars))
                bins["par"] = par
                bins["values"] = [draw(_rate_value()) for _ in range(nb)]
            case["bins"] = bins
        case["expm"] = draw(st.sampled_from([None, None, "pade"]))
        case["array_align"] = draw(st.booleans())
        return case

    return build()


# -------------------------------------------------------------------- execute
_MODEL_CACHE = {}


def _real_predicate(spec):
    """cogent3 predicate object for a predicate specification of a generated model"""
    from cogent3.evolve import predicate as pr

    if spec == "cpg":
        return pr.MotifChange("CG")
    if isinstance(spec, str):
        return pr.parse(spec)  # a predicate the model class predefines (ModelSays)
    if isinstance(spec, dict):
        a, b = (_real_predicate(q) for q in spec["and"])
        return a & b
    out = None
    for f, t in spec:
        q = pr.MotifChange(f, t, forward_only=True)
        out = q if out is None else (out | q)
    return out


def predicates_redundant(space, gc, specs):
    """True when the constructor is documented to reject the predicate set: a predicate that holds for no or for every
    instantaneous change, or indicator vectors that are linearly dependent among themselves or with the all-ones vector"""
    import numpy

    S = states_of(space, gc)
    L = len(S[0])
    fns = [spec_fn(q, gc) for q in specs]
    rows = []
    for x in S:
        for y in S:
            diffs = [p for p in range(L) if x[p] != y[p]]
            if len(diffs) == 1:
                p = diffs[0]
                rows.append([1.0 if f(x, y, p, x[p], y[p]) else 0.0 for f in fns] + [1.0])
    M = numpy.array(rows)
    if any(M[:, k].sum() in (0.0, float(len(rows))) for k in range(len(fns))):
        return True
    rank = lambda A: int((numpy.linalg.svd(A, compute_uv=False) > 1e-8).sum())  # noqa: E731
    return rank(M[:, :-1]) < len(fns) or rank(M) < len(fns) + 1


def _model_kw(case):
    config = case["config"]
    if config == "gamma":
        return {"ordered_param": "rate", "distribution": "gamma"}
    if config == "free":
        return {"ordered_param": "rate", "distribution": "free"}
    if config == "pgamma":
        return {"ordered_param": case["bins"]["par"], "distribution": "gamma"}
    if config == "pfree":
        return {"ordered_param": case["bins"]["par"], "distribution": "free"}
    return {}


def _get_sm(case):
    """substitution model object (cached per process: models are reusable factories for likelihood functions)"""
    import json

    name = case["model"]
    kw = _model_kw(case)
    gc = case.get("gc")
    key = json.dumps([name, case["space"], case.get("user"), kw, gc], sort_keys=True)
    if key in _MODEL_CACHE:
        return _MODEL_CACHE[key]
    if gc is not None:
        kw = dict(kw, gc=gc)
    if name != "user":
        from cogent3 import get_model

        sm = get_model(name, **kw)
    else:
        from cogent3.evolve import ns_substitution_model as nsm
        from cogent3.evolve import substitution_model as smod

        user = case["user"]
        space = case["space"]
        preds = {pname: _real_predicate(spec) for pname, spec in user["preds"].items()}
        kw = dict(kw, predicates=preds, recode_gaps=True, model_gaps=False)
        if space in ("dinuc", "codon"):
            kw["mprob_model"] = user["mprob_model"]
        rev = user["reversible"]
        if space == "dinuc":
            sm = smod.TimeReversibleDinucleotide(**kw) if rev else nsm.NonReversibleDinucleotide(**kw)
        elif space == "codon":
            sm = smod.TimeReversibleCodon(**kw) if rev else nsm.NonReversibleCodon(**kw)
        elif space == "protein":
            sm = smod.TimeReversibleProtein(**kw) if rev else nsm.NonReversibleProtein(**kw)
        else:
            sm = smod.TimeReversibleNucleotide(**kw) if rev else nsm.NonReversibleNucleotide(**kw)
    _MODEL_CACHE[key] = sm
    return sm


def _protein_table(name, motifs):
    """exchangeability table (data) of an empirical model re-indexed to the harness amino-acid order"""
    import cogent3.evolve.models as M

    mat = getattr(M, f"{name}_matrix")
    idx = [motifs.index(a) for a in AAS]
    return [[float(mat[i][j]) for j in idx] for i in idx]


def _all_columns(space, tips, gc=None):
    S = states_of(space, gc)
    cols = list(itertools.product(S, repeat=len(tips)))
    return {t: [c[i] for c in cols] for i, t in enumerate(tips)}, len(cols)


def _rows(aln, tips):
    cols = [aln["pool"][i] for i in aln["order"]]
    return {t: [c[k] for c in cols] for k, t in enumerate(tips)}


def _dictarray(da, S):
    """DictArray -> numpy array in harness state order (row / column labels are read from the object)"""
    import numpy

    names = da.template.names
    rows = [str(x) for x in names[0]]
    cols = [str(x) for x in names[1]]
    arr = numpy.asarray(da.array, float)
    ri = [rows.index(x) for x in S]
    ci = [cols.index(x) for x in S]
    return arr[numpy.ix_(ri, ci)]


def execute(case) -> Soft:
    import numpy
    from scipy.linalg import expm

    sub = "norm" if case["loci"][0]["aln"] == "allcols" else case["space"]
    s = Soft(f"C02/{sub}/")
    name = case["model"]
    space = case["space"]
    user = case.get("user")
    config = case["config"]
    tree = case["tree"]
    gc = case.get("gc")
    S = states_of(space, gc)
    n = len(S)
    pars, pi_kind, root_kind, equal, nonrev = model_layout(name, user, space)
    upreds = user["preds"] if user else None
    edges = m_edges(tree)
    tips = m_tips(tree)
    bins = case.get("bins")
    nb = bins["n"] if bins else 1
    bin_names = [f"bin{i}" for i in range(nb)] if bins else [None]
    nloci = len(case["loci"])
    locus_names = [f"L{i}" for i in range(nloci)] if nloci > 1 else [None]
    allcols = case["loci"][0]["aln"] == "allcols"

    # ---------------------------------------------------------------- real
    # overlapping predicates (generated codon models) may form a set the constructor is documented to reject as redundant
    redundant = bool(user) and space == "codon" and predicates_redundant(space, gc, [upreds[q] for q in pars])
    ok, sm = s.call("model", _get_sm, case, allowed=(ValueError,) if redundant else ())
    if not ok:
        if redundant:
            s.cls("redundant-predicates-rejected")
        return s

    def mk_tree():
        from cogent3 import make_tree

        return make_tree(m_newick(tree))

    ok, rtree = s.call("make_tree", mk_tree)
    if not ok:
        return s
    got_edges = sorted(e.name for e in rtree.get_edge_vector(include_root=False))
    if got_edges != sorted(e for e, _, _ in edges):  # harness expectation about names, not the property
        s.fail("harness/tree-names", f"{got_edges} vs {sorted(e for e, _, _ in edges)}")
        return s

    def mk_lf():
        kw = {}
        if bins:
            kw["bins"] = nb
        if nloci > 1:
            kw["loci"] = locus_names
        return sm.make_likelihood_function(rtree, **kw)

    ok, lf = s.call("make_likelihood_function", mk_lf)
    if not ok:
        return s

    # alignments
    rows_by_locus = []
    seqs_by_locus = []
    ncols = []
    for loc in case["loci"]:
        if allcols:
            rows, nc = _all_columns(space, tips, gc)
        else:
            rows = _rows(loc["aln"], tips)
            nc = len(loc["aln"]["order"])
        seqs = {t: "".join(rows[t]) for t in tips}
        rows_by_locus.append(rows)
        ncols.append(nc)
        seqs_by_locus.append(seqs)

    def mk_alns():
        from cogent3 import make_aligned_seqs

        mt = "protein" if space == "protein" else "dna"
        return [make_aligned_seqs(dict(sq), moltype=mt, array_align=bool(case["array_align"])) for sq in seqs_by_locus]

    ok, alns = s.call("make_aligned_seqs", mk_alns)
    if not ok:
        return s
    # parameter names
    ok, pnames = s.call("get_param_names", lf.get_param_names)
    if not ok:
        return s
    rate_like = {"mprobs", "psmprobs", "length", "bprobs", "rate", "rate_shape"}
    if config in ("pgamma", "pfree"):
        rate_like |= {bins["par"] + "_factor", bins["par"] + "_factor_shape"}
    got_pars = sorted(p for p in pnames if p not in rate_like)
    if not s.eq(got_pars, sorted(pars), "param-names", f"model {name} rate parameters"):
        return s

    def setup():
        with lf.updates_postponed():
            for ename, ln, _ in edges:
                lf.set_param_rule("length", edge=ename, value=ln, is_constant=True)
            for li, loc in enumerate(case["loci"]):
                lkw = {"locus": locus_names[li]} if nloci > 1 else {}
                for p in pars:
                    lf.set_param_rule(p, value=loc["params"][p], is_constant=True, **lkw)
                if loc["mprobs"] is not None:
                    lf.set_motif_probs(dict(loc["mprobs"]), is_constant=True, **lkw)
            for p, groups in case["scoped"].items():
                for grp, val in groups:
                    lf.set_param_rule(p, edges=list(grp), value=val, is_constant=True)
            if bins:
                lf.set_param_rule("bprobs", value=numpy.array(bins["bprobs"], float), is_constant=True)
                if config == "gamma":
                    lf.set_param_rule("rate_shape", value=bins["shape"], is_constant=True)
                elif config == "free":
                    lf.set_param_rule("rate_partition", value=numpy.array(bins["increments"], float), is_constant=True)
                elif config == "pgamma":
                    lf.set_param_rule(bins["par"] + "_factor_shape", value=bins["shape"], is_constant=True)
                elif config == "pfree":
                    lf.set_param_rule(bins["par"] + "_factor_partition", value=numpy.array(bins["increments"], float), is_constant=True)
                else:
                    for b, v in zip(bin_names, bins["values"]):
                        lf.set_param_rule(bins["par"], bin=b, value=v, is_constant=True)
            if case.get("expm"):
                lf.set_expm(case["expm"])

    ok, _ = s.call("set_param_rule", setup)
    if not ok:
        return s
    # motif probabilities are set before the alignment so that they are never estimated from (possibly all-degenerate) data
    ok, _ = s.call("set_alignment", lambda: lf.set_alignment(alns if nloci > 1 else alns[0]))
    if not ok:
        return s


    # ---------------------------------------------------------------- model
    prot_S = None
    fam = _family(name, user, space, gc)
    compat_cache = {}

    def compat(symb):
        if symb not in compat_cache:
            compat_cache[symb] = compatible(space, symb, gc)
        return compat_cache[symb]

    motifs = [str(m) for m in sm.get_motifs()]
    if sorted(motifs) != sorted(S):
        s.fail("alphabet", f"model states {motifs[:8]}… differ from the published state space ({len(motifs)} vs {n})")
        return s
    if space == "protein" and not user:
        prot_S = _protein_table(name, motifs)
        sym = all(abs(prot_S[i][j] - prot_S[j][i]) <= 1e-12 * max(1.0, abs(prot_S[i][j])) for i in range(n) for j in range(n))
        s.check(sym, f"protein-table-symmetric/{name}", "exchangeability table is not symmetric")

    def value_of(par, li, ename, b):
        v = case["loci"][li]["params"][par]
        for grp, val in case["scoped"].get(par, []):
            if ename in grp:
                v = val
        if bins and config == "binpar" and bins["par"] == par:
            v = bins["values"][b]
        if bins and config in ("pgamma", "pfree") and bins["par"] == par:
            v = v * float(pfactors[b])
        return v

    brates = [1.0] * nb
    pfactors = None
    if config == "gamma":
        brates = gamma_rates(bins["shape"], bins["bprobs"])
    elif config == "free":
        brates = free_rates(bins["increments"], bins["bprobs"])
    elif config == "pgamma":
        pfactors = gamma_rates(bins["shape"], bins["bprobs"])
    elif config == "pfree":
        pfactors = free_rates(bins["increments"], bins["bprobs"])
    bprobs = bins["bprobs"] if bins else [1.0]

    mkeys = mprob_keys(space, root_kind, gc)
    eigen_imprecise = False
    pending = []  # (leaf vectors, [P per bin], root distribution) per locus; pruned once the P error is known
    qcache = {}
    evals = 0
    unequal_pi = False
    for li, loc in enumerate(case["loci"]):
        mp = loc["mprobs"] if loc["mprobs"] is not None else {k: 1.0 / len(mkeys) for k in mkeys}
        unequal_pi = unequal_pi or len({round(v, 12) for v in mp.values()}) > 1
        root_pi = word_probs(space, pi_kind, mp, gc, root_kind)
        lkw = {"locus": locus_names[li]} if nloci > 1 else {}

        # motif probabilities as reported (the position-specific model reports per-position values: not compared)
        ok, gmp = (False, None) if root_kind == "monomers" else s.call("get_motif_probs", lambda: lf.get_motif_probs(**lkw))
        if ok:
            try:
                gd = {str(k): float(v) for k, v in gmp.to_dict().items()}
            except Exception as e:  # noqa: BLE001
                gd = None
                s.fail("get_motif_probs/shape", f"{type(e).__name__}: {e}")
            if gd is not None:
                bad = [(k, gd.get(k), mp[k]) for k in mkeys if gd.get(k) is None or abs(gd[k] - mp[k]) > 1e-12]
                s.check(not bad, "get_motif_probs/values", f"{name}: (motif, got, set) {bad[:3]}")

        leafvec = {}
        sidx = {x: i for i, x in enumerate(S)}
        for t in tips:
            m = numpy.zeros((ncols[li], n))
            for c, symb in enumerate(rows_by_locus[li][t]):
                for st_ in compat(symb):
                    m[c, sidx[st_]] = 1.0
            leafvec[t] = m

        P_bins = []
        for b in range(nb):
            P = {}
            for ename, ln, _ in edges:
                vals = tuple(value_of(p, li, ename, b) for p in pars)
                key = (li, vals)
                if key not in qcache:
                    preds = [(predicate_for(p, upreds, gc), v) for p, v in zip(pars, vals)]
                    qcache[key] = build_Q(space, pi_kind, mp, preds, prot_S, gc, root_kind)
                    # rate matrix clause, once per distinct parameter combination
                    bkw = {"bin": bin_names[b]} if bins else {}
                    ok, gq = s.call("get_rate_matrix_for_edge", lambda: lf.get_rate_matrix_for_edge(ename, calibrated=True, **bkw, **lkw))
                    if ok:
                        ok2, G = s.call("get_rate_matrix_for_edge/to_dict", _dictarray, gq, S)
                        if ok2:
                            W = qcache[key]
                            scale = float(numpy.abs(W).max())
                            err = numpy.abs(G - W)
                            s.notes["dQ"] = max(s.notes.get("dQ", 0.0), float(err.max()) / scale)
                            if not (err <= 1e-9 * scale).all():
                                i, j = numpy.unravel_index(int(numpy.argmax(err)), err.shape)
                                circ = _q_circumstance(space, pi_kind, S[i], S[j], pars, user, gc)
                                s.fail(
                                    f"rate-matrix/{fam}/{circ}",
                                    f"{name} edge {ename} q[{S[i]}->{S[j]}] got {float(G[i, j])!r} want {float(W[i, j])!r}; params {dict(zip(pars, vals))} mprobs {_brief(mp)}",
                                )
                            evals += 1
                Q = qcache[key]
                Pe = expm(Q * (ln * float(brates[b])))
                P[ename] = Pe
                # psub clause
                bkw = {"bin": bin_names[b]} if bins else {}
                ok, gp = s.call("get_psub_for_edge", lambda: lf.get_psub_for_edge(ename, **bkw, **lkw))
                if ok:
                    ok2, G = s.call("get_psub_for_edge/to_dict", _dictarray, gp, S)
                    if ok2:
                        err = numpy.abs(G - Pe)
                        s.notes["dP"] = max(s.notes.get("dP", 0.0), float(err.max()))
                        if not (err <= 2e-9).all():
                            i, j = numpy.unravel_index(int(numpy.argmax(err)), err.shape)
                            what = f"{name} edge {ename} length {ln} bin {b} rate {float(brates[b])!r}: P[{S[i]}->{S[j]}] got {float(G[i, j])!r} want {float(Pe[i, j])!r}"
                            # one root cause gets one signature: the default exponentiator accepts an ill-conditioned eigendecomposition
                            cond = float(numpy.linalg.cond(numpy.linalg.eig(Q)[1]))
                            if case.get("expm") is None and float(err.max()) <= 1e-6 and cond > 1e5:
                                eigen_imprecise = True
                                s.fail("psub/eigen-precision", what + f"; cond(eigenvectors of Q) = {cond:.3g}, params {dict(zip(pars, vals))}")
                            else:
                                s.fail(f"psub/{fam}" + ("/bins" if bins else ""), what)
                        evals += 1
            P_bins.append(P)
        pending.append((leafvec, P_bins, root_pi))

    # Pruning.  Every term of the sum-product is non-negative, so if each entry of P is known to within delta the column
    # likelihood L is known to within L(P + delta) - L(P).  delta is twice the largest deviation between the reported and the
    # harness P (itself limited to 2e-9 by the psub clause; 1e-6 when that clause already reported the eigen-precision
    # circumstance, so that one root cause gives one signature) or 1e-15; this bound is the floating-point allowance of the
    # lnL / column clauses, on top of 1e-9 relative.
    delta = 2.0 * max(1e-15, min(s.notes.get("dP", 0.0), 1e-6 if eigen_imprecise else 2e-9))
    total = 0.0
    slack_total = 0.0
    col_lh_by_locus = []
    col_slack_by_locus = []
    for leafvec, P_bins, root_pi in pending:
        col = sum(w * prune(tree, leafvec, P, root_pi) for w, P in zip(bprobs, P_bins))
        hi = sum(w * prune(tree, leafvec, {e: M + delta for e, M in P.items()}, root_pi) for w, P in zip(bprobs, P_bins))
        col_lh_by_locus.append(col)
        col_slack_by_locus.append(hi - col)
        total += float(numpy.log(col).sum())
        slack_total += float(((hi - col) / col).sum())

    # bin rates / per-bin factors of the ordered parameter as reported
    if config in ("gamma", "free", "pgamma", "pfree"):
        rname = "rate" if config in ("gamma", "free") else bins["par"] + "_factor"
        rwant = brates if config in ("gamma", "free") else pfactors
        for b in range(nb):
            ok, r = s.call("get_param_value(rate)", lambda: lf.get_param_value(rname, bin=bin_names[b]))
            if ok:
                s.close(r, float(rwant[b]), f"bin-rates/{config}", f"bins {bins} {rname} of {bin_names[b]}", rtol=1e-7)

    # ---------------------------------------------------------------- compare
    circ = _circumstance(config, m_polytomy(tree), nonrev, bool(case["scoped"]), len(tips))
    ok, lnL = s.call("lnL", lambda: lf.lnL)
    if ok:
        s.notes["dlnL"] = abs(float(lnL) - total) / max(1.0, abs(total))
        s.notes["lnL_margin"] = abs(float(lnL) - total) / (1e-9 * max(1.0, abs(total)) + 2.0 * slack_total)
        s.close(lnL, total, f"lnL/{fam}/{circ}", f"{name} {m_newick(tree)} config {config}", rtol=1e-9, atol=2.0 * slack_total)
        evals += 1
    for li in range(nloci):
        lkw = {"locus": locus_names[li]} if nloci > 1 else {}
        ok, fl = s.call("get_full_length_likelihoods", lambda: lf.get_full_length_likelihoods(**lkw))
        if not ok:
            continue
        try:
            fl = [float(x) for x in fl]
        except Exception as e:  # noqa: BLE001
            s.fail("get_full_length_likelihoods/shape", f"{type(e).__name__}: {e}")
            continue
        want = [float(x) for x in col_lh_by_locus[li]]
        slack = [float(x) for x in col_slack_by_locus[li]]
        if not s.eq(len(fl), len(want), "get_full_length_likelihoods/length", f"{name}"):
            continue
        s.notes["dcol"] = max([s.notes.get("dcol", 0.0)] + [abs(g - w) / abs(w) for g, w in zip(fl, want) if w > 0])
        s.notes["col_margin"] = max([s.notes.get("col_margin", 0.0)] + [abs(g - w) / (1e-9 * w + 2.0 * e) for g, w, e in zip(fl, want, slack) if w > 0])
        bad = [(c, g, w) for c, (g, w, e) in enumerate(zip(fl, want, slack)) if not abs(g - w) <= 1e-9 * abs(w) + 2.0 * e]
        if bad:
            c = bad[0][0]
            colsyms = [rows_by_locus[li][t][c] for t in tips]
            s.fail(f"column-likelihood/{fam}/{circ}", f"{name} column {c} {dict(zip(tips, colsyms))}: got {bad[0][1]!r} want {bad[0][2]!r} ({len(bad)} of {len(want)} columns differ)")
        evals += 1
        if allcols:
            s.close(sum(fl), 1.0, f"normalisation/{fam}/{circ}", f"{name} sum over all {len(fl)} columns", rtol=1e-9)
            s.close(sum(want), 1.0, "harness/normalisation", "oracle columns do not sum to one", rtol=1e-9)

    # ---------------------------------------------------------------- classes
    degenerate = (not allcols) and any(len(compat(x)) > 1 for rows in rows_by_locus for t in tips for x in rows[t])
    repeated = (not allcols) and any(len(loc["aln"]["order"]) > len(set(loc["aln"]["order"])) for loc in case["loci"])
    s.cls(f"model:{name}", f"family:{fam}", f"config:{config}", f"root-degree:{len(tree['kids'])}")
    if len(tips) <= 6:
        s.cls(f"tips:{len(tips)}")
    s.cls("polytomy" if m_polytomy(tree) else "binary")
    if case["scoped"]:
        s.cls("edge-scope")
    if bins:
        s.cls(f"bins:{nb}")
    if nonrev:
        s.cls("non-reversible")
    if degenerate:
        s.cls("degenerate-symbols")
    if repeated:
        s.cls("repeated-columns")
    if unequal_pi:
        s.cls("unequal-pi")
    if name == "user":
        s.cls("pi-term:" + pi_kind, "mprob-model:" + user.get("mprob_model", "tuple"), "user-" + space + ("-nonrev" if nonrev else "-rev"))
    if space == "codon":
        s.cls(f"gc:{gc or 1}", f"states:{n}")
    if len(tips) > 6:
        s.cls("tips:20-40")
    if case.get("expm"):
        s.cls("expm:" + case["expm"])
    s.cls("ArrayAlignment" if case["array_align"] else "Alignment")
    special = m_polytomy(tree) or bool(case["scoped"]) or bool(bins) or nonrev
    s.nontrivial = bool(unequal_pi and special and (degenerate or allcols))
    s.evals = max(1, evals)
    return s


def _brief(mp):
    items = list(mp.items())
    return {k: round(v, 5) for k, v in items[:6]}


def _family(name, user, space, gc=None):
    tag = "" if gc in (None, 1) else "+gc"  # a non-standard genetic code is its own circumstance
    if name != "user":
        return name + tag
    if space == "nuc":
        return "user-reversible" if user["reversible"] else "user-nonreversible"
    if space == "dinuc":
        return ("dinuc-" if user["reversible"] else "dinuc-nonrev-") + user["mprob_model"]
    if space == "codon":
        return ("codon-user-" if user["reversible"] else "codon-user-nonrev-") + user["mprob_model"] + tag
    return "protein-user-rev" if user["reversible"] else "protein-user-nonrev"


def _circumstance(config, poly, nonrev, scoped, ntips=3):
    parts = [config]
    if scoped and config != "scope":
        parts.append("scope")
    parts.append("two-tips" if ntips == 2 else ("polytomy" if poly else "binary"))
    if ntips > 6:
        parts.append("many-tips")
    return "+".join(parts)


def _q_circumstance(space, pi_kind, x, y, pars, user, gc=None):
    """which kind of cell of the rate matrix disagrees (names the predicates that hold there)"""
    if space == "protein" and not user:
        return "cell"
    L = len(x)
    diffs = [p for p in range(L) if x[p] != y[p]]
    if x == y:
        return "diagonal"
    if len(diffs) != 1:
        return "non-instantaneous"
    p = diffs[0]
    hold = [q for q in pars if predicate_for(q, user["preds"] if user else None, gc)(x, y, p, x[p], y[p])]
    if user:
        return "predicates:" + str(len(hold))
    return "predicates:" + ("&".join(hold) if hold else "none")


# ------------------------------------------------------------------ many tips
# Trees of hundreds of tips: the case holds a compact recipe (every choice is drawn by Hypothesis, the tree, the branch
# lengths and the columns are deterministic functions of it).  The oracle prunes in the log domain (every partial
# likelihood row is divided by its maximum after each node, the logs of the divisors are carried alongside), so it stays
# exact where a column likelihood is far below the smallest double.
BIG_NUC_MODELS = ["HKY85", "HKY85", "GTR", "TN93", "F81", "GN", "ssGN", "JC69"]
BIG_PROTEIN_MODELS = ["JTT92", "JTT92", "WG01", "DSO78", "AH96", "AH96_mtmammals"]
LOG_DOUBLE_SAFE = math.log(1e-300)  # column likelihoods above this are computed without any subnormal intermediate that matters
UNDERFLOW_TAG = "[column-likelihood-underflows-double]"


def big_tree(ntips, arity, ladder, root_deg, lengths, len_pattern):
    """nested-dict tree from a recipe: the first ``ladder`` tips form a comb, then adjacent nodes are joined round by round
    in groups whose sizes cycle through ``arity`` until at most ``root_deg`` nodes remain; edge k (creation order, tips
    first) has length lengths[len_pattern[k % len(len_pattern)]]"""
    count = [0]

    def ln():
        v = lengths[len_pattern[count[0] % len(len_pattern)]]
        count[0] += 1
        return v

    nodes = [{"name": f"t{i}", "len": ln(), "kids": []} for i in range(ntips)]
    k = 0
    if ladder >= 2:
        comb = nodes[0]
        for nd in nodes[1:ladder]:
            comb = {"name": f"n{k}", "len": ln(), "kids": [comb, nd]}
            k += 1
        nodes = [comb] + nodes[ladder:]
    g = 0
    while len(nodes) > root_deg:
        if len(nodes) <= 4:
            nodes = [{"name": f"n{k}", "len": ln(), "kids": nodes[:2]}] + nodes[2:]
            k += 1
            continue
        nxt = []
        i = 0
        while i < len(nodes):
            size = arity[g % len(arity)]
            g += 1
            grp = nodes[i : i + size]
            i += size
            if len(grp) == 1:
                nxt.append(grp[0])
            else:
                nxt.append({"name": f"n{k}", "len": ln(), "kids": grp})
                k += 1
        nodes = nxt
    return {"name": "root", "len": None, "kids": nodes}


def big_column(col, ntips):
    """symbol of every tip: runs of equal symbols (block), the motif repeated along the tips (cycle), or the first symbol
    everywhere except at every period-th tip, which takes the other symbols in turn (sparse)"""
    motif, kind = col["motif"], col["kind"]
    m = len(motif)
    if kind == "block":
        return [motif[(i * m) // ntips] for i in range(ntips)]
    if kind == "cycle" or m == 1:
        return [motif[i % m] for i in range(ntips)]
    period = col["period"]
    return [motif[1 + (i // period) % (m - 1)] if i % period == 0 else motif[0] for i in range(ntips)]


def prune_log(tree, leafvec, P, root_pi):
    """log of the per-column likelihoods, pruning with per-node rescaling"""
    import numpy

    def partial(nd):
        if not nd["kids"]:
            m = leafvec[nd["name"]]
            return m, numpy.zeros(m.shape[0])
        out, logscale = None, 0.0
        for k in nd["kids"]:
            m, ls = partial(k)
            up = m @ P[k["name"]].T
            out = up if out is None else out * up
            logscale = logscale + ls
        mx = out.max(axis=1)
        return out / mx[:, None], logscale + numpy.log(mx)

    m, ls = partial(tree)
    return numpy.log(m @ root_pi) + ls


@st.composite
def _big_symbol(draw, space):
    S = list(NUCS) if space == "nuc" else list(AAS)
    if draw(st.integers(0, 7)) > 0:
        return draw(st.sampled_from(S))
    return draw(st.sampled_from(list(NUC_DEGEN) if space == "nuc" else ["X", "-", "?", "B", "Z"]))


def _big_case(tier):
    thorough = tier == "thorough"

    @st.composite
    def build(draw):
        space = draw(st.sampled_from(["nuc", "protein"]))
        if space == "nuc":
            name = draw(st.sampled_from(BIG_NUC_MODELS))
            ntips = draw(st.integers(500, 1500 if thorough else 900))
        else:
            name = draw(st.sampled_from(BIG_PROTEIN_MODELS))
            ntips = draw(st.integers(150, 600 if thorough else 400))
        pars, _pi_kind, root_kind, equal, _nonrev = model_layout(name, None, space)
        arity = draw(st.sampled_from([[2], [2], [2, 3], [3], [2, 2, 4], [3, 2], [4, 2, 2, 2]]))
        nlen = draw(st.integers(1, 4))
        # short branches (a column likelihood stays inside the double range) or ordinary ones (it does not)
        hi = draw(st.sampled_from([-2.0, -1.0, -0.5, -0.3, 0.0, 0.2]))
        lengths = [min(10.0, max(1e-6, _sig(10.0 ** draw(st.floats(-3.0, hi))))) for _ in range(nlen)]
        case = {
            "model": name,
            "space": space,
            "ntips": ntips,
            "arity": arity,
            "ladder": draw(st.sampled_from([0, 0, 0, 5, 20, 40])),
            "root_deg": draw(st.sampled_from([2, 3, 3, 4])),
            "lengths": lengths,
            "len_pattern": [draw(st.integers(0, nlen - 1)) for _ in range(draw(st.integers(1, 7)))],
            "params": {p: draw(_rate_value()) for p in pars},
            "mprobs": draw(_probs(mprob_keys(space, root_kind), equal)),
        }
        cols = []
        for _ in range(draw(st.integers(1, 4))):
            m = draw(st.sampled_from([1, 2, 2, 3, 3, 4, 5, 6]))
            col = {"motif": [draw(_big_symbol(space)) for _ in range(m)], "kind": draw(st.sampled_from(["block", "cycle", "sparse", "sparse"]))}
            if col["kind"] == "sparse":
                col["period"] = draw(st.sampled_from([5, 7, 13, 29, 61]))
            cols.append(col)
        case["columns"] = cols
        case["config"] = draw(st.sampled_from(["plain", "gamma"]))
        if case["config"] == "gamma":
            nb = draw(st.integers(2, 3))
            case["bins"] = {"n": nb, "bprobs": draw(_bprobs(nb)), "shape": _sig(10.0 ** draw(st.floats(-1.0, 1.3)))}
        case["expm"] = draw(st.sampled_from([None, None, "pade"]))
        case["array_align"] = draw(st.booleans())
        return case

    return build()


def execute_big(case) -> Soft:
    import numpy
    from scipy.linalg import expm

    s = Soft("C02/bigtree/")
    name, space, ntips = case["model"], case["space"], case["ntips"]
    S = states_of(space)
    n = len(S)
    pars, pi_kind, root_kind, equal, nonrev = model_layout(name, None, space)
    tree = big_tree(ntips, case["arity"], case["ladder"], case["root_deg"], case["lengths"], case["len_pattern"])
    edges = m_edges(tree)
    tips = m_tips(tree)
    bins = case.get("bins")
    nb = bins["n"] if bins else 1
    bin_names = [f"bin{i}" for i in range(nb)] if bins else [None]
    config = case["config"]
    rows = {t: [] for t in tips}
    for col in case["columns"]:
        for t, symb in zip([f"t{i}" for i in range(ntips)], big_column(col, ntips)):
            rows[t].append(symb)
    ncol = len(case["columns"])

    # ---------------------------------------------------------------- real
    ok, sm = s.call("model", _get_sm, case)
    if not ok:
        return s

    def mk_lf():
        from cogent3 import make_aligned_seqs, make_tree

        rtree = make_tree(m_newick(tree))
        lf = sm.make_likelihood_function(rtree, **({"bins": nb} if bins else {}))
        with lf.updates_postponed():
            for ln in sorted({v for _, v, _ in edges}):  # only lengths in use (an empty edge list would mean every edge)
                lf.set_param_rule("length", edges=[e for e, v, _ in edges if v == ln], value=ln, is_constant=True)
            for p in pars:
                lf.set_param_rule(p, value=case["params"][p], is_constant=True)
            if case["mprobs"] is not None:
                lf.set_motif_probs(dict(case["mprobs"]), is_constant=True)
            if bins:
                lf.set_param_rule("bprobs", value=numpy.array(bins["bprobs"], float), is_constant=True)
                lf.set_param_rule("rate_shape", value=bins["shape"], is_constant=True)
            if case.get("expm"):
                lf.set_expm(case["expm"])
        aln = make_aligned_seqs({t: "".join(rows[t]) for t in tips}, moltype="protein" if space == "protein" else "dna", array_align=bool(case["array_align"]))
        lf.set_alignment(aln)
        return lf

    ok, lf = s.call("make_likelihood_function", mk_lf)
    if not ok:
        return s

    # ---------------------------------------------------------------- model
    mkeys = mprob_keys(space, root_kind)
    mp = case["mprobs"] if case["mprobs"] is not None else {k: 1.0 / len(mkeys) for k in mkeys}
    unequal_pi = len({round(v, 12) for v in mp.values()}) > 1
    root_pi = word_probs(space, pi_kind, mp, None, root_kind)
    prot_S = None
    if space == "protein":
        prot_S = _protein_table(name, [str(m) for m in sm.get_motifs()])
    preds = [(predicate_for(p), case["params"][p]) for p in pars]
    Q = build_Q(space, pi_kind, mp, preds, prot_S, None, root_kind)
    brates = gamma_rates(bins["shape"], bins["bprobs"]) if bins else [1.0]
    bprobs = bins["bprobs"] if bins else [1.0]
    evals = 0
    # one substitution matrix per distinct (length, bin); the reported one is compared on the first edge of that length
    Pl = {}
    first_edge = {}
    for ename, ln, _ in edges:
        first_edge.setdefault(ln, ename)
    for b in range(nb):
        for ln, ename in first_edge.items():
            Pe = expm(Q * (ln * float(brates[b])))
            Pl[(ln, b)] = Pe
            bkw = {"bin": bin_names[b]} if bins else {}
            ok, gp = s.call("get_psub_for_edge", lambda: lf.get_psub_for_edge(ename, **bkw))
            if ok:
                ok2, G = s.call("get_psub_for_edge/to_dict", _dictarray, gp, S)
                if ok2:
                    err = numpy.abs(G - Pe)
                    s.notes["dP"] = max(s.notes.get("dP", 0.0), float(err.max()))
                    if not (err <= 2e-9).all():
                        i, j = numpy.unravel_index(int(numpy.argmax(err)), err.shape)
                        s.fail(f"psub/{name}" + ("/bins" if bins else ""), f"{name} edge {ename} length {ln} bin {b}: P[{S[i]}->{S[j]}] got {float(G[i, j])!r} want {float(Pe[i, j])!r}")
                    evals += 1
    compat_cache = {}
    sidx = {x: i for i, x in enumerate(S)}
    leafvec = {}
    for t in tips:
        m = numpy.zeros((ncol, n))
        for c, symb in enumerate(rows[t]):
            if symb not in compat_cache:
                compat_cache[symb] = [sidx[x] for x in compatible(space, symb)]
            m[c, compat_cache[symb]] = 1.0
        leafvec[t] = m
    # floating-point allowance as in execute(): the effect of an entrywise error delta in every P, computed, not guessed
    delta = 2.0 * max(1e-15, min(s.notes.get("dP", 0.0), 2e-9))
    logs, logs_hi = [], []
    for b in range(nb):
        P = {ename: Pl[(ln, b)] for ename, ln, _ in edges}
        logs.append(prune_log(tree, leafvec, P, root_pi) + math.log(bprobs[b]))
        logs_hi.append(prune_log(tree, leafvec, {e: M + delta for e, M in P.items()}, root_pi) + math.log(bprobs[b]))
    logcol = numpy.logaddexp.reduce(numpy.array(logs), axis=0)
    logcol_hi = numpy.logaddexp.reduce(numpy.array(logs_hi), axis=0)
    slack_rel = numpy.expm1(logcol_hi - logcol)  # relative allowance per column
    total = float(logcol.sum())
    slack_total = float(slack_rel.sum())
    underflow = bool(float(logcol.min()) < LOG_DOUBLE_SAFE)
    s.notes["lnL_oracle"] = total
    s.notes["min_logcol"] = float(logcol.min())

    # ---------------------------------------------------------------- compare
    poly = m_polytomy(tree)
    circ = config + "+" + ("polytomy" if poly else "binary")
    ok, lnL = s.call("lnL", lambda: lf.lnL)
    if ok:
        s.notes["dlnL"] = abs(float(lnL) - total) / max(1.0, abs(total)) if math.isfinite(float(lnL)) else float("inf")
        # a column whose likelihood is below the double range: one root cause, one signature
        sig = "lnL" + UNDERFLOW_TAG if underflow else f"lnL/{name}/{circ}"
        s.close(lnL, total, sig, f"{name} {ntips} tips, {ncol} columns, smallest column log-likelihood {float(logcol.min()):.2f}, config {config}", rtol=1e-9, atol=2.0 * slack_total)
        evals += 1
    ok, fl = s.call("get_full_length_likelihoods", lambda: lf.get_full_length_likelihoods())
    if ok:
        try:
            fl = [float(x) for x in fl]
        except Exception as e:  # noqa: BLE001
            s.fail("get_full_length_likelihoods/shape", f"{type(e).__name__}: {e}")
            fl = None
        if fl is not None and s.eq(len(fl), ncol, "get_full_length_likelihoods/length", name):
            # only columns whose likelihood a double can hold (the array cannot report the others; lnL could)
            bad = []
            for c, g in enumerate(fl):
                if logcol[c] < LOG_DOUBLE_SAFE:
                    continue
                w = math.exp(float(logcol[c]))
                if not abs(g - w) <= w * (1e-9 + 2.0 * float(slack_rel[c]) + 4e-16 * abs(float(logcol[c]))):
                    bad.append((c, g, w))
            if bad:
                s.fail(f"column-likelihood/{name}/{circ}", f"{name} {ntips} tips column {bad[0][0]} {case['columns'][bad[0][0]]}: got {bad[0][1]!r} want {bad[0][2]!r} ({len(bad)} of {ncol} columns differ)")
            evals += 1

    # ---------------------------------------------------------------- classes
    degenerate = any(len(compat_cache[x]) > 1 for x in compat_cache)
    s.cls(f"model:{name}", f"config:{config}", f"root-degree:{len(tree['kids'])}", "polytomy" if poly else "binary")
    s.cls("tips:150-400" if ntips <= 400 else "tips:401-900" if ntips <= 900 else "tips:901+")
    s.cls("column-likelihood-below-double-range" if underflow else "column-likelihoods-in-double-range")
    if case["ladder"]:
        s.cls("comb-part")
    if degenerate:
        s.cls("degenerate-symbols")
    if unequal_pi:
        s.cls("unequal-pi")
    if nonrev:
        s.cls("non-reversible")
    if case.get("expm"):
        s.cls("expm:" + case["expm"])
    s.cls("ArrayAlignment" if case["array_align"] else "Alignment")
    s.nontrivial = bool(unequal_pi and (degenerate or poly or bins or nonrev))
    s.evals = max(1, evals)
    return s


SUBS = [
    Sub("nuc", execute, strategy=lambda tier: _general_case("nuc", big=(tier == "thorough")), quick=1100, thorough=16 * 1500, shards_quick=16, weight=1.0),
    Sub("dinuc", execute, strategy=_general_case("dinuc"), quick=240, thorough=16 * 300, shards_quick=8, weight=2.0),
    Sub("codon", execute, strategy=_general_case("codon"), quick=160, thorough=16 * 200, shards_quick=16, weight=8.0),
    Sub("protein", execute, strategy=_general_case("protein"), quick=96, thorough=16 * 100, shards_quick=8, weight=2.0),
    Sub("norm", execute, strategy=_general_case("nuc", allcols=True), quick=240, thorough=16 * 200, shards_quick=8, weight=1.0),
    Sub("normw", execute, strategy=_general_case(["dinuc", "dinuc", "protein", "protein", "codon"], allcols=True), quick=64, thorough=16 * 60, shards_quick=8, weight=4.0),
    Sub("bigtree", execute_big, strategy=_big_case, quick=24, thorough=16 * 20, shards_quick=12, weight=40.0),
]

KNOWN_PREDICATES = {}

META = {
    "technique": "Hypothesis-generated trees, alignments, models (registered ones, genetic-code variants, predicate-built ones), parameter values and scoping/bin/locus "
    "configurations; differential against a first-principles re-implementation (rate matrices from predicates and motif-probability terms, genetic-code tables pinned in "
    "the harness, scipy expm, Felsenstein pruning with multifurcations and ambiguity sets, bin mixtures) written in the check",
    "level_text": "Each run builds several hundred likelihood functions over every registered continuous-time model, codon models under seven genetic codes, and generated "
    "nucleotide / dinucleotide / codon / protein predicate models, and compares parameter names, every edge's calibrated rate matrix and substitution matrix, every column "
    "likelihood and lnL with the harness computation (lnL at 1e-9 relative); all possible columns of small trees (4, 16, 20 and 60-64 states) must have likelihoods summing to one; "
    "two dozen trees of 150-900 tips (nucleotide and protein models, plain and gamma bins) are compared with a log-domain pruning that does not underflow.",
    "level_note": "Trusts the harness oracle (about 300 lines), the pinned NCBI code strings and scipy's expm / gamma quantiles. Bounded to 6 tips (40 for nucleotide models in "
    "the thorough tier) and 15 columns, except for the bigtree sub-check (regular recipe-built trees of 150-1500 tips, registered nucleotide / protein models, 1-4 columns); empirical protein exchangeabilities are taken as data from the library; time-heterogeneous motif probabilities, discrete-time "
    "edges, the site-HMM (sites_independent=False), partitioned_params other than the ordered one, trinucleotide models and new-type alignments (unreachable at this commit) "
    "are not generated.",
    "design_ref": "DESIGN.md section 1, C02",
}
