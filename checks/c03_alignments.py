"""C03 — alignment and collection operations equal the same operations on the (gapped) strings.

Oracle: an ordered dict name -> gapped Python string on which every operation
is re-implemented from its docstring.  Sub-check ``histories`` applies the same
history to the annotatable ``Alignment`` and the array-backed ``ArrayAlignment``;
sub-check ``collections`` applies histories to the unaligned ``SequenceCollection``
of the old style (cogent3.core.alignment) and of the new style
(cogent3.core.new_alignment, ``make_unaligned_seqs(..., new_type=True)``).
"""

from __future__ import annotations

import copy as _copy
import math

import numpy
from hypothesis import strategies as st

from vlib.core import Soft, Sub

PROPERTY_ID = "C03"
LEVEL = "exploration"
RULE = (
    "A case is a generated alignment (1-5 rows, 1-30 columns; DNA/RNA/protein with gaps, '?', degenerate symbols - the full IUPAC "
    "set for nucleic acids; rows with leading/trailing gap runs and all-gap columns) and a history of 1-6 operations drawn from "
    "in-range slicing, integer column indexing aln[i] for -len <= i < len, rc, take_seqs, "
    "take_positions(+negate), take_positions_if, omit_gap_pos, no_degenerates, get_degapped_relative_to, sample with given "
    "indices, concatenation (with a second alignment of the same or of the other class, or with itself), to_type, to_dna/to_rna, with_gaps_from, copy/deepcopy and "
    "a final degap. The history is applied to both alignment classes and to the row model; after each step names, length, "
    "to_dict, gapped and degapped rows are compared, and read-only methods of the result are compared with a fresh object built "
    "from the result's rows. Non-trivial = history of >= 2 operations on the annotatable class containing a slice or rc followed "
    "by a column operation, or a slice boundary inside a gap run; distinct = distinct case encodings. "
    "Sub-check collections: a case is a generated unaligned collection (2-5 named rows in arbitrary name order, each 0-14 symbols, "
    "ragged or equal length, DNA/RNA/protein with '-', '?' and degenerate symbols, duplicated rows with raised probability) and a "
    "history of 1-6 operations drawn from rc/reverse_complement, take_seqs (list or single string, negate, selections that keep "
    "nothing), take_seqs_if (by length / by containing a character, negate), rename_seqs (rotation of the existing names or fresh "
    "names, always injective), to_dna/to_rna/to_moltype, degap, add_seqs (new rows as collection or dict, before_name/after_name, "
    "a clashing name with probability 1/8), pad_seqs (default, exact, longer, too short), copy/deepcopy, and conversion to an "
    "alignment of either class (factory on to_dict()) and back with degap when the rows have equal non-zero length. The history is "
    "applied to the old-style and to the new-style collection and to the row model; after every step names (order), num_seqs, "
    "to_dict (content and key order), get_lengths, is_ragged, moltype label and str(get_seq(name)) of every row are compared, the "
    "receiver of every operation must still hold its rows, and 15 read-only calls on the final object are compared with the same "
    "calls on a collection built from the model rows. Non-trivial = on either style an executed rc or moltype conversion is "
    "followed by a further executed operation (the reversal / new alphabet has to be carried along)."
)
ASSUMPTIONS = [
    "slice bounds are in range (-len <= a < b <= len) and unit stride: the annotatable class documents NotImplementedError for strides; out-of-range slicing of sequences is C01",
    "omit_gap_pos / no_degenerates return None when nothing remains (documented); the history ends there",
    "aln[i] with an integer is a one-column alignment {name: row[i]} (cookbook 'Getting a single column from an alignment'); negative i counts from the end as for the documented negative slice bounds and as the array-backed class (numpy) does; |i| beyond the length is not generated",
    "aln + other with other of the other alignment class: __add__ ('Concatenates sequence data for same names') builds self.__class__, so the rows are the concatenated rows and the class is that of the left operand; both operands carry the same moltype",
    "gap characters for omit_gap_pos are the moltype's gaps ('-' and '?'); get_degapped_relative_to and no_degenerates(allow_gap) use '-' only (as implemented and pinned by tests)",
    "sample is driven through its randint/permutation arguments with indices chosen by the generator",
    "collections: degap removes '-' and '?' on both styles (test_degap / test_sequence_collection_degap: 'ATGRY?' -> 'ATGRY'); the same holds for Alignment.degap used on the way back from an alignment",
    "collections: get_lengths() counts canonical characters only (docstring; test_get_lengths: 'CCCGGG--NN' -> 6); when no row holds any canonical character both styles raise ValueError('Must provide data') from the profile constructor, on the result and on a fresh object alike - allowed, recorded as a coverage class, noted in the findings file as an observation",
    "collections: take_seqs keeps the order of the given names, negate keeps the collection order (tests of both styles); a selection that keeps nothing returns {} on the old style (source comment 'safe value', test_take_seqs_if) and raises ValueError on the new style (test_sequence_collection_take_seqs_empty_names, ..._take_seqs_if); unknown or repeated names are not generated (KeyError on the old style, silently dropped on the new style, neither documented)",
    "collections: rename maps are injective (a clash silently drops rows on both styles; undocumented, outside the domain)",
    "collections: add_seqs - the old style is given a collection of its own class (its docstring says 'same class as self or coerceable', a dict of strings fails an assert) and honours before_name/after_name (before_name wins when both are given, docstring); the new style has no position arguments, so there the rows are appended and the model of that style appends; a clashing name must raise ValueError on the new style (test_sequence_collection_add_seqs_duplicate_raises) and is skipped on the old style (ValueError('duplicate names') comes from the constructor, add_seqs itself documents nothing)",
    "collections: pad_seqs pads with '-' at the end of the displayed row (tests of both styles) and raises ValueError for pad_length below the longest row (tests of both styles)",
    "collections: copy/deepcopy exist on the old style only; rc and DNA/RNA conversion are generated for nucleic acid collections only (protein rc raises TypeError on the old style and merely reverses on the new style - not part of the property); to_dna on DNA / to_rna on RNA is generated and must leave the rows alone (both styles return self)",
    "collections: the new style offers no alignment class through make_aligned_seqs, so 'to an alignment and back' goes through the old-style Alignment/ArrayAlignment built from to_dict() for both styles, and the new-style collection is rebuilt from the degapped rows",
]

# nucleic acid rows draw from the full IUPAC set of degenerate symbols (N last: the collections sub-check uses degen[-1])
ALPH = {
    "dna": ("ACGT", "ACGTRYMKWSBDHVN", "-", "?"),
    "rna": ("ACGU", "ACGURYMKWSBDHVN", "-", "?"),
    "protein": ("ACDEFGHIKLMNPQRSTVWY", "ACDEFGHIKLMNPQRSTVWYBXZ", "-", "?"),
}
DNA_COMP = dict(zip("ACGTRYMKWSBDHVN-?", "TGCAYRKMWSVHDBN-?"))
RNA_COMP = dict(zip("ACGURYMKWSBDHVN-?", "UGCAYRKMWSVHDBN-?"))


def comp(s, mt):
    t = DNA_COMP if mt == "dna" else RNA_COMP
    return "".join(t[c] for c in s)


# ------------------------------------------------------------------ model
def m_apply(rows: dict, mt: str, op: dict):
    """returns (new rows | None, new moltype); rows is an ordered dict"""
    kind = op["op"]
    names = list(rows)
    L = len(next(iter(rows.values()))) if rows else 0
    if kind == "slice":
        return {n: s[op["a"] : op["b"]] for n, s in rows.items()}, mt
    if kind == "rc":
        return {n: comp(s, mt)[::-1] for n, s in rows.items()}, mt
    if kind == "take_seqs":
        sel = op["names"]
        if op["negate"]:
            return {n: rows[n] for n in names if n not in sel}, mt
        return {n: rows[n] for n in sel}, mt
    if kind == "take_positions":
        cols = op["cols"]
        if op["negate"]:
            keep = [i for i in range(L) if i not in set(cols)]
        else:
            keep = cols
        return {n: "".join(s[i] for i in keep) for n, s in rows.items()}, mt
    if kind == "take_positions_if":
        keep = [i for i in range(L) if all(s[i] != "-" for s in rows.values()) != op["negate"]]
        return {n: "".join(s[i] for i in keep) for n, s in rows.items()}, mt
    if kind in ("omit_gap_pos", "no_degenerates"):
        m = op["motif"]
        nm = L // m
        keep = []
        canon = ALPH[mt][0]
        for j in range(nm):
            block = [s[j * m : (j + 1) * m] for s in rows.values()]
            if kind == "omit_gap_pos":
                num_gap = sum(b.count("-") + b.count("?") for b in block)
                ok = num_gap / (len(block) * m) <= op["frac"]
            else:
                allowed = set(canon) | ({"-"} if op["allow_gap"] else set())
                ok = all(c in allowed for b in block for c in b)
            if ok:
                keep.extend(range(j * m, (j + 1) * m))
        if not keep:
            return None, mt
        return {n: "".join(s[i] for i in keep) for n, s in rows.items()}, mt
    if kind == "degapped_relative_to":
        ref = rows[op["name"]]
        keep = [i for i in range(L) if ref[i] != "-"]
        return {n: "".join(s[i] for i in keep) for n, s in rows.items()}, mt
    if kind == "sample":
        m = op["motif"]
        return {n: "".join(s[k * m : (k + 1) * m] for k in op["locs"]) for n, s in rows.items()}, mt
    if kind in ("add", "add_other_class"):
        other = op["other"]
        return {n: rows[n] + other[n] for n in names}, mt
    if kind == "column":
        i = op["i"]
        return {n: s[i] for n, s in rows.items()}, mt
    if kind == "add_self":
        return {n: rows[n] + rows[n] for n in names}, mt
    if kind in ("to_array", "to_annotatable", "copy", "deepcopy"):
        return dict(rows), mt
    if kind == "to_rna":
        return {n: s.replace("T", "U") for n, s in rows.items()}, "rna"
    if kind == "to_dna":
        return {n: s.replace("U", "T") for n, s in rows.items()}, "dna"
    if kind == "with_gaps_from":
        t = op["template"]
        return {n: "".join("-" if t[n][i] == "-" else s[i] for i in range(L)) for n, s in rows.items()}, mt
    raise ValueError(kind)


# -------------------------------------------------------------- generator
@st.composite
def row_st(draw, mt, L):
    canon, degen, gap, q = ALPH[mt]
    lead = draw(st.integers(0, min(3, L))) if draw(st.booleans()) else 0
    trail = draw(st.integers(0, min(3, L - lead))) if draw(st.booleans()) else 0
    mid = L - lead - trail
    weights = canon * 6 + degen + gap * 5 + q
    body = "".join(draw(st.lists(st.sampled_from(weights), min_size=mid, max_size=mid)))
    return "-" * lead + body + "-" * trail


@st.composite
def aln_st(draw, mt, nrows, L, names=None):
    names = names or [f"s{i}" for i in range(nrows)]
    rows = {n: draw(row_st(mt, L)) for n in names}
    # all-gap columns with raised probability
    if L and draw(st.booleans()):
        c = draw(st.integers(0, L - 1))
        rows = {n: s[:c] + "-" + s[c + 1 :] for n, s in rows.items()}
    return rows


@st.composite
def histories(draw):
    mt = draw(st.sampled_from(["dna", "dna", "rna", "protein"]))
    nrows = draw(st.integers(1, 5))
    L = draw(st.integers(1, 30))
    rows = draw(aln_st(mt, nrows, L))
    start_array = draw(st.booleans())
    depth = draw(st.integers(1, 6))
    ops = []
    cur, cur_mt = rows, mt
    for _ in range(depth):
        names = list(cur)
        L = len(cur[names[0]])
        kinds = ["slice"] * 4 + ["take_seqs", "take_positions", "take_positions", "take_positions_if", "omit_gap_pos", "omit_gap_pos",
                                 "no_degenerates", "degapped_relative_to", "sample", "add", "add_self", "to_array", "to_annotatable",
                                 "copy", "deepcopy", "with_gaps_from", "column", "column", "add_other_class"]
        if cur_mt in ("dna", "rna"):
            kinds += ["rc", "rc", "rc", "to_rna" if cur_mt == "dna" else "to_dna"]
        kind = draw(st.sampled_from(kinds))
        op = {"op": kind}
        if kind == "slice":
            if L < 1:
                break
            a = draw(st.integers(0, L - 1))
            b = draw(st.integers(a + 1, L))
            # python spellings
            if draw(st.booleans()) and a > 0:
                sa = a - L
            else:
                sa = a if (a or draw(st.booleans())) else None
            if draw(st.booleans()) and b < L:
                sb = b - L
            else:
                sb = b if (b < L or draw(st.booleans())) else None
            op.update(a=sa, b=sb)
        elif kind == "take_seqs":
            k = draw(st.integers(1, len(names)))
            sel = draw(st.permutations(names))[:k]
            neg = draw(st.booleans())
            if neg and k == len(names):
                neg = False
            op.update(names=list(sel), negate=neg)
        elif kind == "take_positions":
            if L < 1:
                break
            k = draw(st.integers(1, L))
            cols = draw(st.permutations(list(range(L))))[:k]
            neg = draw(st.booleans())
            if neg and k == L:
                neg = False
            if draw(st.booleans()):
                cols = sorted(cols)
            op.update(cols=list(cols), negate=neg)
        elif kind == "take_positions_if":
            op.update(negate=draw(st.booleans()))
        elif kind == "omit_gap_pos":
            op.update(motif=draw(st.sampled_from([1, 1, 2, 3])), frac=draw(st.sampled_from([1 - 1e-6, 0.0, 0.34, 0.5, 0.75])))
        elif kind == "no_degenerates":
            op.update(motif=draw(st.sampled_from([1, 1, 2, 3])), allow_gap=draw(st.booleans()))
        elif kind == "degapped_relative_to":
            op.update(name=draw(st.sampled_from(names)))
        elif kind == "sample":
            m = draw(st.sampled_from([1, 1, 2, 3]))
            pop = L // m
            if pop < 1:
                continue
            wr = draw(st.booleans())
            if wr:
                n = draw(st.integers(1, pop + 2))
                locs = draw(st.lists(st.integers(0, pop - 1), min_size=n, max_size=n))
            else:
                n = draw(st.integers(1, pop))
                locs = list(draw(st.permutations(list(range(pop)))))
            op.update(motif=m, with_replacement=wr, n=n, locs=locs[:n] if wr else locs[:n], perm=locs)
        elif kind == "column":
            if L < 1:
                break
            # an integer index -L .. L-1; the two ends in both spellings with raised probability
            i = draw(st.sampled_from([0, -1, L - 1, -L])) if draw(st.booleans()) else draw(st.integers(-L, L - 1))
            op.update(i=i)
        elif kind in ("add", "add_other_class"):
            L2 = draw(st.integers(1, 8))
            other = draw(aln_st(cur_mt, len(names), L2, names=names))
            op.update(other=other)
        elif kind == "with_gaps_from":
            if L < 1:
                break
            op.update(template=draw(aln_st(cur_mt, len(names), L, names=names)))
        new, new_mt = m_apply(cur, cur_mt, op)
        ops.append(op)
        if new is None or not new or len(next(iter(new.values()))) == 0:
            break
        cur, cur_mt = new, new_mt
    return {"mt": mt, "rows": rows, "array": start_array, "ops": ops, "degap": draw(st.booleans())}


# ---------------------------------------------------------------- execute
def build(rows, mt, array):
    from cogent3 import make_aligned_seqs

    return make_aligned_seqs(dict(rows), moltype=mt, array_align=array)


def r_apply(aln, op, mt):
    """the same operation on a real alignment"""
    from cogent3 import make_aligned_seqs

    kind = op["op"]
    if kind == "slice":
        return aln[op["a"] : op["b"]]
    if kind == "rc":
        return aln.rc()
    if kind == "take_seqs":
        return aln.take_seqs(op["names"], negate=op["negate"])
    if kind == "take_positions":
        return aln.take_positions(op["cols"], negate=op["negate"])
    if kind == "take_positions_if":
        return aln.take_positions_if(lambda col: all(str(c) != "-" for c in col), negate=op["negate"])
    if kind == "omit_gap_pos":
        return aln.omit_gap_pos(allowed_gap_frac=op["frac"], motif_length=op["motif"])
    if kind == "no_degenerates":
        return aln.no_degenerates(motif_length=op["motif"], allow_gap=op["allow_gap"])
    if kind == "degapped_relative_to":
        return aln.get_degapped_relative_to(op["name"])
    if kind == "sample":
        locs, perm = op["locs"], op["perm"]
        return aln.sample(
            n=op["n"],
            with_replacement=op["with_replacement"],
            motif_length=op["motif"],
            randint=lambda lo, hi, n: numpy.array(locs),
            permutation=lambda n: numpy.array(perm),
        )
    if kind == "add":
        other = make_aligned_seqs(dict(op["other"]), moltype=mt, array_align=type(aln).__name__ == "ArrayAlignment")
        return aln + other
    if kind == "add_other_class":
        # the right operand is of the other alignment class; the result is documented to be of the class of self
        other = make_aligned_seqs(dict(op["other"]), moltype=mt, array_align=type(aln).__name__ != "ArrayAlignment")
        return aln + other
    if kind == "add_self":
        return aln + aln
    if kind == "column":
        return aln[op["i"]]
    if kind == "to_array":
        return aln.to_type(array_align=True)
    if kind == "to_annotatable":
        return aln.to_type(array_align=False)
    if kind == "copy":
        return aln.copy()
    if kind == "deepcopy":
        return aln.deepcopy() if hasattr(aln, "deepcopy") else _copy.deepcopy(aln)
    if kind == "to_rna":
        return aln.to_rna()
    if kind == "to_dna":
        return aln.to_dna()
    if kind == "with_gaps_from":
        tmpl = make_aligned_seqs(dict(op["template"]), moltype=mt, array_align=False)
        return aln.with_gaps_from(tmpl)
    raise ValueError(kind)


def observe(s: Soft, tag, aln, rows, what):
    names = list(rows)
    L = len(rows[names[0]])
    ok, got_names = s.call(tag + "/names", lambda: list(aln.names))
    if ok and not s.eq(got_names, names, tag + "/names", what):
        return False
    ok, n = s.call(tag + "/len", len, aln)
    if ok:
        s.eq(n, L, tag + "/len", what)
    ok, d = s.call(tag + "/to_dict", aln.to_dict)
    if ok:
        if not s.eq(d, dict(rows), tag + "/to_dict", what):
            return False
        s.check(len({len(v) for v in d.values()}) <= 1, tag + "/ragged", f"{what}: {d}")
    for nme in names[:3]:
        ok, g = s.call(tag + "/get_gapped_seq", lambda: str(aln.get_gapped_seq(nme)))
        if ok:
            s.eq(g, rows[nme], tag + "/get_gapped_seq", f"{what}: row {nme}")
        if type(aln).__name__ == "Alignment":
            ok, g = s.call(tag + "/get_seq", lambda: str(aln.get_seq(nme)))
            if ok:
                s.eq(g, rows[nme].replace("-", ""), tag + "/get_seq", f"{what}: row {nme}")
    return True


METHODS = [
    ("counts", {}), ("counts_per_seq", {}), ("counts_per_pos", {}), ("get_lengths", {}), ("variable_positions", {}),
    ("get_gap_array", {}), ("count_gaps_per_pos", {}), ("count_gaps_per_seq", {}), ("iupac_consensus", {}),
    ("majority_consensus", {}), ("to_fasta", {}), ("to_phylip", {}), ("is_ragged", {}), ("get_ambiguous_positions", {}),
    ("get_identical_sets", {}), ("counts_per_seq", {"motif_length": 2}), ("probs_per_pos", {}), ("entropy_per_pos", {}),
]


def norm(x, depth=0):
    if depth > 6:
        return repr(x)
    if isinstance(x, (str, int, bool, type(None))):
        return x
    if isinstance(x, float):
        return "nan" if math.isnan(x) else round(x, 12)
    if isinstance(x, numpy.generic):
        return norm(x.item(), depth + 1)
    if isinstance(x, numpy.ndarray):
        return norm(x.tolist(), depth + 1)
    if isinstance(x, dict):
        return sorted((repr(norm(k, depth + 1)), norm(v, depth + 1)) for k, v in x.items())
    if isinstance(x, (set, frozenset)):
        return sorted(repr(norm(y, depth + 1)) for y in x)
    if isinstance(x, (list, tuple)):
        return [norm(y, depth + 1) for y in x]
    if hasattr(x, "to_dict"):
        try:
            return norm(x.to_dict(), depth + 1)
        except Exception:  # noqa: BLE001
            pass
    if hasattr(x, "array") and hasattr(x, "template"):
        return norm(x.array, depth + 1)
    return str(x)


def method_differential(s: Soft, tag, aln, rows, mt, what):
    array = type(aln).__name__ == "ArrayAlignment"
    ok, fresh = s.call(tag + "/fresh", build, rows, mt, array)
    if not ok:
        return
    for name, kw in METHODS:
        res = []
        for obj in (aln, fresh):
            try:
                res.append(("ok", norm(getattr(obj, name)(**kw))))
            except Exception as e:  # noqa: BLE001
                res.append(("raises", type(e).__name__))
        if res[0] != res[1]:
            s.fail(f"{tag}/method:{name}", f"{what}: {name}({kw}) on result -> {str(res[0])[:200]}; on fresh object with the same rows -> {str(res[1])[:200]}")


def exec_history(case) -> Soft:
    s = Soft("C03/")
    mt0 = case["mt"]
    rows0 = dict(case["rows"])
    results = {}
    for cls_name, array in (("Alignment", False), ("ArrayAlignment", True)):
        start_array = case["array"] if cls_name == "Alignment" else not case["array"]
        # both classes are exercised: one history starts as given, the other as the opposite class
        del start_array
        tag0 = cls_name
        ok, aln = s.call(tag0 + "/construct", build, rows0, mt0, array)
        if not ok:
            continue
        rows, mt = rows0, mt0
        observe(s, tag0 + "/fresh", aln, rows, f"fresh {cls_name} {rows0}")
        hist = []
        nontriv = False
        for i, op in enumerate(case["ops"]):
            kind = op["op"]
            cur_cls = type(aln).__name__
            if kind == "with_gaps_from" and cur_cls != "Alignment":
                continue  # method of the annotatable class only
            cur_L = len(next(iter(rows.values()))) if rows else 0
            if (
                (kind == "take_positions" and any(c >= cur_L for c in op["cols"]))
                or (kind == "column" and not -cur_L <= op["i"] < cur_L)
                or (kind == "sample" and any((k + 1) * op["motif"] > cur_L for k in list(op["locs"]) + list(op["perm"])))
            ):
                # columns were drawn for the history as generated; this class skipped a step
                # (with_gaps_from) and has fewer columns left
                s.cls("op-skipped:columns-beyond-current-length")
                continue
            new_rows, new_mt = m_apply(rows, mt, op)
            what = f"{cur_cls} history {hist + [ _brief(op) ]} from {rows0}"
            tag = f"{cur_cls}/{kind}"
            if kind == "take_positions" and op["negate"]:
                tag += "[negate]"
            if kind == "column" and op["i"] < 0:
                # circumstance tags: the last column spelled -1 is the one spelling whose naive slice [i:i+1] ends at 0
                tag += "[minus-one]" if op["i"] == -1 else "[negative]"
            ok, res = s.call(tag, r_apply, aln, op, mt)
            if not ok:
                break
            hist.append(_brief(op))
            if new_rows is None:
                s.check(res is None, tag + "/expected-None", f"{what}: model keeps no column, got {res!r}"[:300])
                break
            if res is None or isinstance(res, dict):
                s.fail(tag + "/unexpected-None", f"{what}: returned {res!r}, model has {new_rows}")
                break
            L_new = len(next(iter(new_rows.values()))) if new_rows else 0
            if not new_rows or L_new == 0:
                break
            if not observe(s, tag, res, new_rows, what):
                break
            if kind == "add_other_class":
                s.eq(type(res).__name__, cur_cls, tag + "/class", what)
            # non-triviality
            if cur_cls == "Alignment" and i >= 1:
                prev = [h.split("(")[0] for h in hist[:-1]]
                if ("slice" in prev or "rc" in prev) and kind in ("take_positions", "take_positions_if", "omit_gap_pos", "no_degenerates", "degapped_relative_to", "sample"):
                    nontriv = True
            if kind == "slice" and cur_cls == "Alignment":
                L = len(next(iter(rows.values())))
                a = op["a"] or 0
                b = op["b"] if op["b"] is not None else L
                a = a + L if a < 0 else a
                b = b + L if b < 0 else b
                for r in rows.values():
                    if (0 < a < L and r[a - 1] == "-" and r[a] == "-") or (0 < b < L and r[b - 1] == "-" and r[b] == "-"):
                        nontriv = True
                        s.cls("slice-inside-gap-run")
            aln, rows, mt = res, new_rows, new_mt
            s.cls(f"op:{kind}")
        else:
            pass
        if aln is not None and rows:
            method_differential(s, f"{type(aln).__name__}/final", aln, rows, mt, f"after {hist} from {rows0}")
            if case.get("degap"):
                ok, dg = s.call(f"{type(aln).__name__}/degap", aln.degap)
                if ok:
                    ok, d = s.call(f"{type(aln).__name__}/degap/to_dict", dg.to_dict)
                    if ok:
                        want = {n: r.replace("-", "").replace("?", "") for n, r in rows.items()}
                        s.eq(d, want, f"{type(aln).__name__}/degap/to_dict", f"after {hist} from {rows0}")
        results[cls_name] = nontriv
    s.nontrivial = any(results.values())
    s.cls(mt0)
    return s


def _brief(op):
    k = op["op"]
    if k == "slice":
        return f"slice({op['a']},{op['b']})"
    if k in ("add", "add_other_class", "with_gaps_from"):
        return f"{k}(…)"
    return k + "(" + ",".join(f"{a}={v}" for a, v in op.items() if a not in ("op", "perm")) + ")"


# ====================================================================== collections
# Second sub-check: unaligned SequenceCollection, old style (cogent3.core.alignment) and new style
# (cogent3.core.new_alignment).  A case keeps rows / added rows / rename maps as lists of pairs because the
# runner normalises cases through JSON with sorted keys (row order matters here).

C_NAMES = ["s0", "s1", "s2", "s3", "s4", "a", "B", "x1"]
C_FRESH = ["n0", "n1", "N2", "z", "r0", "R1", "q_2"]
C_STYLES = ("old", "new")


def c_pred(pred):
    """predicate over a sequence object / a model string (both support len() and str())"""
    if pred["kind"] == "minlen":
        k = pred["k"]
        return lambda x: len(x) >= k
    if pred["kind"] == "has":
        ch = pred["ch"]
        return lambda x: ch in str(x)
    raise ValueError(pred)


def cm_apply(rows: dict, mt: str, op: dict, style: str):
    """Model of one collection operation.

    returns (status, rows, mt) with status
      'ok'     the operation returns a new collection holding ``rows``
      'empty'  a selection that keeps nothing (old style documents {} as the result, new style ValueError)
      'error'  the library documents ValueError for this input
      'skip'   the class does not offer the operation
    """
    kind = op["op"]
    names = list(rows)
    if kind == "rc":
        return "ok", {n: comp(s, mt)[::-1] for n, s in rows.items()}, mt
    if kind == "take_seqs":
        sel = [op["names"]] if isinstance(op["names"], str) else list(op["names"])
        keep = [n for n in names if n not in sel] if op["negate"] else sel
        if not keep:
            return "empty", rows, mt
        return "ok", {n: rows[n] for n in keep}, mt
    if kind == "take_seqs_if":
        f = c_pred(op["pred"])
        keep = [n for n in names if bool(f(rows[n])) != op["negate"]]
        if not keep:
            return "empty", rows, mt
        return "ok", {n: rows[n] for n in keep}, mt
    if kind == "rename":
        m = dict(op["map"])
        return "ok", {m.get(n, n): s for n, s in rows.items()}, mt
    if kind == "conv":
        to = op["to"]
        if to == "rna":
            return "ok", {n: s.replace("T", "U") for n, s in rows.items()}, "rna"
        return "ok", {n: s.replace("U", "T") for n, s in rows.items()}, "dna"
    if kind == "degap":
        return "ok", {n: s.replace("-", "").replace("?", "") for n, s in rows.items()}, mt
    if kind == "add_seqs":
        other = dict(op["rows"])
        if any(n in rows for n in other):
            # name clash: ValueError is pinned for the new style only
            return ("error" if style == "new" else "skip"), rows, mt
        index = len(names)
        if style == "old":
            # docstring: before_name wins when both are given
            if op.get("before") is not None:
                index = names.index(op["before"])
            elif op.get("after") is not None:
                index = names.index(op["after"]) + 1
        order = names[:index] + list(other) + names[index:]
        merged = {**rows, **other}
        return "ok", {n: merged[n] for n in order}, mt
    if kind == "pad_seqs":
        longest = max(len(r) for r in rows.values())
        L = op["pad"] if op["pad"] is not None else longest
        if L < longest:
            return "error", rows, mt
        return "ok", {n: r + "-" * (L - len(r)) for n, r in rows.items()}, mt
    if kind in ("copy", "deepcopy"):
        if style == "new":
            return "skip", rows, mt
        return "ok", dict(rows), mt
    if kind == "to_aligned":
        lens = {len(r) for r in rows.values()}
        if len(lens) != 1 or 0 in lens:
            return "skip", rows, mt
        return "ok", {n: s.replace("-", "").replace("?", "") for n, s in rows.items()}, mt
    raise ValueError(kind)


def c_pick(draw, items, k=None):
    """the first k elements of a random order of items, built from bounded integer draws (st.permutations rejects
    most byte buffers handed to fuzz_one_input, this construction accepts all of them)"""
    items = list(items)
    k = len(items) if k is None else k
    out = []
    for _ in range(k):
        out.append(items.pop(draw(st.integers(0, len(items) - 1))))
    return out


@st.composite
def crow_st(draw, mt, n):
    canon, degen, gap, q = ALPH[mt]
    weights = canon * 6 + degen + gap * 3 + q
    return "".join(draw(st.lists(st.sampled_from(weights), min_size=n, max_size=n)))


@st.composite
def collections(draw):
    mt = draw(st.sampled_from(["dna", "dna", "rna", "protein"]))
    nrows = draw(st.integers(2, 5))
    names = c_pick(draw, C_NAMES, nrows)
    if draw(st.sampled_from([False, False, True])):
        L = draw(st.integers(1, 14))
        lens = [L] * nrows
    else:
        lens = [draw(st.integers(0, 14)) for _ in names]
    rows = {n: draw(crow_st(mt, k)) for n, k in zip(names, lens)}
    if draw(st.integers(0, 3)) == 0:  # identical rows (get_identical_sets)
        i = draw(st.integers(0, nrows - 2))
        rows[names[nrows - 1]] = rows[names[i]]
    depth = draw(st.integers(1, 6))
    ops = []
    cur, cur_mt = rows, mt
    for _ in range(depth):
        names = list(cur)
        lens = [len(r) for r in cur.values()]
        kinds = ["take_seqs", "take_seqs", "take_seqs_if", "take_seqs_if", "rename", "rename", "degap", "add_seqs", "add_seqs",
                 "pad_seqs", "pad_seqs", "copy", "deepcopy"]
        if cur_mt in ("dna", "rna"):
            kinds += ["rc", "rc", "rc", "rc", "conv", "conv"]
        if len(set(lens)) == 1 and lens[0] > 0:
            kinds += ["to_aligned"] * 4
        kind = draw(st.sampled_from(kinds))
        op = {"op": kind}
        if kind == "rc":
            op["via"] = draw(st.sampled_from(["rc", "reverse_complement"]))
        elif kind == "take_seqs":
            k = draw(st.integers(1, len(names)))
            sel = c_pick(draw, names, k)
            neg = draw(st.booleans())
            if k == 1 and draw(st.booleans()):
                sel = sel[0]  # a single name may be given as a string
            op.update(names=sel, negate=neg)
        elif kind == "take_seqs_if":
            if draw(st.booleans()):
                pred = {"kind": "minlen", "k": draw(st.sampled_from(sorted(set(lens)) + [max(lens) + 1]))}
            else:
                canon, degen, gap, q = ALPH[cur_mt]
                pred = {"kind": "has", "ch": draw(st.sampled_from(canon[:4] + gap + q + degen[-1]))}
            op.update(pred=pred, negate=draw(st.booleans()))
        elif kind == "rename":
            if draw(st.booleans()):  # rotate the existing names
                m = [[n, names[(i + 1) % len(names)]] for i, n in enumerate(names)]
            else:
                pool = [n for n in C_FRESH if n not in cur]
                k = draw(st.integers(1, min(len(names), len(pool))))
                src = c_pick(draw, names, k)
                dst = c_pick(draw, pool, k)
                m = [[a, b] for a, b in zip(src, dst)]
            op.update(map=m)
        elif kind == "conv":
            to = draw(st.sampled_from(["rna", "dna"]))
            op.update(to=to, via=draw(st.sampled_from(["to_" + to, "to_moltype"])))
        elif kind == "add_seqs":
            pool = [n for n in C_NAMES + C_FRESH if n not in cur]
            if len(names) >= 7 or not pool:
                continue
            k = draw(st.integers(1, min(2, len(pool))))
            new_names = c_pick(draw, pool, k)
            clash = draw(st.integers(0, 7)) == 0
            if clash:
                new_names[-1] = draw(st.sampled_from(names))
            other = [[n, draw(crow_st(cur_mt, draw(st.integers(0, 14))))] for n in new_names]
            where = draw(st.sampled_from(["end", "end", "before", "after", "both"]))
            op.update(
                rows=other,
                before=draw(st.sampled_from(names)) if where in ("before", "both") else None,
                after=draw(st.sampled_from(names)) if where in ("after", "both") else None,
                as_dict=draw(st.booleans()),
            )
        elif kind == "pad_seqs":
            longest = max(lens)
            mode = draw(st.sampled_from(["none", "none", "exact", "more", "more", "less"]))
            pad = None
            if mode == "exact":
                pad = longest
            elif mode == "more":
                pad = longest + draw(st.integers(1, 4))
            elif mode == "less":
                if longest == 0:
                    continue
                pad = draw(st.integers(0, longest - 1))
            op.update(pad=pad)
        elif kind == "to_aligned":
            op.update(array=draw(st.booleans()))
        ops.append(op)
        status, new, new_mt = cm_apply(cur, cur_mt, op, "old")
        if status == "ok":
            cur, cur_mt = new, new_mt
    return {"mt": mt, "rows": [[n, r] for n, r in rows.items()], "ops": ops}


def cbuild(rows, mt, style):
    from cogent3 import make_unaligned_seqs

    return make_unaligned_seqs(dict(rows), moltype=mt, new_type=(style == "new"))


def cr_apply(coll, op, mt, style):
    """the same operation on a real collection"""
    kind = op["op"]
    if kind == "rc":
        return getattr(coll, op["via"])()
    if kind == "take_seqs":
        return coll.take_seqs(op["names"], negate=op["negate"])
    if kind == "take_seqs_if":
        return coll.take_seqs_if(c_pred(op["pred"]), negate=op["negate"])
    if kind == "rename":
        m = dict(op["map"])
        return coll.rename_seqs(lambda n: m.get(n, n))
    if kind == "conv":
        if op["via"] == "to_moltype":
            return coll.to_moltype(op["to"])
        return getattr(coll, op["via"])()
    if kind == "degap":
        return coll.degap()
    if kind == "add_seqs":
        other = dict(op["rows"])
        if style == "old":
            # the old style wants an object of its own class
            kw = {}
            if op.get("before") is not None:
                kw["before_name"] = op["before"]
            if op.get("after") is not None:
                kw["after_name"] = op["after"]
            return coll.add_seqs(cbuild(other, mt, "old"), **kw)
        return coll.add_seqs(other if op["as_dict"] else cbuild(other, mt, "new"))
    if kind == "pad_seqs":
        return coll.pad_seqs(pad_length=op["pad"])
    if kind == "copy":
        return coll.copy()
    if kind == "deepcopy":
        return coll.deepcopy()
    raise ValueError(kind)


def c_lengths(x):
    d = x.to_dict() if hasattr(x, "to_dict") else dict(x)
    return {str(k): int(v) for k, v in d.items()}


def c_observe(s: Soft, tag, coll, rows, mt, what):
    """names (order), num_seqs, to_dict, get_lengths, is_ragged, moltype and every get_seq of a collection
    against the model rows; False when names or to_dict disagree (the history stops there)"""
    names = list(rows)
    ok, got_names = s.call(tag + "/names", lambda: list(coll.names))
    if ok and not s.eq(got_names, names, tag + "/names", what):
        return False
    ok, n = s.call(tag + "/num_seqs", lambda: coll.num_seqs)
    if ok:
        s.eq(n, len(names), tag + "/num_seqs", what)
    ok, d = s.call(tag + "/to_dict", coll.to_dict)
    if not ok:
        return False
    if not s.eq(d, dict(rows), tag + "/to_dict", what):
        return False
    s.eq(list(d), names, tag + "/to_dict-order", what)
    canon = set(ALPH[mt][0])
    # get_lengths() counts canonical characters only (docstring, test_get_lengths); when no row holds a single
    # canonical character the count table has no column and both styles raise ValueError("Must provide data")
    # from the profile constructor - the same on a fresh object, so not a statement of the property
    has_canon = any(c in canon for r in rows.values() for c in r)
    ok, gl = s.call(tag + "/get_lengths", lambda: c_lengths(coll.get_lengths()), allowed=() if has_canon else (ValueError,))
    if ok:
        s.eq(gl, {n: sum(c in canon for c in r) for n, r in rows.items()}, tag + "/get_lengths", what)
    elif not has_canon:
        s.cls("coll:get_lengths-undefined(no canonical character)")
    ok, rg = s.call(tag + "/is_ragged", coll.is_ragged)
    if ok:
        s.eq(bool(rg), len({len(r) for r in rows.values()}) > 1, tag + "/is_ragged", what)
    ok, lab = s.call(tag + "/moltype", lambda: coll.moltype.label)
    if ok:
        s.eq(lab, mt, tag + "/moltype", what)
    for nme in names:
        ok, g = s.call(tag + "/get_seq", lambda: str(coll.get_seq(nme)))
        if ok:
            s.eq(g, rows[nme], tag + "/get_seq", f"{what}: row {nme}")
    return True


def c_receiver(s: Soft, tag, coll, rows, what):
    """the receiver of an operation that returns a new object still holds its rows"""
    ok, got = s.call(tag + "/receiver-changed", lambda: (list(coll.names), coll.to_dict()))
    if ok:
        s.check(got[0] == list(rows) and got[1] == dict(rows), tag + "/receiver-changed", f"{what}: receiver now {got[1]} (names {got[0]}), was {dict(rows)}")


CMETHODS = [
    ("counts", {"include_ambiguity": True, "allow_gap": True}), ("counts_per_seq", {}), ("counts_per_seq", {"motif_length": 2}),
    ("probs_per_seq", {}), ("get_motif_probs", {}), ("get_lengths", {"include_ambiguity": True, "allow_gap": True}),
    ("get_identical_sets", {}), ("get_identical_sets", {"mask_degen": True}), ("get_ambiguous_positions", {}),
    ("has_terminal_stop", {}), ("trim_stop_codons", {}), ("get_translation", {"incomplete_ok": True}),
    ("to_fasta", {"block_size": 4}), ("to_phylip", {}), ("__str__", {}),
]


def c_method_differential(s: Soft, tag, coll, rows, mt, style, what):
    ok, fresh = s.call(tag + "/fresh", cbuild, rows, mt, style)
    if not ok:
        return
    for name, kw in CMETHODS:
        res = []
        for obj in (coll, fresh):
            try:
                res.append(("ok", norm(getattr(obj, name)(**kw))))
            except Exception as e:  # noqa: BLE001
                res.append(("raises", type(e).__name__))
        if res[0] != res[1]:
            s.fail(f"{tag}/method:{name}", f"{what}: {name}({kw}) on result -> {str(res[0])[:200]}; on fresh object with the same rows -> {str(res[1])[:200]}")


def _cbrief(op):
    k = op["op"]
    if k == "add_seqs":
        return f"add_seqs({dict(op['rows'])},before={op.get('before')},after={op.get('after')},as_dict={op.get('as_dict')})"
    if k == "rename":
        return f"rename({dict(op['map'])})"
    return k + "(" + ",".join(f"{a}={v}" for a, v in op.items() if a != "op") + ")"


C_STATEFUL = ("take_seqs", "take_seqs_if", "rename", "conv", "add_seqs", "pad_seqs", "degap", "copy", "deepcopy", "to_aligned")


def exec_collections(case) -> Soft:
    from cogent3 import make_aligned_seqs

    s = Soft("C03/")
    mt0 = case["mt"]
    rows0 = {n: r for n, r in case["rows"]}
    if len({len(r) for r in rows0.values()}) > 1:
        s.cls("coll:ragged-input")
    s.cls("coll:" + mt0)
    nontriv = []
    for style in C_STYLES:
        base = f"coll/{style}"
        ok, coll = s.call(base + "/construct", cbuild, rows0, mt0, style)
        if not ok:
            continue
        rows, mt = rows0, mt0
        if not c_observe(s, base + "/fresh", coll, rows, mt, f"fresh {style}-style collection {rows0}"):
            continue
        hist = []
        done = []
        for op in case["ops"]:
            kind = op["op"]
            status, new_rows, new_mt = cm_apply(rows, mt, op, style)
            tag = f"{base}/{kind}"
            what = f"{style}-style history {hist + [_cbrief(op)]} from {rows0} ({mt0})"
            if status == "skip":
                s.cls(f"coll-op-skipped:{style}:{kind}")
                continue
            if kind == "add_seqs" and style == "new" and (op.get("before") is not None or op.get("after") is not None):
                s.cls("coll-op:new:add_seqs-appends(no position arguments)")
            if kind == "to_aligned":
                # collection -> alignment (factory on the collection's to_dict) -> degap back to a collection
                ok, aln = s.call(tag, lambda: make_aligned_seqs(coll.to_dict(), moltype=mt, array_align=op["array"]))
                if not ok:
                    break
                ok, d = s.call(tag + "/aligned-to_dict", aln.to_dict)
                if ok:
                    s.eq(d, dict(rows), tag + "/aligned-to_dict", what)
                    s.eq(list(d), list(rows), tag + "/aligned-names", what)
                ok, res = s.call(tag + "/degap", aln.degap)
                if ok and style == "new":
                    ok, res = s.call(tag + "/rebuild", lambda: cbuild(res.to_dict(), mt, "new"))
            else:
                allowed = (ValueError,) if (status == "error" or (status == "empty" and style == "new")) else ()
                ok, res = s.call(tag, cr_apply, coll, op, mt, style, allowed=allowed)
            c_receiver(s, tag, coll, rows, what)
            if status == "error":
                s.check((not ok) and isinstance(res, ValueError), tag + "/expected-ValueError", f"{what}: got {res!r}"[:400])
                if ok or not isinstance(res, ValueError):
                    break
                s.cls(f"coll-op:{kind}:documented-ValueError")
                continue
            if status == "empty":
                if style == "old":
                    good = ok and isinstance(res, dict) and not res
                else:
                    good = (not ok) and isinstance(res, ValueError)
                s.check(good, tag + "/empty-selection", f"{what}: nothing selected, got {res!r}"[:400])
                if not good:
                    break
                s.cls(f"coll-op:{kind}:empty-selection")
                continue
            if not ok:
                break
            hist.append(_cbrief(op))
            if res is None or isinstance(res, dict):
                s.fail(tag + "/no-collection", f"{what}: returned {res!r}, model has {new_rows}")
                break
            if not c_observe(s, tag, res, new_rows, new_mt, what):
                break
            coll, rows, mt = res, new_rows, new_mt
            done.append(kind)
            s.cls(f"coll-op:{kind}")
        if coll is not None and rows:
            c_method_differential(s, f"{base}/final", coll, rows, mt, style, f"{style}-style after {hist} from {rows0} ({mt0})")
        # non-trivial: a reversal or a moltype change is followed by an operation that has to carry it along
        nt = any(k in ("rc", "conv") and any(j in C_STATEFUL or j == "rc" for j in done[i + 1 :]) for i, k in enumerate(done))
        if nt:
            s.cls("coll:rc/conv-then-operation")
        nontriv.append(nt)
    s.nontrivial = any(nontriv)
    return s



SUBS = [
    Sub("histories", exec_history, strategy=histories(), quick=1600, thorough=40_000, shards_quick=16),
    Sub("collections", exec_collections, strategy=collections(), quick=1600, thorough=40_000, shards_quick=16),
]

KNOWN_PREDICATES = {}

# thorough tier: coverage-guided campaigns (atheris/libFuzzer mutating the bytes Hypothesis draws from)
FUZZ = {
    "subs": ['histories', 'collections'],
    "targets": ['cogent3.core.alignment', 'cogent3.core.sequence', 'cogent3.core.new_alignment'],
    "execs_thorough": 40_000, "jobs_thorough": 4, "execs_quick": 1000, "jobs_quick": 2,
}

META = {
    "technique": "Hypothesis-generated operation histories applied to both alignment classes (sub-check histories) and to the old-style and new-style unaligned SequenceCollection (sub-check collections) and to a dict-of-(gapped)-strings model; method differential result vs fresh object",
    "level_text": "A few thousand generated histories per run (slicing inside gap runs, integer column indexing from either end, rc, row/column selection, gap and degenerate filters, degapping relative to a row, index-driven sampling, concatenation within and across the two classes, class and moltype conversion) are executed on the annotatable and the array-backed class and compared after every step with plain string operations; 18 read-only methods of the final object are compared with a freshly built object. A second set of a few thousand histories (rc, take_seqs, take_seqs_if, rename_seqs, DNA/RNA conversion, degap, add_seqs with positions, pad_seqs, copy/deepcopy, to an alignment and back) runs on ragged unaligned collections of the old and the new style with names, num_seqs, to_dict, get_lengths, is_ragged, moltype and every get_seq compared after each step, the receiver checked for being unchanged, and 15 read-only calls compared with a fresh collection.",
    "level_note": "Trusts the row models (about 80 lines for alignments, about 70 for collections). Collections: unknown/repeated names in take_seqs, non-injective renamers, protein rc, annotation databases and the names setter of the new style are outside the driven domain. Strides and out-of-range slices are outside the domain; generic filtered() predicates are covered through omit_gap_pos/no_degenerates.",
    "design_ref": "DESIGN.md section 1, C03",
}
